import io
import itertools
import os
import random
import sys

import falcon
from falcon.asgi.reader import BufferedReader as AsyncReader
from falcon.errors import DelimiterError
from falcon.util.reader import BufferedReader as SyncReader

assert SyncReader.__module__ == 'falcon.util.reader', SyncReader.__module__

# ---------------------------------------------------------------------------
# Reference model: a plain cursor over the whole byte string.
# ---------------------------------------------------------------------------

ERR = 'DelimiterError'


class Cursor:
    def __init__(self, data, chunk_size):
        self.data = data
        self.pos = 0
        self.cs = chunk_size

    def rest(self):
        return self.data[self.pos :]

    def read(self, size):
        if size is None or size < 0:
            size = len(self.data) - self.pos
        out = self.data[self.pos : self.pos + size]
        self.pos += len(out)
        return out

    def peek(self, size):
        if size < 0 or size > self.cs:
            size = self.cs
        return self.data[self.pos : self.pos + size]

    def read_until(self, delimiter, size, consume):
        idx = self.data.find(delimiter, self.pos)
        end = idx if idx >= 0 else len(self.data)
        if size is not None and size >= 0:
            end = min(end, self.pos + size)
        out = self.data[self.pos : end]
        self.pos = end
        if consume:
            if self.data[end : end + len(delimiter)] != delimiter:
                return (ERR, out)
            self.pos += len(delimiter)
        return out

    def readline(self, size):
        rest = self.rest()
        n = len(rest) if (size is None or size < 0 or size > len(rest)) else size
        idx = rest.find(b'\n')
        line = rest[: idx + 1] if idx >= 0 else rest
        line = line[:n]
        self.pos += len(line)
        return line

    def readlines(self, hint):
        total = 0
        out = []
        while True:
            line = self.readline(-1)
            if not line:
                break
            out.append(line)
            if hint >= 0:
                total += len(line)
                if total >= hint:
                    break
        return out

    def section(self, delimiter):
        idx = self.data.find(delimiter, self.pos)
        end = idx if idx >= 0 else len(self.data)
        return self.data[self.pos : end], end

    @property
    def at_end(self):
        return self.pos >= len(self.data)


# ---------------------------------------------------------------------------
# Sources
# ---------------------------------------------------------------------------


class SyncSource:
    """read(n) callable handing out at most n bytes, following a cut plan."""

    def __init__(self, data, cuts, limit):
        self.data = data
        self.pos = 0
        self.cuts = list(cuts) or [len(data) + 1]
        self.i = 0
        self.given = 0
        self.limit = limit
        self.eof_seen = False

    def __call__(self, n):
        assert n > 0, 'reader asked the source for %r bytes' % (n,)
        k = self.cuts[self.i % len(self.cuts)]
        self.i += 1
        k = max(1, min(k, n))
        out = self.data[self.pos : self.pos + k]
        self.pos += len(out)
        self.given += len(out)
        assert self.given <= self.limit, 'read past the declared maximum length'
        return out


def async_source(data, cuts):
    async def gen():
        pos = 0
        i = 0
        plan = list(cuts) or [len(data) + 1]
        while pos < len(data):
            k = plan[i % len(plan)]
            i += 1
            if k == 0:
                yield b''
                continue
            yield data[pos : pos + k]
            pos += k
        if plan and plan[-1] == 0:
            yield b''

    return gen()


def run(coro):
    try:
        coro.send(None)
    except StopIteration as ex:
        return ex.value
    raise RuntimeError('coroutine unexpectedly suspended')


class AsyncSink:
    def __init__(self):
        self.parts = []

    async def write(self, data):
        self.parts.append(bytes(data))


class SyncSink:
    def __init__(self):
        self.parts = []

    def write(self, data):
        self.parts.append(bytes(data))


# ---------------------------------------------------------------------------
# Operation application
# ---------------------------------------------------------------------------


class Mismatch(Exception):
    pass


def expect(got, want, what):
    if got != want:
        raise Mismatch('%s: got %r, want %r' % (what, got, want))
    if not isinstance(got, (bytes, list, tuple, bool, int)):
        raise Mismatch('%s: result type %r' % (what, type(got)))


def apply_sync(reader, cur, op):
    kind = op[0]
    if kind == 'read':
        expect(reader.read(op[1]), cur.read(op[1]), op)
    elif kind == 'read0':
        expect(reader.read(), cur.read(-1), op)
    elif kind == 'peek':
        expect(reader.peek(op[1]), cur.peek(op[1]), op)
    elif kind == 'read_until':
        _, delim, size, consume = op
        want = cur.read_until(delim, size, consume)
        try:
            got = reader.read_until(delim, size, consume)
        except DelimiterError:
            got = (ERR,)
        if isinstance(want, tuple):
            expect(got, (ERR,), op)
        else:
            expect(got, want, op)
    elif kind == 'pipe_until':
        _, delim, consume, with_dest = op
        want = cur.read_until(delim, -1, consume)
        sink = SyncSink() if with_dest else None
        try:
            reader.pipe_until(delim, sink, consume)
            got_err = False
        except DelimiterError:
            got_err = True
        expect(got_err, isinstance(want, tuple), (op, 'raises'))
        if with_dest:
            want_bytes = want[1] if isinstance(want, tuple) else want
            expect(b''.join(sink.parts), want_bytes, op)
            if any(not p for p in sink.parts):
                raise Mismatch('%r: empty chunk written' % (op,))
            if any(len(p) > cur.cs for p in sink.parts):
                raise Mismatch('%r: oversized chunk written' % (op,))
    elif kind == 'pipe':
        want = cur.read(-1)
        sink = SyncSink() if op[1] else None
        reader.pipe(sink)
        if sink is not None:
            expect(b''.join(sink.parts), want, op)
    elif kind == 'exhaust':
        cur.read(-1)
        reader.exhaust()
    elif kind == 'readline':
        expect(reader.readline(op[1]), cur.readline(op[1]), op)
    elif kind == 'readlines':
        expect(reader.readlines(op[1]), cur.readlines(op[1]), op)
    elif kind == 'delimit':
        _, delim, subops = op
        section, end = cur.section(delim)
        child = reader.delimit(delim)
        ccur = Cursor(section, cur.cs)
        for sub in subops:
            apply_sync(child, ccur, sub)
        child.exhaust()
        expect(child.read(), b'', (op, 'child after exhaust'))
        cur.pos = end
    else:
        raise AssertionError(op)


def check_async_indicators(reader, cur, op):
    tell = reader.tell()
    if tell != cur.pos:
        raise Mismatch('%r: tell() %r, cursor %r' % (op, tell, cur.pos))
    if reader.eof and not cur.at_end:
        raise Mismatch('%r: eof reported at %r/%r' % (op, cur.pos, len(cur.data)))


def apply_async(reader, cur, op):
    kind = op[0]
    if kind == 'read':
        expect(run(reader.read(op[1])), cur.read(op[1]), op)
        if op[1] is None or op[1] < 0:
            if not reader.eof:
                raise Mismatch('%r: not eof after reading everything' % (op,))
    elif kind == 'read0':
        expect(run(reader.read()), cur.read(-1), op)
        if not reader.eof:
            raise Mismatch('%r: not eof after reading everything' % (op,))
    elif kind == 'readall':
        expect(run(reader.readall()), cur.read(-1), op)
        if not reader.eof:
            raise Mismatch('%r: not eof after readall' % (op,))
    elif kind == 'peek':
        expect(run(reader.peek(op[1])), cur.peek(op[1]), op)
    elif kind == 'read_until':
        _, delim, size, consume = op
        want = cur.read_until(delim, size, consume)
        try:
            got = run(reader.read_until(delim, size, consume))
        except DelimiterError:
            got = (ERR,)
        if isinstance(want, tuple):
            expect(got, (ERR,), op)
        else:
            expect(got, want, op)
    elif kind == 'pipe_until':
        _, delim, consume, with_dest = op
        want = cur.read_until(delim, -1, consume)
        sink = AsyncSink() if with_dest else None
        try:
            run(reader.pipe_until(delim, sink, consume))
            got_err = False
        except DelimiterError:
            got_err = True
        expect(got_err, isinstance(want, tuple), (op, 'raises'))
        if with_dest:
            want_bytes = want[1] if isinstance(want, tuple) else want
            expect(b''.join(sink.parts), want_bytes, op)
    elif kind == 'pipe':
        want = cur.read(-1)
        sink = AsyncSink() if op[1] else None
        run(reader.pipe(sink))
        if sink is not None:
            expect(b''.join(sink.parts), want, op)
        if not reader.eof:
            raise Mismatch('%r: not eof after pipe' % (op,))
    elif kind == 'exhaust':
        cur.read(-1)
        run(reader.exhaust())
        if not reader.eof:
            raise Mismatch('%r: not eof after exhaust' % (op,))
    elif kind == 'delimit':
        _, delim, subops = op
        section, end = cur.section(delim)
        child = reader.delimit(delim)
        ccur = Cursor(section, cur.cs)
        for sub in subops:
            apply_async(child, ccur, sub)
        run(child.exhaust())
        expect(run(child.read()), b'', (op, 'child after exhaust'))
        if not child.eof:
            raise Mismatch('%r: child not eof after exhaust' % (op,))
        if child.tell() != len(section):
            raise Mismatch(
                '%r: child tell() %r, section %r' % (op, child.tell(), len(section))
            )
        cur.pos = end
    else:
        raise AssertionError(op)
    check_async_indicators(reader, cur, op)


SYNC_ONLY = ('readline', 'readlines')
ASYNC_ONLY = ('readall',)


def strip_ops(ops, banned):
    out = []
    for op in ops:
        if op[0] in banned:
            continue
        if op[0] == 'delimit':
            op = (op[0], op[1], strip_ops(op[2], banned))
        out.append(op)
    return out


def run_sync_case(data, cs, cuts, ops, extra=b'', slack=0):
    """`extra` bytes follow `data` in the source but lie past max_stream_len."""
    limit = len(data) + slack if not extra else len(data)
    src = SyncSource(data + extra, cuts, limit)
    reader = SyncReader(src, limit, cs)
    cur = Cursor(data, cs)
    for op in strip_ops(ops, ASYNC_ONLY):
        apply_sync(reader, cur, op)
    # Whatever the history, the rest of the stream must still be intact.
    expect(reader.read(), cur.read(-1), 'final read')
    expect(reader.read(), b'', 'read after the end')
    expect(reader.peek(), b'', 'peek after the end')
    if src.given > limit:
        raise Mismatch('source gave %r bytes, limit %r' % (src.given, limit))


def run_async_case(data, cs, cuts, ops):
    reader = AsyncReader(async_source(data, cuts), cs)
    cur = Cursor(data, cs)
    check_async_indicators(reader, cur, 'initial')
    for op in strip_ops(ops, SYNC_ONLY):
        apply_async(reader, cur, op)
    expect(run(reader.read()), cur.read(-1), 'final read')
    expect(run(reader.read()), b'', 'read after the end')
    expect(run(reader.peek()), b'', 'peek after the end')
    check_async_indicators(reader, cur, 'final')
    if not reader.eof:
        raise Mismatch('not eof at the end')


# ---------------------------------------------------------------------------
# Case generation
# ---------------------------------------------------------------------------


def gen_sizes(rng, cs, n):
    return rng.choice(
        [None, -1, 0, 1, 2, 3, cs - 1, cs, cs + 1, 2 * cs - 1, 2 * cs, 2 * cs + 1,
         3 * cs, n, n + 1, max(0, n - 1), rng.randint(0, max(1, n + 2)),
         rng.randint(0, max(1, n + 2)), cs * 128, cs * 128 + 1, cs * 1024 + 1]
    )


def gen_delim(rng, cs, alphabet, data):
    max_len = min(cs, 4)
    length = rng.randint(1, max_len)
    if data and len(data) >= length and rng.random() < 0.6:
        start = rng.randrange(0, len(data) - length + 1)
        return data[start : start + length]
    return bytes(rng.choice(alphabet) for _ in range(length))


def gen_op(rng, cs, alphabet, data, depth=0):
    n = len(data)
    r = rng.random()
    if r < 0.20:
        size = gen_sizes(rng, cs, n)
        return ('read', size)
    if r < 0.30:
        return ('peek', rng.choice([-1, 0, 1, 2, cs - 1, cs, cs + 1, 3 * cs]))
    if r < 0.62:
        size = gen_sizes(rng, cs, n)
        if size is None:
            size = -1
        return (
            'read_until',
            gen_delim(rng, cs, alphabet, data),
            size,
            rng.random() < 0.4,
        )
    if r < 0.72:
        return (
            'pipe_until',
            gen_delim(rng, cs, alphabet, data),
            rng.random() < 0.4,
            rng.random() < 0.8,
        )
    if r < 0.76:
        return ('readline', rng.choice([-1, 0, 1, 2, cs, cs + 1, n, n + 3]))
    if r < 0.78:
        return ('readlines', rng.choice([-1, 0, 1, cs, n]))
    if r < 0.80:
        return ('pipe', rng.random() < 0.8)
    if r < 0.82:
        return ('exhaust',)
    if r < 0.84:
        return ('readall',)
    if r < 0.86:
        return ('read0',)
    if depth < 2:
        k = rng.randint(0, 4)
        return (
            'delimit',
            gen_delim(rng, cs, alphabet, data),
            [gen_op(rng, cs, alphabet, data, depth + 1) for _ in range(k)],
        )
    return ('read', gen_sizes(rng, cs, n))


def gen_cuts(rng, allow_zero):
    style = rng.random()
    if style < 0.15:
        return [1]
    if style < 0.25:
        return []
    if style < 0.35:
        return [rng.randint(1, 9)]
    lo = 0 if allow_zero else 1
    cuts = [rng.randint(lo, rng.choice([1, 2, 3, 5, 9, 17])) for _ in range(rng.randint(1, 7))]
    if not any(cuts):
        cuts.append(rng.randint(1, 5))
    return cuts


def gen_data(rng, alphabet, max_len):
    n = rng.choice([0, 1, 2, 3, rng.randint(0, max_len), rng.randint(0, max_len)])
    weights = [rng.random() ** 2 + 0.05 for _ in alphabet]
    return bytes(rng.choices(alphabet, weights)[0] for _ in range(n))


def random_cases(seed, count, max_len=30, max_cs=9, max_ops=7):
    rng = random.Random(seed)
    for _ in range(count):
        alphabet = rng.choice([b'ab\n-', b'a-', b'a-', b'-\n', b'ab-'])
        cs = rng.choice([1, 1, 2, 2, 3, 3, 4, 5, 7, rng.randint(1, max_cs), 16])
        data = gen_data(rng, alphabet, max_len)
        ops = [gen_op(rng, cs, alphabet, data) for _ in range(rng.randint(0, max_ops))]
        yield data, cs, ops, rng


def exhaustive_cases(max_len=4, alphabet=b'a-', delims=(b'-', b'--', b'a-', b'-a-')):
    menu = []
    for d in delims:
        for size in (-1, 0, 1, 2, 3):
            for consume in (False, True):
                menu.append(('read_until', d, size, consume))
        menu.append(('pipe_until', d, False, True))
        menu.append(('pipe_until', d, True, True))
        menu.append(('delimit', d, [('read', 1), ('peek', 1)]))
        menu.append(('delimit', d, [('read_until', b'a', -1, True)]))
    for size in (-1, 0, 1, 2, 3):
        menu.append(('read', size))
    menu.append(('peek', -1))
    menu.append(('peek', 1))
    menu.append(('readline', -1))
    for n in range(max_len + 1):
        for tup in itertools.product(alphabet, repeat=n):
            data = bytes(tup)
            for cs in (1, 2, 3):
                usable = [
                    op for op in menu
                    if not (op[0] in ('read_until', 'pipe_until', 'delimit') and len(op[1]) > cs)
                ]
                yield data, cs, usable


FAILS = []


def attempt(label, fn, *args, **kwargs):
    try:
        fn(*args, **kwargs)
    except Mismatch as ex:
        FAILS.append('%s %r %r: %s' % (label, args, kwargs, ex))
    except Exception as ex:  # noqa: BLE001
        FAILS.append('%s %r %r: unexpected %s: %s' % (label, args, kwargs, type(ex).__name__, ex))


def run_general(seed, random_count, exhaustive=True):
    total = 0
    for data, cs, ops, rng in random_cases(seed, random_count):
        cuts = gen_cuts(rng, allow_zero=False)
        acuts = gen_cuts(rng, allow_zero=True)
        extra = b'' if rng.random() < 0.5 else bytes(rng.choice(b'a\n-') for _ in range(rng.randint(1, 12)))
        slack = rng.choice([0, 0, 1, 5])
        attempt('sync', run_sync_case, data, cs, cuts, ops, extra=extra, slack=slack)
        attempt('async', run_async_case, data, cs, acuts, ops)
        total += 2
    if exhaustive:
        for data, cs, menu in exhaustive_cases():
            for cuts in ([], [1], [2], [1, 0, 2]):
                scuts = [c for c in cuts if c] or []
                for first in menu:
                    for second in (('read', 1), ('read_until', b'-', -1, True), ('peek', -1)):
                        attempt('sync', run_sync_case, data, cs, scuts, [first, second])
                        attempt('async', run_async_case, data, cs, cuts, [first, second])
                        total += 2
    return total


# ---------------------------------------------------------------------------
# Exact-trace digest: expectations recorded from the UNMODIFIED tree.  Beyond
# the flat-cursor results this pins down the exact chunk sequence written to
# pipe destinations, the sizes requested from the sync source, and the async
# tell()/eof values after every step.
# ---------------------------------------------------------------------------

import hashlib


class TracingSource(SyncSource):
    def __init__(self, *args):
        super().__init__(*args)
        self.calls = []

    def __call__(self, n):
        self.calls.append(n)
        return super().__call__(n)


def trace_sync(reader, op, log):
    kind = op[0]
    try:
        if kind == 'read':
            log.append(reader.read(op[1]))
        elif kind == 'read0':
            log.append(reader.read())
        elif kind == 'peek':
            log.append(reader.peek(op[1]))
        elif kind == 'read_until':
            log.append(reader.read_until(op[1], op[2], op[3]))
        elif kind == 'pipe_until':
            sink = SyncSink()
            try:
                reader.pipe_until(op[1], sink, op[2])
            finally:
                log.append(tuple(sink.parts))
        elif kind == 'pipe':
            sink = SyncSink()
            reader.pipe(sink)
            log.append(tuple(sink.parts))
        elif kind == 'exhaust':
            reader.exhaust()
        elif kind == 'readline':
            log.append(reader.readline(op[1]))
        elif kind == 'readlines':
            log.append(tuple(reader.readlines(op[1])))
        elif kind == 'delimit':
            child = reader.delimit(op[1])
            for sub in op[2]:
                trace_sync(child, sub, log)
            sink = SyncSink()
            child.pipe(sink)
            log.append(tuple(sink.parts))
    except DelimiterError as ex:
        log.append(('DelimiterError', str(ex)))


def trace_async(reader, op, log):
    kind = op[0]
    try:
        if kind == 'read':
            log.append(run(reader.read(op[1])))
        elif kind == 'read0':
            log.append(run(reader.read()))
        elif kind == 'readall':
            log.append(run(reader.readall()))
        elif kind == 'peek':
            log.append(run(reader.peek(op[1])))
        elif kind == 'read_until':
            log.append(run(reader.read_until(op[1], op[2], op[3])))
        elif kind == 'pipe_until':
            sink = AsyncSink()
            try:
                run(reader.pipe_until(op[1], sink, op[2]))
            finally:
                log.append(tuple(sink.parts))
        elif kind == 'pipe':
            sink = AsyncSink()
            run(reader.pipe(sink))
            log.append(tuple(sink.parts))
        elif kind == 'exhaust':
            run(reader.exhaust())
        elif kind == 'delimit':
            child = reader.delimit(op[1])
            for sub in op[2]:
                trace_async(child, sub, log)
            sink = AsyncSink()
            run(child.pipe(sink))
            log.append(tuple(sink.parts))
            log.append((child.tell(), child.eof))
    except DelimiterError as ex:
        log.append(('DelimiterError', str(ex)))
    log.append((reader.tell(), reader.eof))


def trace_digest(seed, count):
    sync_hash = hashlib.sha256()
    async_hash = hashlib.sha256()
    for data, cs, ops, rng in random_cases(seed, count):
        cuts = gen_cuts(rng, allow_zero=False)
        acuts = gen_cuts(rng, allow_zero=True)

        src = TracingSource(data, cuts, len(data))
        reader = SyncReader(src, len(data), cs)
        log = []
        for op in strip_ops(ops, ASYNC_ONLY):
            trace_sync(reader, op, log)
        log.append(reader.read())
        log.append(tuple(src.calls))
        sync_hash.update(repr(log).encode())

        areader = AsyncReader(async_source(data, acuts), cs)
        log = []
        for op in strip_ops(ops, SYNC_ONLY):
            trace_async(areader, op, log)
        log.append(run(areader.read()))
        log.append((areader.tell(), areader.eof))
        async_hash.update(repr(log).encode())
    return sync_hash.hexdigest()[:24], async_hash.hexdigest()[:24]


# ---------------------------------------------------------------------------
# Systematic sweep around buffer edges: an initial read/peek leaves the buffer
# in every alignment, then a delimiter-bound operation with every size cap.
# ---------------------------------------------------------------------------


def systematic_cases(max_cs=4):
    for cs in range(1, max_cs + 1):
        for dl in range(1, cs + 1):
            for delim in {b'-' * dl, (b'a-' * dl)[:dl], (b'-a' * dl)[:dl]}:
                for plen in range(0, 2 * cs + 2):
                    prefix = b'b' * plen
                    datas = [
                        prefix + delim + b'b' + delim,
                        prefix + delim[:-1] + b'b' + delim + b'bb',
                        prefix + delim[:-1],
                    ]
                    for data in datas:
                        yield cs, delim, data


def systematic_ops(cs, delim, data):
    sizes = [-1] + list(range(0, 2 * cs + 3)) + [len(data), len(data) + 1]
    for lead in ([], [('peek', -1)], [('read', 1)], [('peek', -1), ('read', 1)],
                 [('read', cs)], [('read_until', b'b', 1, True)]):
        for size in sizes:
            for consume in (False, True):
                yield lead + [('read_until', delim, size, consume)]
            yield lead + [('delimit', delim, [('read', size)])]
            yield lead + [('delimit', delim, [('peek', 1), ('read_until', b'b', size, False)])]
        yield lead + [('pipe_until', delim, False, True)]
        yield lead + [('pipe_until', delim, True, True)]
        yield lead + [('delimit', delim, [('delimit', b'b', [('read', 1)]), ('read', 1)])]


def run_systematic(do_sync=True, do_async=True, max_cs=4):
    total = 0
    for cs, delim, data in systematic_cases(max_cs):
        for ops in systematic_ops(cs, delim, data):
            for cuts in ([], [1], [2, 1], [1, 0, 3]):
                if do_sync:
                    scuts = [c for c in cuts if c]
                    attempt('sync', run_sync_case, data, cs, scuts, ops)
                    attempt('sync', run_sync_case, data, cs, scuts, ops, extra=b'-b')
                    total += 2
                if do_async:
                    attempt('async', run_async_case, data, cs, cuts, ops)
                    total += 1
    return total


def finish(total, extra_checks=()):
    got = trace_digest(777, 4000)
    if got != EXPECTED_DIGEST:
        FAILS.append('trace digest %r differs from the recorded %r' % (got, EXPECTED_DIGEST))
    for check in extra_checks:
        try:
            check()
        except Exception as ex:  # noqa: BLE001
            FAILS.append('%s: %s: %s' % (check.__name__, type(ex).__name__, ex))
    if FAILS:
        print('FAIL (%d of %d cases)' % (len(FAILS), total))
        for line in FAILS[:20]:
            print('  ' + line[:600])
        sys.exit(1)
    print('PASS (%d cases; falcon from %s)' % (total, os.path.dirname(falcon.__file__)))
    sys.exit(0)


# Recorded from the UNMODIFIED tree (sync digest, async digest).
EXPECTED_DIGEST = ('edabee23e6392ff47c7ef0ad', 'f01c9d1ce90ae4a5816de6f6')


def focus_async_prefix_delimiter():
    """Change under test: the in-buffer delimiter branch of _iter_delimited.

    Put the delimiter at every offset of an already filled buffer (offset 0,
    at the current position, behind it, right after it) and compare with the
    cursor, including the exact chunks handed to a pipe destination.
    """
    total = 0
    for cs in (1, 2, 3, 5, 8):
        for delim in (b'-', b'--', b'-a-'):
            if len(delim) > cs:
                continue
            for before in range(0, cs + 2):
                for skip in range(0, before + 2):
                    data = b'b' * before + delim + b'bb' + delim + b'b'
                    for hint in (-1, 0, 1, 2, before, before + 1, cs, 99):
                        for consume in (False, True):
                            leads = (
                                [('peek', -1)],
                                [('peek', -1), ('read', skip)],
                                [('read', skip)],
                                [('peek', 1), ('read_until', b'b', skip, False)],
                            )
                            for lead in leads:
                                for target in (
                                    ('read_until', delim, hint, consume),
                                    ('pipe_until', delim, consume, True),
                                    ('delimit', delim, [('read', hint)]),
                                ):
                                    for cuts in ([], [1], [cs], [0, 2]):
                                        attempt('async', run_async_case, data, cs, cuts,
                                                lead + [target, ('read_until', delim, -1, True)])
                                        total += 1
    # No pipe destination ever sees an empty chunk for a delimiter sitting at
    # offset 0 of a filled buffer (hard-coded expectation from the unmodified
    # tree: nothing is written at all).
    for cs in (1, 2, 4):
        reader = AsyncReader(async_source(b'-abc', []), cs)
        expect(run(reader.peek(1)), b'-', 'peek')
        sink = AsyncSink()
        run(reader.pipe_until(b'-', sink))
        expect(tuple(sink.parts), (), 'pipe_until at offset 0')
        expect(reader.tell(), 0, 'tell')
        expect(run(reader.read_until(b'-')), b'', 'read_until at offset 0')
        expect(run(reader.read_until(b'-', 2, True)), b'', 'consume at offset 0')
        expect(run(reader.read()), b'abc', 'rest')
        total += 1
    return total


if __name__ == '__main__':
    n = run_general(20141, 15000)
    n += run_systematic(do_sync=False)
    n += run_systematic(do_async=False, max_cs=2)
    n += focus_async_prefix_delimiter()
    finish(n)
