#!/usr/bin/env python
"""Property check: response headers act as a case-insensitive map; cookies
get separate lines; URI-bearing helpers emit pure ASCII that decodes back.

Run as:  PYTHONPATH=<falcon tree> /venv/bin/python check.py

The program is self-contained.  It drives falcon.Response and
falcon.asgi.Response through generated histories and compares every
observable (reads in any letter case, typed properties, the final WSGI / ASGI
header lists, the Set-Cookie lines, request-side cookie parsing, the encoded
Location / Content-Location / Link / Content-Disposition values) against a
small, independent reference model written below.  The hard-coded corner
expectations were taken from the UNMODIFIED tree.

Prints PASS and exits 0 when everything matches.
"""

import datetime
import random
import re
import sys
import time

import falcon
import falcon.asgi
from falcon import testing
from falcon import uri as furi
from falcon.errors import HeaderNotSupported

FOCUS = 'change 4: append_header local binding (section A)'

RNG = random.Random(0xC15)
CASES = 0
UTC = datetime.timezone.utc

RESPONSE_TYPES = (falcon.Response, falcon.asgi.Response)


def fail(msg):
    print('FAIL:', msg)
    sys.exit(1)


def expect(cond, msg):
    global CASES
    CASES += 1
    if not cond:
        fail(msg)


def expect_eq(got, want, msg):
    global CASES
    CASES += 1
    if got != want:
        fail('%s\n   got:  %r\n   want: %r' % (msg, got, want))


# ---------------------------------------------------------------------------
# Independent reference helpers
# ---------------------------------------------------------------------------

WDAYS = ('Mon', 'Tue', 'Wed', 'Thu', 'Fri', 'Sat', 'Sun')
MONTHS = (
    'Jan', 'Feb', 'Mar', 'Apr', 'May', 'Jun',
    'Jul', 'Aug', 'Sep', 'Oct', 'Nov', 'Dec',
)  # fmt: skip


def ref_http_date(dt):
    """Format the wall-clock fields of dt as an IMF-fixdate (no tz maths)."""
    return '%s, %02d %s %04d %02d:%02d:%02d GMT' % (
        WDAYS[dt.weekday()],
        dt.day,
        MONTHS[dt.month - 1],
        dt.year,
        dt.hour,
        dt.minute,
        dt.second,
    )


def ref_cookie_expires(dt):
    if dt.tzinfo is not None:
        dt = (dt - dt.utcoffset()).replace(tzinfo=None)
    return ref_http_date(dt)


def ref_parse_http_date(s):
    m = re.fullmatch(
        r'(\w{3}), (\d\d) (\w{3}) (\d{4}) (\d\d):(\d\d):(\d\d) GMT', s
    )
    if not m:
        fail('not an HTTP date: %r' % (s,))
    dt = datetime.datetime(
        int(m.group(4)),
        MONTHS.index(m.group(3)) + 1,
        int(m.group(2)),
        int(m.group(5)),
        int(m.group(6)),
        int(m.group(7)),
    )
    if WDAYS[dt.weekday()] != m.group(1):
        fail('wrong weekday in %r' % (s,))
    return dt


UNRESERVED = (
    'ABCDEFGHIJKLMNOPQRSTUVWXYZabcdefghijklmnopqrstuvwxyz0123456789-._~'
)
RESERVED = ":/?#[]@!$&'()*+,;="


def ref_pct(s, allowed):
    """Reference RFC 3986 encoder for strings that contain no '%'."""
    assert '%' not in s
    out = []
    for ch in s:
        if ch in allowed:
            out.append(ch)
        else:
            out.extend('%%%02X' % b for b in ch.encode('utf-8'))
    return ''.join(out)


def ref_uri(s):
    return ref_pct(s, UNRESERVED + RESERVED)


def ref_uri_value(s):
    return ref_pct(s, UNRESERVED)


def ref_unpct(s):
    """Reference percent-decoder (UTF-8), '+' left alone."""
    raw = bytearray()
    i = 0
    while i < len(s):
        if s[i] == '%':
            raw.append(int(s[i + 1 : i + 3], 16))
            i += 3
        else:
            raw.extend(s[i].encode('utf-8'))
            i += 1
    return raw.decode('utf-8')


def rand_case(s):
    return ''.join(
        (c.upper() if RNG.random() < 0.5 else c.lower()) for c in s
    )


LATIN1_PRINTABLE = [chr(c) for c in range(0x20, 0x7F)] + [
    chr(c) for c in range(0xA0, 0x100)
]
ASCII_PRINTABLE = [chr(c) for c in range(0x20, 0x7F)]


def rand_header_value():
    kind = RNG.randrange(6)
    if kind == 0:
        return ''
    if kind == 1:
        return RNG.choice(['a', 'b, c', 'x;q=0.5', 'None', ' lead', 'trail ', ','])
    alphabet = ASCII_PRINTABLE if kind < 4 else LATIN1_PRINTABLE
    return ''.join(RNG.choice(alphabet) for _ in range(RNG.randrange(1, 12)))


UNICODE_POOL = (
    'abcXYZ019-._~ /?#[]@!$&\'()*+,;=:"<>\\^`{|}'
    'äöüßÅéñµłŠΔΩЖя'
    'אش中文日本語한€☃\U0001f600\U0001d7cfﬁ́'
)


def rand_unicode(min_len=1, max_len=14, ascii_only=False):
    pool = [c for c in UNICODE_POOL if ord(c) < 128] if ascii_only else UNICODE_POOL
    return ''.join(
        RNG.choice(pool) for _ in range(RNG.randrange(min_len, max_len + 1))
    )


# ---------------------------------------------------------------------------
# Reference model of a response's header state
# ---------------------------------------------------------------------------

PLAIN_NAMES = [
    'x-a', 'x-b', 'x-long-header-name', 'content-type', 'content-length',
    'cache-control', 'vary', 'etag', 'link', 'location', 'content-location',
    'content-disposition', 'expires', 'last-modified', 'retry-after',
    'accept-ranges', 'content-range', 'x-set-cookie', 'set-cookie2', 'cookie',
]  # fmt: skip

COOKIE_FLAG_ATTRS = ('secure', 'httponly', 'partitioned')
ATTR_DISPLAY = {
    'expires': 'expires',
    'path': 'Path',
    'comment': 'Comment',
    'domain': 'Domain',
    'max-age': 'Max-Age',
    'secure': 'Secure',
    'httponly': 'HttpOnly',
    'version': 'Version',
    'samesite': 'SameSite',
    'partitioned': 'Partitioned',
}
DISPLAY_TO_ATTR = dict((v.lower(), k) for k, v in ATTR_DISPLAY.items())
COOKIE_NAME_OK = re.compile(r"[A-Za-z0-9!#$%&'*+\-.^_`|~:]+\Z")
SAMESITE_CANON = {'lax': 'Lax', 'strict': 'Strict', 'none': 'None'}
UNSET = object()


class Model:
    def __init__(self, secure_default):
        self.headers = {}
        self.raw_cookies = []
        # name -> [value, {attr: rendered value or True}]
        self.cookies = {}
        self.secure_default = secure_default

    # -- plain headers ------------------------------------------------------
    def get(self, name, default=None):
        name = name.lower()
        if name == 'set-cookie':
            raise HeaderNotSupported()
        return self.headers.get(name, default)

    def set(self, name, value):
        name = name.lower()
        if name == 'set-cookie':
            raise HeaderNotSupported()
        self.headers[name] = str(value)

    def delete(self, name):
        name = name.lower()
        if name == 'set-cookie':
            raise HeaderNotSupported()
        self.headers.pop(name, None)

    def append(self, name, value):
        name = name.lower()
        value = str(value)
        if name == 'set-cookie':
            self.raw_cookies.append(value)
        elif name in self.headers:
            self.headers[name] = self.headers[name] + ', ' + value
        else:
            self.headers[name] = value

    def set_many(self, items):
        # Items before an offending Set-Cookie are applied (as observed on the
        # unmodified tree): the loop raises at the first offending member.
        for name, value in items:
            self.set(name, value)

    # -- cookies ------------------------------------------------------------
    def set_cookie(self, name, value, **kw):
        try:
            name.encode('ascii')
        except (UnicodeEncodeError, AttributeError):
            raise KeyError(name)
        try:
            value.encode('ascii')
        except (UnicodeEncodeError, AttributeError):
            raise ValueError(value)
        if not COOKIE_NAME_OK.match(name):
            raise KeyError(name)

        entry = self.cookies.setdefault(name, [None, {}])
        entry[0] = value
        attrs = entry[1]

        expires = kw.get('expires')
        if expires:
            attrs['expires'] = ref_cookie_expires(expires)
        max_age = kw.get('max_age')
        if max_age is not None:
            attrs['max-age'] = str(int(max_age))
        if kw.get('domain'):
            attrs['domain'] = kw['domain']
        if kw.get('path'):
            attrs['path'] = kw['path']
        secure = kw.get('secure')
        if self.secure_default if secure is None else secure:
            attrs['secure'] = True
        if kw.get('http_only', True):
            attrs['httponly'] = True
        same_site = kw.get('same_site')
        if same_site:
            canon = SAMESITE_CANON.get(same_site.lower())
            if canon is None:
                # everything above has been recorded already; Partitioned is
                # not reached (hard-coded from the unmodified tree)
                raise ValueError('same_site')
            attrs['samesite'] = canon
        if kw.get('partitioned'):
            attrs['partitioned'] = True

    def unset_cookie(self, name, samesite='Lax', domain=None, path=None):
        entry = self.cookies.setdefault(name, [None, {}])
        entry[0] = ''
        attrs = entry[1]
        attrs['expires'] = UNSET
        attrs['samesite'] = samesite
        if domain:
            attrs['domain'] = domain
        if path:
            attrs['path'] = path


def parse_set_cookie(line):
    """Parse 'name=value; Attr=val; Flag' into (name, coded value, attrs)."""
    parts = line.split('; ')
    name, _, value = parts[0].partition('=')
    attrs = {}
    for part in parts[1:]:
        key, sep, val = part.partition('=')
        attr = DISPLAY_TO_ATTR.get(key.lower())
        if attr is None:
            fail('unknown cookie attribute %r in %r' % (key, line))
        if attr in attrs:
            fail('duplicate cookie attribute %r in %r' % (key, line))
        if key != ATTR_DISPLAY[attr]:
            fail('unexpected attribute spelling %r in %r' % (key, line))
        if attr in COOKIE_FLAG_ATTRS:
            if sep:
                fail('flag attribute with a value in %r' % (line,))
            attrs[attr] = True
        else:
            if not sep:
                fail('valued attribute without a value in %r' % (line,))
            attrs[attr] = val
    return name, value, attrs


def check_cookie_line(line, name, value, attrs, when):
    got_name, got_value, got_attrs = parse_set_cookie(line)
    expect_eq(got_name, name, 'cookie name on the wire')
    want_attrs = dict(attrs)
    if want_attrs.get('expires') is UNSET:
        # an unset cookie must be expired: its date lies in the past
        got_exp = got_attrs.pop('expires', None)
        expect(got_exp is not None, 'unset cookie %r has no expires' % (name,))
        exp_dt = ref_parse_http_date(got_exp)
        now = datetime.datetime.fromtimestamp(when, UTC).replace(tzinfo=None)
        expect(exp_dt < now, 'unset cookie %r is not expired: %r' % (name, got_exp))
        expect(
            (now - exp_dt).total_seconds() < 120,
            'unset cookie %r expiry is not "now - 1": %r' % (name, got_exp),
        )
        del want_attrs['expires']
        if value == '':
            expect_eq(got_value, '""', 'unset cookie must have an empty value')
    expect_eq(got_attrs, want_attrs, 'attributes of cookie %r: %r' % (name, line))
    return got_value


def cookie_roundtrip(pairs):
    """Echo name=codedvalue pairs in a Cookie header; read via request API."""
    if not pairs:
        return
    header = '; '.join('%s=%s' % (n, cv) for n, cv, _ in pairs)
    env = testing.create_environ(headers={'Cookie': header})
    wsgi_req = falcon.Request(env)
    scope = testing.create_scope(headers={'Cookie': header})
    asgi_req = falcon.asgi.Request(scope, None)
    for req in (wsgi_req, asgi_req):
        for n, _, v in pairs:
            expect_eq(req.get_cookie_values(n), [v], 'request cookie values %r' % (n,))
            expect_eq(req.cookies.get(n), v, 'request cookie %r' % (n,))
        expect_eq(
            sorted(req.cookies), sorted(n for n, _, _ in pairs), 'request cookie names'
        )


def verify(resp, model, tag, media_type=None):
    """Compare every observable of resp with the model."""
    when = time.time()

    # -- reads, in arbitrary letter case -------------------------------------
    for name in set(PLAIN_NAMES) | set(model.headers):
        for variant in (name, name.upper(), name.title(), rand_case(name)):
            expect_eq(
                resp.get_header(variant),
                model.headers.get(name),
                '%s: get_header(%r)' % (tag, variant),
            )
            expect_eq(
                resp.get_header(variant, 'dflt'),
                model.headers.get(name, 'dflt'),
                '%s: get_header(%r, default)' % (tag, variant),
            )
    for variant in ('set-cookie', 'Set-Cookie', 'SET-COOKIE', rand_case('set-cookie')):
        for call in (
            lambda: resp.get_header(variant),
            lambda: resp.get_header(variant, 'd'),
            lambda: resp.set_header(variant, 'a=b'),
            lambda: resp.delete_header(variant),
            lambda: resp.set_headers([(variant, 'a=b')]),
            lambda: resp.set_headers({variant: 'a=b'}),
        ):
            try:
                call()
            except HeaderNotSupported as ex:
                expect(isinstance(ex, ValueError), 'HeaderNotSupported is a ValueError')
            else:
                fail('%s: Set-Cookie was reachable through a plain call' % (tag,))

    for prop, hname in PROPS.items():
        expect_eq(
            getattr(resp, prop), model.headers.get(hname), '%s: resp.%s' % (tag, prop)
        )
    expect_eq(dict(resp.headers), model.headers, '%s: resp.headers' % (tag,))

    # -- the list handed to the server ---------------------------------------
    if media_type is not None and 'content-type' not in model.headers:
        model.headers['content-type'] = media_type

    if isinstance(resp, falcon.asgi.Response):
        raw = resp._asgi_headers(media_type)
        items = []
        for n, v in raw:
            expect(type(n) is bytes and type(v) is bytes, '%s: ASGI bytes' % (tag,))
            expect_eq(n, n.lower(), '%s: ASGI header name is lower-case' % (tag,))
            items.append((n.decode('latin-1'), v.decode('latin-1')))
    else:
        items = resp._wsgi_headers(media_type)
        for n, v in items:
            expect(type(n) is str and type(v) is str, '%s: WSGI str' % (tag,))
            expect_eq(n, n.lower(), '%s: WSGI header name is lower-case' % (tag,))

    plain = [(n, v) for n, v in items if n != 'set-cookie']
    cookie_lines = [v for n, v in items if n == 'set-cookie']

    # each plain header exactly once, in insertion order, before any cookie
    expect_eq(plain, list(model.headers.items()), '%s: plain header list' % (tag,))
    expect_eq(
        items[: len(plain)], plain, '%s: plain headers precede cookie lines' % (tag,)
    )
    expect_eq(
        len(cookie_lines),
        len(model.raw_cookies) + len(model.cookies),
        '%s: number of Set-Cookie lines %r' % (tag, cookie_lines),
    )
    expect_eq(
        cookie_lines[: len(model.raw_cookies)],
        model.raw_cookies,
        '%s: raw appended cookies' % (tag,),
    )
    pairs = []
    for line, (name, (value, attrs)) in zip(
        cookie_lines[len(model.raw_cookies) :], model.cookies.items()
    ):
        expect(line.isascii(), 'cookie line is ASCII')
        coded = check_cookie_line(line, name, value, attrs, when)
        pairs.append((name, coded, value))
    cookie_roundtrip(pairs)

    # reading the list must not have changed anything
    expect_eq(dict(resp.headers), model.headers, '%s: resp.headers (again)' % (tag,))


# typed property -> header name
PROPS = {
    'cache_control': 'cache-control',
    'content_location': 'content-location',
    'content_length': 'content-length',
    'content_range': 'content-range',
    'content_type': 'content-type',
    'downloadable_as': 'content-disposition',
    'viewable_as': 'content-disposition',
    'etag': 'etag',
    'expires': 'expires',
    'last_modified': 'last-modified',
    'location': 'location',
    'retry_after': 'retry-after',
    'vary': 'vary',
    'accept_ranges': 'accept-ranges',
}


def ref_disposition(kind, filename):
    if filename.isascii():
        return '%s; filename="%s"' % (kind, filename)
    import unicodedata

    norm = unicodedata.normalize('NFKD', filename)
    if norm.startswith('.'):
        norm = '_' + norm[1:]
    fallback = ''.join(
        c if (c.isascii() and (c.isalnum() or c in '.-')) else '_' for c in norm
    )
    return "%s; filename=%s; filename*=UTF-8''%s" % (
        kind,
        fallback,
        ref_uri_value(filename),
    )


def rand_datetime(aware=None):
    dt = datetime.datetime(
        RNG.choice([1000, 1970, 1999, 2000, 2024, 2038, 2100, 9998])
        if RNG.random() < 0.3
        else RNG.randrange(1900, 2200),
        RNG.randrange(1, 13),
        RNG.randrange(1, 29),
        RNG.randrange(24),
        RNG.randrange(60),
        RNG.randrange(60),
        RNG.choice([0, 0, 1, 999999]),
    )
    if aware is None:
        aware = RNG.random() < 0.5
    if aware:
        minutes = RNG.choice([0, 0, 60, -60, 330, -345, 840, -720, 1, -1439, 1439])
        dt = dt.replace(tzinfo=datetime.timezone(datetime.timedelta(minutes=minutes)))
    return dt


def gen_prop_value(prop):
    """Return (value to assign, expected header value)."""
    if prop in ('cache_control', 'vary'):
        vals = [
            RNG.choice(['no-cache', 'no-store', 'max-age=3', 'Accept', '*', 'X-A'])
            for _ in range(RNG.randrange(0, 4))
        ]
        value = RNG.choice([vals, tuple(vals)])
        return value, ', '.join(vals)
    if prop in ('content_location', 'location'):
        s = rand_unicode().replace('%', '')
        s = s or '/'
        return s, ref_uri(s)
    if prop in ('content_length', 'retry_after'):
        n = RNG.choice([0, 1, 42, 10**12, -1])
        return RNG.choice([n, str(n)]), str(n)
    if prop == 'content_range':
        a, b, c = RNG.randrange(100), RNG.randrange(100, 200), RNG.randrange(200, 999)
        if RNG.random() < 0.5:
            return (a, b, c), 'bytes %d-%d/%d' % (a, b, c)
        unit = RNG.choice(['bytes', 'items', 'x-unit'])
        return (a, b, c, unit), '%s %d-%d/%d' % (unit, a, b, c)
    if prop in ('content_type', 'accept_ranges'):
        v = RNG.choice(['text/plain', 'application/json; charset=utf-8', 'none', 'bytes'])
        return v, v
    if prop in ('downloadable_as', 'viewable_as'):
        kind = 'attachment' if prop == 'downloadable_as' else 'inline'
        name = rand_unicode(ascii_only=RNG.random() < 0.4).replace('%', '') or 'f'
        return name, ref_disposition(kind, name)
    if prop == 'etag':
        v = RNG.choice(['abc', '"abc"', 'W/"abc"', 'x"', '"', 'a b'])
        return v, (v if v[-1] == '"' else '"' + v + '"')
    if prop in ('expires', 'last_modified'):
        dt = rand_datetime()
        # dt_to_http() formats the wall-clock fields as they are
        return dt, ref_http_date(dt)
    raise AssertionError(prop)


def gen_cookie_kwargs():
    kw = {}
    if RNG.random() < 0.5:
        kw['expires'] = rand_datetime() if RNG.random() < 0.9 else None
    if RNG.random() < 0.5:
        kw['max_age'] = RNG.choice(
            [0, 1, 3600, -1, 2.0, 3.9, -0.5, '15', '-7', ' 8 ', None, True]
        )
    if RNG.random() < 0.4:
        kw['domain'] = RNG.choice(['example.com', '.Example.COM', '', None, 'a.b'])
    if RNG.random() < 0.4:
        kw['path'] = RNG.choice(['/', '/a/b', '', None, '/x y'])
    if RNG.random() < 0.6:
        kw['secure'] = RNG.choice([True, False, None])
    if RNG.random() < 0.5:
        kw['http_only'] = RNG.choice([True, False])
    if RNG.random() < 0.6:
        kw['same_site'] = RNG.choice(
            [None, '', rand_case('lax'), rand_case('strict'), rand_case('none')]
            * 2
            + ['Lax', 'laxx', 'no', 'strict ', ' none', 'None,', 'läx']
        )
    if RNG.random() < 0.4:
        kw['partitioned'] = RNG.choice([True, False])
    return kw


COOKIE_NAMES = ['a', 'B', 'sid', 'x-y', 'n_1', 'A', 'b', 'tok~']
BAD_COOKIE_NAMES_KEYERROR = ['näme', 'a b', 'a;b', 'a=b', 'a,b', '', 'a"b']
COOKIE_VALUES = [
    'v', '', 'abc123', 'x y', 'a,b', 'a;b', '"q"', 'back\\slash', 'tab\there',
    '!#$%&\'()*+-./:<=>?@[]^_`{|}~', 'UPPER', ' lead', 'trail ',
]  # fmt: skip


def do_set_cookie(resp, model, tag):
    if RNG.random() < 0.12:
        name = RNG.choice(BAD_COOKIE_NAMES_KEYERROR)
    else:
        name = RNG.choice(COOKIE_NAMES)
    if RNG.random() < 0.08:
        value = 'väl'
    else:
        value = RNG.choice(COOKIE_VALUES)
    kw = gen_cookie_kwargs()
    want_exc = None
    try:
        model.set_cookie(name, value, **kw)
    except (KeyError, ValueError) as ex:
        want_exc = type(ex)
    got_exc = None
    try:
        resp.set_cookie(name, value, **kw)
    except (KeyError, ValueError) as ex:
        got_exc = type(ex)
    expect_eq(got_exc, want_exc, '%s: set_cookie(%r, %r, **%r) outcome' % (tag, name, value, kw))


def do_unset_cookie(resp, model, tag):
    name = RNG.choice(COOKIE_NAMES)
    kw = {}
    if RNG.random() < 0.4:
        kw['samesite'] = RNG.choice(['Lax', 'Strict', 'None', 'lax'])
    if RNG.random() < 0.4:
        kw['domain'] = RNG.choice(['example.com', '', None])
    if RNG.random() < 0.4:
        kw['path'] = RNG.choice(['/', '/a', '', None])
    model.unset_cookie(name, **kw)
    resp.unset_cookie(name, **kw)


# -- Link ---------------------------------------------------------------------

CROSSORIGIN_OK = {
    'anonymous': '; crossorigin',
    'use-credentials': '; crossorigin="use-credentials"',
}
CROSSORIGIN_BAD = [
    '', 'anon', 'anonymous ', ' anonymous', 'use_credentials', 'use-credential',
    'credentials', 'none', 'anonymous,use-credentials', 'ANONYMOUS!', 'usé',
]  # fmt: skip


def gen_link():
    """Return (kwargs, expected value or None when ValueError is expected)."""
    target = rand_unicode().replace('%', '')
    rel_kind = RNG.randrange(5)
    if rel_kind == 0:
        rel, rel_out = 'next', 'next'
    elif rel_kind == 1:
        rel, rel_out = 'alternate stylesheet', 'alternate stylesheet'
    elif rel_kind == 2:
        rel = 'http://example.com/rél-type'
        rel_out = '"' + ref_uri(rel) + '"'
    elif rel_kind == 3:
        rel = 'alternate  https://example.com/a"b next'
        rel_out = '"' + ' '.join(ref_uri(r) for r in rel.split()) + '"'
    else:
        rel = RNG.choice(['prev', 'a/b', 'x//', '//'])
        rel_out = '"' + ref_uri(rel) + '"' if '//' in rel else rel
    kw = {'target': target, 'rel': rel}
    want = '<' + ref_uri(target) + '>; rel=' + rel_out
    if RNG.random() < 0.4:
        kw['title'] = RNG.choice(['A title', '', 'x'])
        want += '; title="%s"' % kw['title']
    if RNG.random() < 0.4:
        lang = RNG.choice(['', 'en', 'de-CH'])
        text = rand_unicode().replace('%', '')
        kw['title_star'] = (lang, text)
        want += "; title*=UTF-8'%s'%s" % (lang, ref_uri_value(text))
    if RNG.random() < 0.3:
        kw['type_hint'] = RNG.choice(['text/html', 'application/json'])
        want += '; type="%s"' % kw['type_hint']
    if RNG.random() < 0.4:
        if RNG.random() < 0.5:
            kw['hreflang'] = RNG.choice(['en', 'fr-CA'])
            want += '; hreflang=' + kw['hreflang']
        else:
            langs = [RNG.choice(['en', 'de', 'pt-BR']) for _ in range(RNG.randrange(1, 4))]
            kw['hreflang'] = RNG.choice([langs, tuple(langs)])
            want += '; ' + '; '.join('hreflang=' + x for x in langs)
    if RNG.random() < 0.4:
        anchor = rand_unicode().replace('%', '')
        kw['anchor'] = anchor
        want += '; anchor="%s"' % ref_uri(anchor)
    bad = False
    if RNG.random() < 0.7:
        if RNG.random() < 0.25:
            kw['crossorigin'] = RNG.choice(CROSSORIGIN_BAD)
            bad = True
        else:
            base = RNG.choice(sorted(CROSSORIGIN_OK))
            kw['crossorigin'] = RNG.choice([base, base.upper(), base.title(), rand_case(base)])
            want += CROSSORIGIN_OK[base]
    if RNG.random() < 0.3:
        ext = [(RNG.choice(['as', 'nopush', 'x']), RNG.choice(['script', '1', '"q"']))
               for _ in range(RNG.randrange(1, 3))]
        kw['link_extension'] = ext
        want += '; ' + '; '.join('%s=%s' % pv for pv in ext)
    return kw, (None if bad else want)


def do_append_link(resp, model, tag):
    kw, want = gen_link()
    if want is None:
        try:
            resp.append_link(**kw)
        except ValueError as ex:
            expect(
                'crossorigin' in str(ex), '%s: crossorigin error text %r' % (tag, str(ex))
            )
        else:
            fail('%s: bad crossorigin %r accepted' % (tag, kw['crossorigin']))
        return
    resp.append_link(**kw)
    expect(want.isascii() or 'title' in kw, 'reference Link value is ASCII')
    model.append('Link', want)
    # decoding the emitted target returns the original
    emitted = resp.get_header(rand_case('link'))
    last = emitted[emitted.rindex('<' + ref_uri(kw['target']) + '>') :]
    enc_target = last[1 : last.index('>')]
    expect(enc_target.isascii(), 'Link target is ASCII')
    expect_eq(furi.decode(enc_target, unquote_plus=False), kw['target'], 'Link target decodes')
    expect_eq(ref_unpct(enc_target), kw['target'], 'Link target decodes (reference)')


# ---------------------------------------------------------------------------
# Section A: model-based histories
# ---------------------------------------------------------------------------


def rand_plain_name():
    name = RNG.choice(PLAIN_NAMES)
    return RNG.choice([name, name.upper(), name.title(), rand_case(name)])


def one_history(resp_type, n_ops, idx):
    secure_default = RNG.choice([True, True, False])
    if RNG.random() < 0.5:
        options = falcon.ResponseOptions()
        options.secure_cookies_by_default = secure_default
        resp = resp_type(options=options)
    else:
        resp = resp_type()
        resp.options.secure_cookies_by_default = secure_default
    model = Model(secure_default)
    tag = '%s history #%d' % (resp_type.__module__, idx)

    for step in range(n_ops):
        op = RNG.randrange(14)
        if op == 0:
            n, v = rand_plain_name(), rand_header_value()
            if RNG.random() < 0.15:
                v = RNG.choice([7, 1.5, None, True])
            resp.set_header(n, v)
            model.set(n, v)
        elif op in (1, 2, 3):
            if RNG.random() < 0.2:
                n = RNG.choice(['Set-Cookie', 'set-cookie', 'SET-COOKIE', rand_case('set-cookie')])
                v = '%s=%s; Path=/' % (RNG.choice(COOKIE_NAMES), RNG.choice(['1', 'raw', '']))
            else:
                n, v = rand_plain_name(), rand_header_value()
                if RNG.random() < 0.1:
                    v = RNG.choice([7, 1.5, None])
            resp.append_header(n, v)
            model.append(n, v)
        elif op == 4:
            n = rand_plain_name()
            resp.delete_header(n)
            model.delete(n)
        elif op == 5:
            items = [
                (rand_plain_name(), rand_header_value()) for _ in range(RNG.randrange(0, 5))
            ]
            poisoned = RNG.random() < 0.2
            if poisoned:
                items.insert(RNG.randrange(len(items) + 1), (rand_case('set-cookie'), 'a=b'))
            as_dict = RNG.random() < 0.4
            if as_dict:
                # a dict cannot hold the same spelling twice; keep last
                arg = dict(items)
                items = list(arg.items())
            else:
                arg = RNG.choice([items, tuple(items), iter(list(items))])
            try:
                resp.set_headers(arg)
            except HeaderNotSupported:
                expect(poisoned, '%s: unexpected HeaderNotSupported' % (tag,))
            else:
                expect(not poisoned, '%s: set_headers accepted Set-Cookie' % (tag,))
            try:
                model.set_many(items)
            except HeaderNotSupported:
                pass
        elif op in (6, 7):
            prop = RNG.choice(sorted(PROPS))
            r = RNG.random()
            if r < 0.2:
                setattr(resp, prop, None)
                model.delete(PROPS[prop])
            elif r < 0.3:
                present = PROPS[prop] in model.headers
                try:
                    delattr(resp, prop)
                except KeyError:
                    expect(not present, '%s: del resp.%s raised KeyError' % (tag, prop))
                else:
                    expect(present, '%s: del resp.%s of a missing header' % (tag, prop))
                model.delete(PROPS[prop])
            else:
                value, want = gen_prop_value(prop)
                setattr(resp, prop, value)
                model.set(PROPS[prop], want)
                got = resp.get_header(rand_case(PROPS[prop]))
                if prop in ('location', 'content_location'):
                    expect(got.isascii(), '%s is ASCII' % (prop,))
                    expect_eq(furi.decode(got, unquote_plus=False), value, prop + ' decodes')
                    expect_eq(ref_unpct(got), value, prop + ' decodes (reference)')
                if prop in ('downloadable_as', 'viewable_as'):
                    expect(got.isascii(), '%s is ASCII' % (prop,))
                    if not value.isascii():
                        enc = got.split("filename*=UTF-8''", 1)[1]
                        expect_eq(
                            furi.decode(enc, unquote_plus=False), value, prop + ' decodes'
                        )
                        expect_eq(ref_unpct(enc), value, prop + ' decodes (reference)')
                        fb = got.split('; ')[1]
                        expect(
                            re.fullmatch(r'filename=[A-Za-z0-9._-]+', fb) is not None,
                            'fallback filename is a plain token: %r' % (fb,),
                        )
        elif op in (8, 9):
            do_append_link(resp, model, tag)
        elif op in (10, 11):
            do_set_cookie(resp, model, tag)
        elif op == 12:
            do_unset_cookie(resp, model, tag)
        else:
            n = rand_plain_name()
            expect_eq(resp.get_header(n), model.get(n), '%s: get_header' % (tag,))

        if RNG.random() < 0.25:
            verify(resp, model, '%s step %d' % (tag, step))

    verify(resp, model, tag + ' final')
    verify(resp, model, tag + ' final+media', media_type=RNG.choice(['text/x', falcon.MEDIA_JSON]))
    verify(resp, model, tag + ' final again')


def section_histories():
    idx = 0
    for resp_type in RESPONSE_TYPES:
        for n_ops in [0, 1, 2, 3, 5, 8] * 8 + [12, 20, 30, 45] * 12 + [80] * 6:
            idx += 1
            one_history(resp_type, n_ops, idx)


# ---------------------------------------------------------------------------
# Section B: cookies, attribute combinations on fresh responses
# ---------------------------------------------------------------------------


def section_cookies():
    aware_minus5 = datetime.timezone(datetime.timedelta(hours=-5))
    fixed = [
        # (kwargs, app default secure, expected line) -- from the unmodified tree
        ({}, True, 'c=v; HttpOnly; Secure'),
        ({}, False, 'c=v; HttpOnly'),
        ({'secure': False, 'http_only': False}, True, 'c=v'),
        ({'secure': True, 'http_only': False}, False, 'c=v; Secure'),
        (
            {'expires': datetime.datetime(2020, 2, 29, 23, 59, 59)},
            False,
            'c=v; expires=Sat, 29 Feb 2020 23:59:59 GMT; HttpOnly',
        ),
        (
            {'expires': datetime.datetime(2020, 2, 29, 23, 59, 59, tzinfo=aware_minus5)},
            False,
            'c=v; expires=Sun, 01 Mar 2020 04:59:59 GMT; HttpOnly',
        ),
        (
            {'expires': datetime.datetime(1999, 12, 31, 19, 0, 0, tzinfo=UTC)},
            False,
            'c=v; expires=Fri, 31 Dec 1999 19:00:00 GMT; HttpOnly',
        ),
        ({'max_age': 3.9}, False, 'c=v; HttpOnly; Max-Age=3'),
        ({'max_age': '15'}, False, 'c=v; HttpOnly; Max-Age=15'),
        ({'max_age': 0}, False, 'c=v; HttpOnly; Max-Age=0'),
        ({'max_age': -0.5}, False, 'c=v; HttpOnly; Max-Age=0'),
        ({'same_site': 'lAx'}, False, 'c=v; HttpOnly; SameSite=Lax'),
        ({'same_site': 'STRICT'}, False, 'c=v; HttpOnly; SameSite=Strict'),
        ({'same_site': 'none'}, True, 'c=v; HttpOnly; SameSite=None; Secure'),
        ({'same_site': ''}, False, 'c=v; HttpOnly'),
        (
            {'domain': 'example.com', 'path': '/p', 'partitioned': True},
            True,
            'c=v; Domain=example.com; HttpOnly; Partitioned; Path=/p; Secure',
        ),
    ]
    for resp_type in RESPONSE_TYPES:
        for kw, default, want in fixed:
            resp = resp_type()
            resp.options.secure_cookies_by_default = default
            resp.set_cookie('c', 'v', **kw)
            if resp_type is falcon.Response:
                got = resp._wsgi_headers()
            else:
                got = [(n.decode(), v.decode()) for n, v in resp._asgi_headers()]
            expect_eq(got, [('set-cookie', want)], 'fixed cookie %r' % (kw,))

        # invalid same_site: ValueError, raised after the earlier attributes
        # have been stored and before Partitioned (as on the unmodified tree)
        for bad in ('laxx', 'no', 'strict ', ' none', 'None,', 'läx', 'x'):
            resp = resp_type()
            try:
                resp.set_cookie(
                    'c', 'v', max_age=5, path='/p', same_site=bad, partitioned=True
                )
            except ValueError as ex:
                expect(not isinstance(ex, HeaderNotSupported), 'plain ValueError')
                expect_eq(
                    str(ex),
                    "same_site must be set to either 'lax', 'strict', or 'none'",
                    'same_site error text',
                )
            else:
                fail('same_site=%r accepted' % (bad,))
            expect_eq(
                resp._wsgi_headers(),
                [('set-cookie', 'c=v; HttpOnly; Max-Age=5; Path=/p; Secure')],
                'state after a rejected same_site',
            )
        for bad_type in (5, ['lax'], ('lax',), b'lax'):
            resp = resp_type()
            try:
                resp.set_cookie('c', 'v', same_site=bad_type)
            except (AttributeError, TypeError):
                pass
            except ValueError:
                # bytes has .lower(); b'lax' is not one of the reserved strs
                expect(isinstance(bad_type, bytes), 'ValueError only for bytes')
            else:
                fail('same_site=%r accepted' % (bad_type,))

    # generated combinations on fresh responses
    for i in range(700):
        resp_type = RESPONSE_TYPES[i % 2]
        default = RNG.choice([True, False])
        resp = resp_type()
        resp.options.secure_cookies_by_default = default
        model = Model(default)
        for _ in range(RNG.choice([1, 1, 2, 3])):
            do_set_cookie(resp, model, 'cookie case #%d' % i)
            if RNG.random() < 0.15:
                do_unset_cookie(resp, model, 'cookie case #%d' % i)
        verify(resp, model, 'cookie case #%d' % i)


# ---------------------------------------------------------------------------
# Section C: URI-bearing helpers over unicode strings
# ---------------------------------------------------------------------------


def section_uri_helpers():
    fixed = [
        # from the unmodified tree
        ('location', '/föö?q=ü b', '/f%C3%B6%C3%B6?q=%C3%BC%20b'),
        ('content_location', '/a%20b/ü', '/a%2520b/%C3%BC'),
        ('content_location', '/a%20b', '/a%20b'),
        ('location', '/100%', '/100%25'),
        ('location', '', ''),
        (
            'downloadable_as',
            'Ünï côde.txt',
            "attachment; filename=U_ni__co_de.txt; filename*=UTF-8''%C3%9Cn%C3%AF%20c%C3%B4de.txt",
        ),
        ('viewable_as', 'report.pdf', 'inline; filename="report.pdf"'),
        ('downloadable_as', '.hïdden', "attachment; filename=_hi_dden; filename*=UTF-8''.h%C3%AFdden"),
        ('downloadable_as', 'Bold Digit \U0001d7cf', "attachment; filename=Bold_Digit_1; filename*=UTF-8''Bold%20Digit%20%F0%9D%9F%8F"),
    ]
    for resp_type in RESPONSE_TYPES:
        for prop, value, want in fixed:
            resp = resp_type()
            setattr(resp, prop, value)
            expect_eq(getattr(resp, prop), want, 'fixed %s=%r' % (prop, value))
            expect_eq(resp.get_header(rand_case(PROPS[prop])), want, 'fixed get %s' % prop)

    for i in range(600):
        resp = RESPONSE_TYPES[i % 2]()
        model = Model(True)
        for prop in ('location', 'content_location', RNG.choice(['downloadable_as', 'viewable_as'])):
            value, want = gen_prop_value(prop)
            setattr(resp, prop, value)
            model.set(PROPS[prop], want)
            got = getattr(resp, prop)
            expect(got.isascii(), '%s not ASCII: %r' % (prop, got))
            if prop in ('location', 'content_location'):
                expect_eq(furi.decode(got, unquote_plus=False), value, prop + ' decode')
            elif not value.isascii():
                enc = got.split("filename*=UTF-8''", 1)[1]
                expect_eq(furi.decode(enc, unquote_plus=False), value, prop + ' decode')
        for _ in range(RNG.randrange(1, 4)):
            do_append_link(resp, model, 'uri case #%d' % i)
        verify(resp, model, 'uri case #%d' % i)

    # crossorigin: every letter-case variant of the two accepted values
    for resp_type in RESPONSE_TYPES:
        for base, suffix in CROSSORIGIN_OK.items():
            variants = {base, base.upper(), base.title(), base.swapcase()}
            variants.update(rand_case(base) for _ in range(40))
            for variant in sorted(variants):
                resp = resp_type()
                resp.append_link('/x', 'next', crossorigin=variant)
                expect_eq(resp.get_header('LINK'), '</x>; rel=next' + suffix, 'crossorigin')
                resp.append_link('/y', 'prev', crossorigin=variant, link_extension=[('a', 'b')])
                expect_eq(
                    resp.get_header('Link'),
                    '</x>; rel=next' + suffix + ', </y>; rel=prev' + suffix + '; a=b',
                    'crossorigin twice',
                )
        for bad in CROSSORIGIN_BAD:
            resp = resp_type()
            resp.set_header('LiNk', '<a>; rel=b')
            try:
                resp.append_link('/x', 'next', crossorigin=bad)
            except ValueError as ex:
                expect_eq(
                    str(ex),
                    "crossorigin must be set to either 'anonymous' or 'use-credentials'",
                    'crossorigin error text',
                )
            else:
                fail('crossorigin=%r accepted' % (bad,))
            expect_eq(resp.get_header('link'), '<a>; rel=b', 'Link untouched after error')
        for bad_type in (5, ['anonymous'], ('anonymous',), True):
            resp = resp_type()
            try:
                resp.append_link('/x', 'next', crossorigin=bad_type)
            except (AttributeError, TypeError):
                pass
            else:
                fail('crossorigin=%r accepted' % (bad_type,))
            expect_eq(resp.get_header('link'), None, 'Link untouched after error')


# ---------------------------------------------------------------------------
# Section D: HTTP dates (Expires / Last-Modified properties, cookie expires)
# ---------------------------------------------------------------------------


def section_dates():
    fixed = [
        (datetime.datetime(1994, 11, 15, 12, 45, 26), 'Tue, 15 Nov 1994 12:45:26 GMT'),
        (datetime.datetime(2000, 2, 29, 0, 0, 0), 'Tue, 29 Feb 2000 00:00:00 GMT'),
        (datetime.datetime(2038, 1, 19, 3, 14, 7, 999999), 'Tue, 19 Jan 2038 03:14:07 GMT'),
        (datetime.datetime(9999, 12, 31, 23, 59, 59), 'Fri, 31 Dec 9999 23:59:59 GMT'),
        (datetime.datetime(1000, 1, 1, 0, 0, 0), 'Wed, 01 Jan 1000 00:00:00 GMT'),
    ]
    for dt, want in fixed:
        expect_eq(falcon.dt_to_http(dt), want, 'dt_to_http fixed')
        expect_eq(
            falcon.http_date_to_dt(want),
            dt.replace(microsecond=0, tzinfo=UTC),
            'http_date_to_dt fixed',
        )
        expect_eq(
            falcon.http_date_to_dt(want, obs_date=True),
            dt.replace(microsecond=0, tzinfo=UTC),
            'http_date_to_dt fixed (obs_date)',
        )
    expect_eq(
        falcon.http_date_to_dt('Sunday, 06-Nov-94 08:49:37 GMT', obs_date=True),
        datetime.datetime(1994, 11, 6, 8, 49, 37, tzinfo=UTC),
        'obs-date',
    )
    expect_eq(
        falcon.http_date_to_dt('Sun Nov  6 08:49:37 1994', obs_date=True),
        datetime.datetime(1994, 11, 6, 8, 49, 37, tzinfo=UTC),
        'asctime date',
    )
    for bad in (
        'Sunday, 06-Nov-94 08:49:37 GMT', 'Tue, 15 Nov 1994 12:45:26', '',
        'Tue, 15 Nov 1994 12:45:26 UTC', 'Tue, 15 Nov 1994 12:45:26 EST',
        'Tue, 15 Nov 1994 12:45:26 GMT+1', '15 Nov 1994 12:45:26 GMT',
    ):  # fmt: skip
        try:
            got = falcon.http_date_to_dt(bad)
        except ValueError:
            expect(True, 'rejected')
        else:
            fail('http_date_to_dt(%r) accepted: %r' % (bad, got))
    # strptime() matches case-insensitively (as on the unmodified tree)
    expect_eq(
        falcon.http_date_to_dt('tue, 15 nov 1994 12:45:26 gmt'),
        datetime.datetime(1994, 11, 15, 12, 45, 26, tzinfo=UTC),
        'lower-case date',
    )

    for i in range(500):
        resp = RESPONSE_TYPES[i % 2]()
        dt = rand_datetime()
        want_hdr = ref_http_date(dt)
        expect_eq(falcon.dt_to_http(dt), want_hdr, 'dt_to_http')
        expect_eq(
            falcon.http_date_to_dt(want_hdr),
            dt.replace(microsecond=0, tzinfo=UTC),
            'http_date_to_dt(dt_to_http(x))',
        )
        resp.expires = dt
        resp.last_modified = dt
        expect_eq(resp.get_header('EXPIRES'), want_hdr, 'resp.expires')
        expect_eq(resp.get_header('last-Modified'), want_hdr, 'resp.last_modified')
        resp.set_cookie('d', 'v', expires=dt)
        want_cookie = 'd=v; expires=%s; HttpOnly; Secure' % ref_cookie_expires(dt)
        if isinstance(resp, falcon.asgi.Response):
            got = [(n.decode(), v.decode()) for n, v in resp._asgi_headers()]
        else:
            got = resp._wsgi_headers()
        expect_eq(
            got,
            [('expires', want_hdr), ('last-modified', want_hdr), ('set-cookie', want_cookie)],
            'date headers for %r' % (dt,),
        )
        # the emitted cookie date denotes the same instant
        when = ref_parse_http_date(ref_cookie_expires(dt)).replace(tzinfo=UTC)
        base = dt if dt.tzinfo else dt.replace(tzinfo=UTC)
        expect_eq(when, base.astimezone(UTC).replace(microsecond=0), 'same instant')

    now_hdr = falcon.http_now()
    delta = datetime.datetime.now(UTC).replace(tzinfo=None) - ref_parse_http_date(now_hdr)
    expect(abs(delta.total_seconds()) < 120, 'http_now is now')


def main():
    section_histories()
    section_cookies()
    section_uri_helpers()
    section_dates()
    if CASES < 5000:
        fail('too few checks executed: %d' % CASES)
    print('PASS (%d checks, focus: %s)' % (CASES, FOCUS))


if __name__ == '__main__':
    main()
