"""Property C17 check: WebSocket sessions follow the ASGI state machine.

Self-contained. Run as:  PYTHONPATH=<falcon tree> /venv/bin/python check.py

What it does
------------
* Drives falcon.asgi.App directly with an independent, strict model of an ASGI
  server (NOT falcon.testing's simulator).  The server records every event the
  framework tries to send and checks that the stream is a legal ASGI WebSocket
  session.
* Generates a few thousand (responder script, client script, spec version,
  queue size, middleware, error handler, send-failure point) scenarios from a
  seeded RNG.
* For every scenario whose outcome does not depend on the scheduling of the
  buffered receiver's pump task (queue size 0, or no client disconnect) the
  result is compared with an independent reference model of the documented
  state machine written below (per-operation outcome, exact outgoing events,
  exception leaving the app).
* For the remaining scenarios (queue > 0 with a client disconnect) tolerant
  invariants are checked (legality, ordering/integrity of payloads, sticky
  disconnect).
* The complete trace of all scenarios is hashed and compared against a digest
  taken from the UNMODIFIED tree.
* A change-specific section (at the bottom) hits the edited code directly.
"""

import asyncio
import hashlib
import json
import logging
import random
import sys

import falcon
import falcon.asgi
import falcon.media
from falcon import errors
from falcon import WebSocketPayloadType
from falcon.asgi import ws as wsmod

FAILURES = []


def fail(msg):
    FAILURES.append(msg)
    if len(FAILURES) <= 25:
        print('FAIL:', msg)


# --------------------------------------------------------------------------
# Capture falcon's log records (and force message formatting) so that a
# logging call with broken arguments would be noticed.
# --------------------------------------------------------------------------
class _Capture(logging.Handler):
    def __init__(self):
        super().__init__(level=logging.DEBUG)
        self.records = []

    def emit(self, record):
        record.getMessage()  # raises if the format args are wrong
        self.records.append(record)


LOGCAP = _Capture()
_flogger = logging.getLogger('falcon')
_flogger.addHandler(LOGCAP)
_flogger.setLevel(logging.DEBUG)
_flogger.propagate = False
logging.raiseExceptions = True

VERSIONS = ['2.0', '2.1', '2.2', '2.3', '2.4']


def supports_reason(ver):
    return ver in ('2.3', '2.4')


# --------------------------------------------------------------------------
# Media handlers
# --------------------------------------------------------------------------
class BinHandler(falcon.media.BinaryBaseHandlerWS):
    def serialize(self, media):
        return b'B' + json.dumps(media, sort_keys=True).encode()

    def deserialize(self, payload):
        if not payload.startswith(b'B'):
            raise ValueError('bad binary media')
        return json.loads(bytes(payload[1:]).decode())


def model_text_serialize(obj):
    return json.dumps(obj, ensure_ascii=False)


def model_bin_serialize(obj):
    return b'B' + json.dumps(obj, sort_keys=True).encode()


# --------------------------------------------------------------------------
# Exceptions used by scripts
# --------------------------------------------------------------------------
class HarnessBug(BaseException):
    pass


class CustomError(Exception):
    pass


class Boom(Exception):
    pass


class ClientDisconnected(OSError):
    pass


class ConnectionClosed(RuntimeError):
    pass


PERSISTENT_FAILS = ('oserror', 'oserror_cause', 'oserror_badcause', 'ok1000')
ONESHOT_FAILS = ('proto', 'runtime')


def make_server_exc(kind, arg):
    """Return (exception, cause) the model server raises from send()."""
    if kind == 'oserror':
        return ClientDisconnected(), None
    if kind == 'oserror_cause':
        return (
            ClientDisconnected(),
            ConnectionClosed(
                'received %d (going away); then sent %d (going away)' % (arg, arg)
            ),
        )
    if kind == 'oserror_badcause':
        return ClientDisconnected(), ConnectionClosed('sent 1001; received 1001')
    if kind == 'ok1000':
        return Exception('Disconnected with code = 1000 (OK)'), None
    if kind == 'proto':
        return Exception('protocol accepted must be from the list'), None
    if kind == 'runtime':
        return RuntimeError('server hiccup'), None
    raise HarnessBug(kind)


def norm_exc(ex):
    if isinstance(ex, errors.WebSocketDisconnected):
        return ('exc', type(ex).__name__, ex.code)
    return ('exc', type(ex).__name__, None)


def norm_event(event):
    out = []
    for k in sorted(event):
        v = event[k]
        if k == 'headers':
            v = [tuple(h) for h in v]
        out.append((k, type(v).__name__, v))
    return tuple(out)


# --------------------------------------------------------------------------
# Independent ASGI server model
# --------------------------------------------------------------------------
class Server:
    def __init__(self, sc):
        self.sc = sc
        self.client = sc['client']
        self.first = sc.get('first', {'type': 'websocket.connect'})
        self.first_sent = False
        self.ci = 0
        self.attempts = []  # (normalised event, 'ok' | 'raised')
        self.nsend = 0
        self.lost = False
        self.faulted = False  # send() raised at least once
        self.disconnect_delivered = False
        self.recv_after_disconnect = 0
        self.attempt_after_disconnect = 0
        self.delivered = []  # payload events handed to the app, in order

    async def receive(self):
        if not self.first_sent:
            self.first_sent = True
            return dict(self.first)
        if self.disconnect_delivered:
            self.recv_after_disconnect += 1
            return {'type': 'websocket.disconnect', 'code': 1006}
        if self.ci < len(self.client):
            item = self.client[self.ci]
            self.ci += 1
            if item[0] == 'disconnect':
                self.disconnect_delivered = True
                ev = {'type': 'websocket.disconnect'}
                if item[1] is not None:
                    ev['code'] = item[1]
                return ev
            ev = {'type': 'websocket.receive'}
            ev.update(item[1])
            self.delivered.append(item[1])
            return ev
        # Nothing more from the client, which stays connected: block forever.
        await asyncio.get_running_loop().create_future()
        raise HarnessBug('unreachable')

    async def send(self, event):
        idx = self.nsend
        self.nsend += 1
        rec = norm_event(event)
        if self.disconnect_delivered:
            self.attempt_after_disconnect += 1
        kind = self.sc['fail_kind']
        if kind is not None and (
            idx == self.sc['fail_at'] or (self.lost and kind in PERSISTENT_FAILS)
        ):
            if kind in PERSISTENT_FAILS:
                self.lost = True
            self.faulted = True
            self.attempts.append((rec, 'raised'))
            exc, cause = make_server_exc(kind, self.sc['fail_arg'])
            if cause is not None:
                raise exc from cause
            raise exc
        self.attempts.append((rec, 'ok'))


def check_legal(tag, server, app_exc, sc):
    """The stream of events must be a legal ASGI WebSocket session."""
    state = 'connecting'
    for rec, outcome in server.attempts:
        ev = {k: v for k, _t, v in rec}
        typ = ev['type']
        if state == 'closed':
            fail('%s: event %r attempted after close' % (tag, typ))
            return
        if typ == 'websocket.accept':
            if state != 'connecting':
                fail('%s: second accept' % tag)
                return
            if 'headers' in ev:
                if sc['ver'] == '2.0':
                    fail('%s: accept headers on spec 2.0' % tag)
                for n, v in ev['headers']:
                    if not (isinstance(n, bytes) and isinstance(v, bytes)):
                        fail('%s: accept header not bytes' % tag)
                    if n != n.lower() or n == b'sec-websocket-protocol':
                        fail('%s: bad accept header name %r' % (tag, n))
            if 'subprotocol' in ev and not isinstance(ev['subprotocol'], str):
                fail('%s: subprotocol not str' % tag)
            if outcome == 'ok':
                state = 'open'
        elif typ == 'websocket.send':
            if state != 'open':
                fail('%s: data while %s' % (tag, state))
                return
            has_text = ev.get('text') is not None
            has_bytes = ev.get('bytes') is not None
            if has_text == has_bytes:
                fail('%s: send event needs exactly one payload' % tag)
            if has_text and type(ev['text']) is not str:
                fail('%s: text payload not str' % tag)
            if has_bytes and type(ev['bytes']) is not bytes:
                fail('%s: bytes payload not bytes' % tag)
        elif typ == 'websocket.close':
            code = ev.get('code')
            if not isinstance(code, int) or code < 1000:
                fail('%s: bad close code %r' % (tag, code))
            elif 1004 <= code <= 1006 or 1015 <= code <= 1999:
                fail('%s: reserved close code %r' % (tag, code))
            if 'reason' in ev:
                if not supports_reason(sc['ver']):
                    fail('%s: reason on spec %s' % (tag, sc['ver']))
                if not (isinstance(ev['reason'], str) and ev['reason']):
                    fail('%s: bad reason %r' % (tag, ev['reason']))
            if outcome == 'ok':
                state = 'closed'
        else:
            fail('%s: unknown event type %r' % (tag, typ))
            return

    if server.attempt_after_disconnect:
        fail('%s: event sent after the disconnect was delivered' % tag)
    if server.recv_after_disconnect:
        fail('%s: receive() called after the disconnect was delivered' % tag)

    # A close (or 403 denial) is always sent while the client is still there.
    if (
        not server.disconnect_delivered
        and not server.faulted
        and sc.get('closes', True)
        and state != 'closed'
    ):
        fail('%s: session left in state %s without close' % (tag, state))
    return state


# --------------------------------------------------------------------------
# The responder script interpreter (runs against the real falcon WebSocket)
# --------------------------------------------------------------------------
def build_raise(kind, arg):
    if kind == 'http_error':
        return falcon.HTTPError(arg)
    if kind == 'http_named':
        return {
            400: falcon.HTTPBadRequest,
            403: falcon.HTTPForbidden,
            404: falcon.HTTPNotFound,
            503: falcon.HTTPServiceUnavailable,
        }[arg]()
    if kind == 'http_status':
        return falcon.HTTPStatus(arg)
    if kind == 'boom':
        return Boom('boom')
    if kind == 'custom':
        return CustomError('custom')
    if kind == 'wsd':
        return errors.WebSocketDisconnected(arg)
    if kind == 'valueerror_icc':
        # NOTE: message contains the marker string the cleanup code looks for
        return ValueError('Invalid close code from app')
    raise HarnessBug(kind)


RAISE_STATUS = {
    'http_error': lambda a: a,
    'http_named': lambda a: a,
    'http_status': lambda a: a,
}


async def run_ops(ws, ops, propagate, log):
    for op in ops:
        kind = op[0]
        if kind == 'raise':
            log.append(('raise', op[1], op[2]))
            raise build_raise(op[1], op[2])
        try:
            res = None
            if kind == 'accept':
                kw = {}
                if op[1] != 'UNSET':
                    kw['subprotocol'] = op[1]
                if op[2] != 'UNSET':
                    kw['headers'] = op[2]
                await ws.accept(**kw)
            elif kind == 'close':
                args = [a for a in op[1:] if a != 'UNSET']
                await ws.close(*args)
            elif kind == 'send_text':
                await ws.send_text(op[1])
            elif kind == 'send_data':
                await ws.send_data(op[1])
            elif kind == 'send_media':
                if op[2] == 'UNSET':
                    await ws.send_media(op[1])
                else:
                    await ws.send_media(op[1], op[2])
            elif kind == 'recv_text':
                res = await ws.receive_text()
            elif kind == 'recv_data':
                res = await ws.receive_data()
                res = (type(res).__name__, bytes(res))
            elif kind == 'recv_media':
                res = await ws.receive_media()
            elif kind == 'yield':
                await asyncio.sleep(0)
            elif kind == 'props':
                res = (ws.unaccepted, ws.closed, ws.ready)
            else:
                raise HarnessBug(kind)
            log.append(('ok', res))
        except HarnessBug:
            raise
        except Exception as ex:
            log.append(norm_exc(ex))
            if propagate:
                raise


class Middleware:
    def __init__(self, sc, log):
        self.sc = sc
        self.log = log

    async def process_request_ws(self, req, ws):
        self.log.append(('mw_request', None))
        if self.sc['mw'] == 'accept':
            await run_ops(ws, [('accept', 'UNSET', 'UNSET')], True, self.log)

    async def process_resource_ws(self, req, ws, resource, params):
        self.log.append(('mw_resource', sorted(params)))


def build_app(sc, log):
    mw = [Middleware(sc, log)] if sc['mw'] else []
    app = falcon.asgi.App(middleware=mw)
    app.ws_options.max_receive_queue = sc['queue']
    app.ws_options.media_handlers[WebSocketPayloadType.BINARY] = BinHandler()
    if sc['error_close_code'] is not None:
        app.ws_options.error_close_code = sc['error_close_code']
    if sc['reasons'] == 'empty':
        app.ws_options.default_close_reasons = {}
    elif sc['reasons'] == 'custom':
        app.ws_options.default_close_reasons[4099] = 'wow such reason'
        app.ws_options.default_close_reasons[3702] = 'Emacs'
        app.ws_options.default_close_reasons[1000] = ''

    class Scripted:
        async def on_websocket(self, req, ws, **params):
            log.append(('params', sorted(params.items())))
            await run_ops(ws, sc['ops'], sc['propagate'], log)

    class NoWs:
        async def on_get(self, req, resp):
            pass

    app.add_route('/ws', Scripted())
    app.add_route('/ws/{name}', Scripted())
    app.add_route('/nows', NoWs())

    hmode = sc['handler']
    if hmode == 'close4001':

        async def handler(req, resp, ex, params, ws=None):
            log.append(('handler', resp is None, ws is not None))
            await ws.close(4001)

        app.add_error_handler(CustomError, handler)
    elif hmode == 'raise_http':

        async def handler(req, resp, ex, params, ws=None):
            log.append(('handler', resp is None, ws is not None))
            raise falcon.HTTPForbidden()

        app.add_error_handler(CustomError, handler)
    elif hmode == 'raise_status_nows':

        async def handler(req, resp, ex, params):
            log.append(('handler', resp is None))
            raise falcon.HTTPStatus(204)

        app.add_error_handler(CustomError, handler)
    elif hmode == 'close_reason':

        async def handler(req, resp, ex, params, ws=None):
            log.append(('handler', resp is None, ws is not None))
            await ws.close(4099, 'handled')

        app.add_error_handler(CustomError, handler)
    return app


async def _run_scenario(sc):
    log = []
    app = build_app(sc, log)
    server = Server(sc)
    scope = {
        'type': 'websocket',
        'asgi': {'version': '3.0', 'spec_version': sc['ver']},
        'http_version': '1.1',
        'scheme': 'ws',
        'path': sc['path'],
        'raw_path': sc['path'].encode(),
        'query_string': b'',
        'root_path': '',
        'headers': [(b'host', b'falconframework.org')],
        'client': ('127.0.0.1', 4321),
        'server': ('127.0.0.1', 8000),
        'subprotocols': ['a', 'b'],
    }
    if sc.get('no_spec_version'):
        del scope['asgi']['spec_version']
    app_exc = None
    try:
        await asyncio.wait_for(app(scope, server.receive, server.send), 20)
    except asyncio.TimeoutError:
        fail('scenario hung: %r' % (sc,))
        app_exc = ('exc', 'HUNG', None)
    except HarnessBug:
        raise
    except Exception as ex:
        app_exc = norm_exc(ex)
    reasons = dict(app.ws_options.default_close_reasons)
    return log, server, app_exc, reasons


def run_scenario(sc):
    return asyncio.run(_run_scenario(sc))


# --------------------------------------------------------------------------
# Reference model of the documented state machine
# --------------------------------------------------------------------------
class ModelRaise(Exception):
    """An exception inside the model; .n is the normalised form."""

    def __init__(self, name, code=None, text=''):
        self.name = name
        self.code = code
        self.text = text

    @property
    def n(self):
        return ('exc', self.name, self.code)


def WSD(code):
    return ModelRaise('WebSocketDisconnected', code or 1000)


class Model:
    def __init__(self, sc, reasons):
        self.sc = sc
        self.ver = sc['ver']
        self.reasons = reasons
        self.state = 'H'
        self.close_code = None
        self.attempts = []
        self.nsend = 0
        self.lost = False
        self.ci = 0
        self.log = []
        # With queue > 0, close() stops the receive pump *before* validating
        # the code; a later receive on a still-accepted socket then trips the
        # buffered receiver's internal assertion (behaviour of the pinned tree).
        self.pump_stopped = False
        self.error_close_code = (
            1011 if sc['error_close_code'] is None else sc['error_close_code']
        )

    # -- server side ------------------------------------------------------
    def server_send(self, event):
        idx = self.nsend
        self.nsend += 1
        kind = self.sc['fail_kind']
        rec = norm_event(event)
        if kind is not None and (
            idx == self.sc['fail_at'] or (self.lost and kind in PERSISTENT_FAILS)
        ):
            if kind in PERSISTENT_FAILS:
                self.lost = True
            self.attempts.append((rec, 'raised'))
            return kind
        self.attempts.append((rec, 'ok'))
        return None

    # -- WebSocket internals ---------------------------------------------
    def _send(self, event):
        if self.state == 'C':
            raise WSD(self.close_code)
        kind = self.server_send(event)
        if kind is None:
            return
        if kind in ('oserror', 'oserror_badcause', 'ok1000'):
            self.state = 'C'
            self.close_code = 1000
            raise WSD(1000)
        if kind == 'oserror_cause':
            self.state = 'C'
            self.close_code = self.sc['fail_arg']
            raise WSD(self.sc['fail_arg'])
        if kind == 'proto':
            self.state = 'C'
            raise ModelRaise('ValueError')
        if kind == 'runtime':
            raise ModelRaise('RuntimeError')
        raise HarnessBug(kind)

    def raw_send(self, event):
        kind = self.server_send(event)
        if kind is None:
            return
        if kind in ('oserror', 'oserror_cause', 'oserror_badcause'):
            raise ModelRaise('ClientDisconnected')
        if kind in ('ok1000', 'proto'):
            raise ModelRaise('Exception', text=kind)
        raise ModelRaise('RuntimeError')

    def require_accepted(self):
        if self.state == 'H':
            raise ModelRaise('OperationNotAllowed')
        if self.state == 'C':
            raise WSD(self.close_code)

    def recv(self):
        if self.sc['queue'] > 0 and self.pump_stopped:
            raise ModelRaise('AssertionError')
        item = self.sc['client'][self.ci]  # generator guarantees availability
        self.ci += 1
        if item[0] == 'disconnect':
            self.state = 'C'
            self.close_code = 1000 if item[1] is None else item[1]
            raise WSD(self.close_code)
        return item[1]

    # -- public operations -----------------------------------------------
    def accept(self, subprotocol, headers):
        if self.state == 'C':
            raise ModelRaise('OperationNotAllowed')
        if self.state != 'H':
            raise ModelRaise('OperationNotAllowed')
        event = {'type': 'websocket.accept'}
        if subprotocol not in ('UNSET', None):
            if not isinstance(subprotocol, str):
                raise ModelRaise('ValueError')
            event['subprotocol'] = subprotocol
        if headers != 'UNSET' and headers:
            if self.ver == '2.0':
                raise ModelRaise('OperationNotAllowed')
            items = headers.items() if isinstance(headers, dict) else headers
            parsed = []
            for name, value in items:
                try:
                    parsed.append((name.lower().encode('ascii'), value.encode('ascii')))
                except UnicodeEncodeError:
                    raise ModelRaise('UnicodeEncodeError')
            for name, _ in parsed:
                if name == b'sec-websocket-protocol':
                    raise ModelRaise('ValueError')
            event['headers'] = parsed
        self._send(event)
        self.state = 'A'

    def close(self, code='UNSET', reason='UNSET'):
        if code == 'UNSET':
            code = None
        if reason == 'UNSET':
            reason = None
        if self.state == 'A':
            self.pump_stopped = True
        if code is None:
            code = 1000
        elif not isinstance(code, int):
            raise ModelRaise('ValueError', text='code must be an int')
        elif code < 1000:
            raise ModelRaise('ValueError', text='invalid close code')
        elif code in (1004, 1005, 1006) or code in range(1015, 2000):
            raise ModelRaise('ValueError', text='invalid close code')
        if self.state == 'C':
            return
        event = {'type': 'websocket.close', 'code': code}
        reason = reason or self.reasons.get(code)
        if reason and supports_reason(self.ver):
            event['reason'] = reason
        self.raw_send(event)
        self.state = 'C'
        self.close_code = code

    def op(self, op):
        kind = op[0]
        if kind == 'accept':
            self.accept(op[1], op[2])
        elif kind == 'close':
            self.close(*op[1:])
        elif kind == 'send_text':
            self.require_accepted()
            if not isinstance(op[1], str):
                raise ModelRaise('TypeError')
            self._send({'type': 'websocket.send', 'text': op[1]})
        elif kind == 'send_data':
            self.require_accepted()
            if not isinstance(op[1], (bytes, bytearray, memoryview)):
                raise ModelRaise('TypeError')
            self._send({'type': 'websocket.send', 'bytes': bytes(op[1])})
        elif kind == 'send_media':
            self.require_accepted()
            if op[2] == 'UNSET' or op[2] is WebSocketPayloadType.TEXT:
                try:
                    payload = model_text_serialize(op[1])
                except TypeError:
                    raise ModelRaise('TypeError')
                self._send({'type': 'websocket.send', 'text': payload})
            else:
                try:
                    payload = model_bin_serialize(op[1])
                except TypeError:
                    raise ModelRaise('TypeError')
                self._send({'type': 'websocket.send', 'bytes': payload})
        elif kind == 'recv_text':
            self.require_accepted()
            ev = self.recv()
            if ev.get('text') is None:
                raise ModelRaise('PayloadTypeError')
            return ev['text']
        elif kind == 'recv_data':
            self.require_accepted()
            ev = self.recv()
            if ev.get('bytes') is None:
                raise ModelRaise('PayloadTypeError')
            return (type(ev['bytes']).__name__, bytes(ev['bytes']))
        elif kind == 'recv_media':
            self.require_accepted()
            ev = self.recv()
            if ev.get('text') is not None:
                try:
                    return json.loads(ev['text'])
                except ValueError:
                    raise ModelRaise('JSONDecodeError')
            if ev.get('bytes') is None:
                raise ModelRaise('PayloadTypeError')
            data = ev['bytes']
            if not data.startswith(b'B'):
                raise ModelRaise('ValueError')
            try:
                return json.loads(bytes(data[1:]).decode())
            except UnicodeDecodeError:
                raise ModelRaise('UnicodeDecodeError')
            except ValueError:
                raise ModelRaise('JSONDecodeError')
        elif kind == 'yield':
            return None
        elif kind == 'props':
            return (self.state == 'H', self.state == 'C', self.state == 'A')
        else:
            raise HarnessBug(kind)
        return None

    def run_ops(self, ops, propagate):
        for op in ops:
            if op[0] == 'raise':
                self.log.append(('raise', op[1], op[2]))
                k, a = op[1], op[2]
                if k in ('http_error', 'http_named'):
                    raise ModelRaise('HTTPError', code=a)
                if k == 'http_status':
                    raise ModelRaise('HTTPStatus', code=a)
                if k == 'boom':
                    raise ModelRaise('Boom')
                if k == 'custom':
                    raise ModelRaise('CustomError')
                if k == 'wsd':
                    raise WSD(a)
                if k == 'valueerror_icc':
                    raise ModelRaise('ValueError', text='invalid close code')
                raise HarnessBug(k)
            try:
                res = self.op(op)
                self.log.append(('ok', res))
            except ModelRaise as ex:
                self.log.append(ex.n)
                if propagate:
                    raise

    # -- app level --------------------------------------------------------
    def cleanup(self):
        try:
            self.close(self.error_close_code)
        except ModelRaise as ex:
            if 'invalid close code' in ex.text:
                self.close(3011)
            else:
                raise

    def handle_exception(self, ex):
        name = ex.name
        if name == 'HTTPError':
            self.close(3000 + ex.code)
        elif name == 'HTTPStatus':
            self.close(3000 + ex.code)
        elif name == 'WebSocketDisconnected':
            self.cleanup()
        elif name == 'CustomError' and self.sc['handler']:
            h = self.sc['handler']
            if h == 'close4001':
                self.log.append(('handler', True, True))
                self.close(4001)
            elif h == 'raise_http':
                self.log.append(('handler', True, True))
                self.close(3403)
            elif h == 'raise_status_nows':
                self.log.append(('handler', True))
                self.close(3204)
            elif h == 'close_reason':
                self.log.append(('handler', True, True))
                self.close(4099, 'handled')
        else:
            self.cleanup()

    def run(self):
        sc = self.sc
        app_exc = None
        try:
            try:
                if sc['mw']:
                    self.log.append(('mw_request', None))
                    if sc['mw'] == 'accept':
                        self.run_ops([('accept', 'UNSET', 'UNSET')], True)
                path = sc['path']
                if path == '/missing':
                    raise ModelRaise('HTTPError', code=404)
                params = []
                if path.startswith('/ws/'):
                    params = [('name', path[4:])]
                if sc['mw']:
                    self.log.append(('mw_resource', [k for k, _ in params]))
                if path == '/nows':
                    raise ModelRaise('HTTPError', code=405)
                self.log.append(('params', params))
                self.run_ops(sc['ops'], sc['propagate'])
                self.close()
            except ModelRaise as ex:
                self.handle_exception(ex)
        except ModelRaise as ex:
            app_exc = ex.n
        return self.log, self.attempts, app_exc


# --------------------------------------------------------------------------
# Scenario generation
# --------------------------------------------------------------------------
TEXTS = ['', 'hello', 'h\u00e9llo \u2603', '{"a": 1}', '[1, 2, 3]', 'null', '0', ' ']
BINS = [b'', b'\x00\x01\xff', b'B{"a": 1}', b'B[1, "x"]', b'Bnull', b'hello', b'B\xff']
MEDIA = [
    None,
    0,
    -1,
    1.5,
    True,
    '',
    'caf\u00e9',
    [],
    {},
    [1, 2, {'a': None}],
    {'k': 'v', 'n': [1, 2]},
    {'\u2603': '\u00e9'},
]
BAD_MEDIA = [object, {1, 2}]
CLOSE_CODES = [
    'UNSET',
    None,
    1000,
    1001,
    1003,
    1004,
    1005,
    1006,
    1007,
    1011,
    1014,
    1015,
    1016,
    1999,
    2000,
    2999,
    3000,
    3404,
    3702,
    4000,
    4099,
    4999,
    5000,
    65536,
    999,
    0,
    -1,
    -1000,
    True,
    False,
    '1000',
    1000.0,
    b'1000',
    [1000],
]
REASONS = ['UNSET', None, '', 'bye', 'raison \u00e9t\u00e9']
SUBPROTOCOLS = ['UNSET', None, 'a', 'b', 'zzz', '', 42, b'a', ['a']]
HEADERS = [
    'UNSET',
    None,
    [],
    {},
    (),
    [('X-A', 'b')],
    {'x-a': 'b', 'X-Two': '2'},
    (('Cookie', 'x=1'), ('cookie', 'y=2')),
    [('Sec-WebSocket-Protocol', 'a')],
    {'SEC-WEBSOCKET-PROTOCOL': 'a', 'x': 'y'},
    [('x', 'caf\u00e9')],
    [['x-list', 'pair']],
]
DISCONNECT_CODES = [None, 1000, 1001, 1006, 1011, 3000, 4321, 0]
RAISES = (
    [('http_error', s) for s in (400, 404, 405, 418, 422, 500, 503, 599, 702)]
    + [('http_named', s) for s in (400, 403, 404, 503)]
    + [('http_status', s) for s in (200, 204, 302, 404)]
    + [('boom', None), ('custom', None), ('valueerror_icc', None)]
    + [('wsd', c) for c in (None, 1000, 1001, 4000)]
)


def gen_client_item(rng):
    r = rng.random()
    if r < 0.45:
        t = rng.choice(TEXTS)
        shape = rng.randrange(3)
        if shape == 0:
            return ('msg', {'text': t})
        if shape == 1:
            return ('msg', {'text': t, 'bytes': None})
        return ('msg', {'bytes': None, 'text': t})
    if r < 0.9:
        b = rng.choice(BINS)
        shape = rng.randrange(3)
        if shape == 0:
            return ('msg', {'bytes': b})
        if shape == 1:
            return ('msg', {'bytes': b, 'text': None})
        return ('msg', {'text': None, 'bytes': b})
    if r < 0.95:
        return ('msg', {'text': None, 'bytes': None})
    return ('msg', {})


def gen_op(rng, accepted_bias):
    r = rng.random()
    if r < 0.12:
        return (
            'accept',
            rng.choice(SUBPROTOCOLS) if rng.random() < 0.5 else 'UNSET',
            rng.choice(HEADERS) if rng.random() < 0.5 else 'UNSET',
        )
    if r < 0.22:
        code = rng.choice(CLOSE_CODES)
        if code == 'UNSET':
            return ('close',)
        reason = rng.choice(REASONS)
        return ('close', code, reason)
    if r < 0.34:
        return ('send_text', rng.choice(TEXTS + [b'bytes', None, 5]))
    if r < 0.46:
        p = rng.choice(BINS + ['str', None, 7])
        if isinstance(p, bytes):
            w = rng.randrange(3)
            if w == 1:
                p = bytearray(p)
            elif w == 2:
                p = memoryview(p)
        return ('send_data', p)
    if r < 0.58:
        m = rng.choice(MEDIA + BAD_MEDIA) if rng.random() < 0.9 else rng.choice(MEDIA)
        pt = rng.choice(
            ['UNSET', WebSocketPayloadType.TEXT, WebSocketPayloadType.BINARY]
        )
        return ('send_media', m, pt)
    if r < 0.68:
        return ('recv_text',)
    if r < 0.76:
        return ('recv_data',)
    if r < 0.86:
        return ('recv_media',)
    if r < 0.93:
        return ('props',)
    return ('yield',)


def gen_scenario(rng, i):
    ver = rng.choice(VERSIONS)
    queue = rng.choice([0, 0, 1, 2, 4])
    nmsg = rng.randrange(0, 6)
    client = [gen_client_item(rng) for _ in range(nmsg)]
    has_disc = rng.random() < 0.5
    if has_disc:
        client.insert(
            rng.randrange(0, len(client) + 1), ('disconnect', rng.choice(DISCONNECT_CODES))
        )
        # messages after the disconnect are never delivered by a real server
        cut = [k for k, it in enumerate(client) if it[0] == 'disconnect'][0]
        client = client[: cut + 1]
    nops = rng.randrange(0, 10)
    ops = []
    if rng.random() < 0.75:
        ops.append(('accept', 'UNSET', 'UNSET'))
    for _ in range(nops):
        ops.append(gen_op(rng, True))
    # never let a receive block forever: bound the receive ops by the
    # number of client items that will be delivered
    budget = len(client)
    bounded = []
    for op in ops:
        if op[0].startswith('recv_'):
            if budget == 0:
                continue
            budget -= 1
        bounded.append(op)
    ops = bounded
    if rng.random() < 0.4:
        k, a = rng.choice(RAISES)
        ops.append(('raise', k, a))
    fail_kind = None
    fail_at = None
    fail_arg = None
    if rng.random() < 0.35:
        fail_kind = rng.choice(PERSISTENT_FAILS + ONESHOT_FAILS)
        fail_at = rng.randrange(0, 5)
        fail_arg = rng.choice([1001, 1006, 4000])
    path = rng.choice(['/ws'] * 8 + ['/ws/abc', '/nows', '/missing'])
    return {
        'id': i,
        'ver': ver,
        'queue': queue,
        'client': client,
        'ops': ops,
        'propagate': rng.random() < 0.4,
        'fail_kind': fail_kind,
        'fail_at': fail_at,
        'fail_arg': fail_arg,
        'path': path,
        'mw': rng.choice([None, None, 'noop', 'accept']),
        'handler': rng.choice(
            [None, 'close4001', 'raise_http', 'raise_status_nows', 'close_reason']
        ),
        'error_close_code': rng.choice([None, None, None, 3011, 4000, 999, 1005, 1000]),
        'reasons': rng.choice(['default', 'default', 'empty', 'custom']),
    }


def model_applies(sc):
    if sc['queue'] == 0:
        return True
    return not any(it[0] == 'disconnect' for it in sc['client'])


def tolerant_checks(tag, sc, log, server):
    """Checks for queue > 0 with a client disconnect (pump timing matters)."""
    disc = [it for it in sc['client'] if it[0] == 'disconnect']
    consumed = 0
    seen_wsd = False
    ops = list(sc['ops'])
    entries = [e for e in log if e[0] in ('ok', 'exc', 'raise')]
    # skip the entry produced by the middleware's accept
    if sc['mw'] == 'accept' and entries:
        entries = entries[1:]
    for op, entry in zip(ops, entries):
        kind = op[0]
        if entry[0] == 'exc' and entry[1] == 'WebSocketDisconnected':
            seen_wsd = True
        if kind.startswith('recv_'):
            if entry[0] == 'ok' or (
                entry[0] == 'exc'
                and entry[1]
                in (
                    'PayloadTypeError',
                    'JSONDecodeError',
                    'ValueError',
                    'UnicodeDecodeError',
                )
            ):
                if consumed >= len(server.delivered):
                    fail('%s: received a message that was never delivered' % tag)
                    return
                ev = server.delivered[consumed]
                consumed += 1
                if entry[0] == 'ok':
                    if kind == 'recv_text' and entry[1] != ev.get('text'):
                        fail('%s: text payload altered/reordered' % tag)
                    if kind == 'recv_data' and entry[1] != ('bytes', ev.get('bytes')):
                        fail('%s: binary payload altered/reordered' % tag)
                if seen_wsd:
                    fail('%s: message received after a disconnect was reported' % tag)
        elif kind.startswith('send_') and entry[0] == 'ok' and seen_wsd:
            fail('%s: send succeeded after a disconnect was reported' % tag)
        if entry[0] == 'exc' and entry[1] == 'WebSocketDisconnected':
            if sc['fail_kind'] is None and not disc and not _closed_before(ops, op):
                fail('%s: spurious WebSocketDisconnected' % tag)


def _closed_before(ops, op):
    for o in ops:
        if o is op:
            return False
        if o[0] == 'close':
            return True
    return False


def canon(obj):
    return repr(obj).encode('utf-8', 'backslashreplace')


def run_generated(n, seed):
    rng = random.Random(seed)
    h = hashlib.sha256()
    n_model = 0
    n_tol = 0
    for i in range(n):
        sc = gen_scenario(rng, i)
        tag = 'scenario %d' % i
        log, server, app_exc, reasons = run_scenario(sc)
        check_legal(tag, server, app_exc, sc)
        if model_applies(sc):
            n_model += 1
            mlog, mattempts, mexc = Model(sc, reasons).run()
            if mlog != log:
                fail('%s: op outcomes differ\n  got  %r\n  want %r\n  sc=%r' % (tag, log, mlog, sc))
            if mattempts != server.attempts:
                fail(
                    '%s: events differ\n  got  %r\n  want %r\n  sc=%r'
                    % (tag, server.attempts, mattempts, sc)
                )
            if mexc != app_exc:
                fail('%s: app exception differs: got %r want %r\n sc=%r' % (tag, app_exc, mexc, sc))
        else:
            n_tol += 1
            tolerant_checks(tag, sc, log, server)
        h.update(canon((i, log, server.attempts, app_exc)))
    return h.hexdigest(), n_model, n_tol


def run_fixed():
    """Hand-written scenarios with hard-coded expectations."""
    h = hashlib.sha256()
    count = 0
    base = {
        'queue': 0,
        'client': [],
        'ops': [],
        'propagate': True,
        'fail_kind': None,
        'fail_at': None,
        'fail_arg': None,
        'path': '/ws',
        'mw': None,
        'handler': None,
        'error_close_code': None,
        'reasons': 'default',
    }

    def ev_close(ver, code, reason):
        ev = {'type': 'websocket.close', 'code': code}
        if reason and supports_reason(ver):
            ev['reason'] = reason
        return (norm_event(ev), 'ok')

    ACCEPT = (norm_event({'type': 'websocket.accept'}), 'ok')

    for ver in VERSIONS:
        for queue in (0, 1, 8):
            for mw in (None, 'noop'):
                # abandoned handshake: exactly one close with 1011
                for first in (
                    {'type': 'websocket.disconnect', 'code': 1001},
                    {'type': 'websocket.receive', 'text': 'x'},
                    {'type': 'http.request'},
                ):
                    sc = dict(base, ver=ver, queue=queue, mw=mw, first=first)
                    log, server, exc, _ = run_scenario(sc)
                    count += 1
                    want = [ev_close(ver, 1011, 'Internal Server Error')]
                    if server.attempts != want or exc is not None or log:
                        fail('abandoned handshake %s: %r %r %r' % (ver, server.attempts, exc, log))
                    h.update(canon((server.attempts, exc, log)))

                table = [
                    # (path, ops, expected events)
                    ('/missing', [], [ev_close(ver, 3404, 'Not Found')]),
                    ('/nows', [], [ev_close(ver, 3405, 'Method Not Allowed')]),
                    ('/ws', [], [ev_close(ver, 1000, 'Normal Closure')]),
                    (
                        '/ws',
                        [('accept', 'UNSET', 'UNSET')],
                        [ACCEPT, ev_close(ver, 1000, 'Normal Closure')],
                    ),
                    (
                        '/ws',
                        [('accept', 'UNSET', 'UNSET'), ('raise', 'boom', None)],
                        [ACCEPT, ev_close(ver, 1011, 'Internal Server Error')],
                    ),
                    (
                        '/ws',
                        [('raise', 'http_named', 403)],
                        [ev_close(ver, 3403, 'Forbidden')],
                    ),
                    (
                        '/ws',
                        [('accept', 'UNSET', 'UNSET'), ('raise', 'http_status', 204)],
                        [ACCEPT, ev_close(ver, 3204, 'No Content')],
                    ),
                    (
                        '/ws',
                        [
                            ('accept', 'UNSET', 'UNSET'),
                            ('send_text', 'a'),
                            ('send_data', bytearray(b'b')),
                            ('send_media', {'c': 1}, 'UNSET'),
                            ('close', 4000, 'bye'),
                            ('close', 4001, 'again'),
                        ],
                        [
                            ACCEPT,
                            (norm_event({'type': 'websocket.send', 'text': 'a'}), 'ok'),
                            (norm_event({'type': 'websocket.send', 'bytes': b'b'}), 'ok'),
                            (
                                norm_event({'type': 'websocket.send', 'text': '{"c": 1}'}),
                                'ok',
                            ),
                            ev_close(ver, 4000, 'bye'),
                        ],
                    ),
                ]
                for path, ops, want in table:
                    sc = dict(base, ver=ver, queue=queue, mw=mw, path=path, ops=ops)
                    log, server, exc, _ = run_scenario(sc)
                    count += 1
                    check_legal('fixed', server, exc, sc)
                    if server.attempts != want or exc is not None:
                        fail(
                            'fixed %s q=%s %s %r:\n got  %r\n want %r (exc %r)'
                            % (ver, queue, path, ops, server.attempts, want, exc)
                        )
                    h.update(canon((server.attempts, exc, log)))
    return h.hexdigest(), count


def main(specific, expected_digests):
    d_fixed, n_fixed = run_fixed()
    d_gen, n_model, n_tol = run_generated(3000, 20261001)
    n_spec = specific()
    print(
        'fixed scenarios: %d, generated: %d model-checked + %d tolerant, '
        'change-specific cases: %d' % (n_fixed, n_model, n_tol, n_spec)
    )
    print('digest fixed     :', d_fixed)
    print('digest generated :', d_gen)
    if expected_digests is not None:
        if (d_fixed, d_gen) != expected_digests:
            fail('trace digest differs from the one taken on the unmodified tree')
    for rec in LOGCAP.records:
        if rec.levelno >= logging.CRITICAL:
            fail('unexpected critical log record')
    if FAILURES:
        print('FAILED (%d problems)' % len(FAILURES))
        sys.exit(1)
    print('PASS')
    sys.exit(0)


# --------------------------------------------------------------------------
# Change-specific section (change 4: a debug log record when the handshake is
# abandoned, in App._handle_websocket).  The outgoing events must be exactly
# the same whatever the first event is and however logging is configured.
# --------------------------------------------------------------------------
class StrSub(str):
    pass


def specific():
    count = 0
    base = {
        'client': [],
        'ops': [('accept', 'UNSET', 'UNSET'), ('send_text', 'hi')],
        'propagate': True,
        'fail_kind': None,
        'fail_at': None,
        'fail_arg': None,
        'path': '/ws',
        'handler': None,
        'error_close_code': None,
        'reasons': 'default',
    }
    not_connect = [
        {'type': 'websocket.disconnect'},
        {'type': 'websocket.disconnect', 'code': 1001},
        {'type': 'websocket.receive', 'text': 'early'},
        {'type': 'websocket.receive', 'bytes': b'early'},
        {'type': 'websocket.close'},
        {'type': 'http.request', 'body': b''},
        {'type': 'lifespan.startup'},
        {'type': 'WebSocket.Connect'},
        {'type': 'websocket.connect '},
        {'type': ''},
        {'type': None},
        {'type': 5},
        {'type': b'websocket.connect'},
        {'type': ('websocket.connect',)},
        {'type': StrSub('websocket.connected')},
        {'type': '%s %d %(x)s {}'},
    ]
    connect = [
        {'type': 'websocket.connect'},
        {'type': StrSub('websocket.connect')},
        {'type': 'websocket.connect', 'extra': 1},
    ]
    flogger = logging.getLogger('falcon')
    saved_level = flogger.level
    n_abandoned = 0
    LOGCAP.records.clear()

    def want_close(ver, code, reason):
        ev = {'type': 'websocket.close', 'code': code}
        if reason and supports_reason(ver):
            ev['reason'] = reason
        return (norm_event(ev), 'ok')

    k = 0
    try:
        for logmode in ('debug', 'warning', 'disabled'):
            if logmode == 'debug':
                flogger.setLevel(logging.DEBUG)
            elif logmode == 'warning':
                flogger.setLevel(logging.WARNING)
            else:
                logging.disable(logging.CRITICAL)
            for ver in VERSIONS:
                for first in not_connect:
                    k += 1
                    queue = (0, 4)[k % 2]
                    mw = (None, 'noop', 'accept')[k % 3]
                    for fk, fa in ((None, None), ('oserror', 0), ('runtime', 0)):
                        sc = dict(
                            base, ver=ver, queue=queue, mw=mw, first=first, fail_kind=fk, fail_at=fa
                        )
                        before = len(LOGCAP.records)
                        log, server, exc, _ = run_scenario(sc)
                        count += 1
                        n_abandoned += 1
                        outcome = 'ok' if fk is None else 'raised'
                        want = [(want_close(ver, 1011, 'Internal Server Error')[0], outcome)]
                        want_exc = {
                            None: None,
                            'oserror': ('exc', 'ClientDisconnected', None),
                            'runtime': ('exc', 'RuntimeError', None),
                        }[fk]
                        if server.attempts != want or exc != want_exc or log:
                            fail(
                                'abandoned %r ver=%s log=%s: attempts=%r exc=%r log=%r'
                                % (first, ver, logmode, server.attempts, exc, log)
                            )
                        if server.ci != 0:
                            fail('abandoned handshake: receive() called again')
                        new = LOGCAP.records[before:]
                        if logmode != 'debug' and new:
                            fail('log record emitted although logging is off')
                        for rec in new:
                            if rec.levelno != logging.DEBUG:
                                fail('abandoned handshake logged above DEBUG: %r' % rec.getMessage())
                for first in connect:
                    k += 1
                    sc = dict(base, ver=ver, queue=(0, 4)[k % 2], mw=(None, 'noop')[k % 2], first=first)
                    before = len(LOGCAP.records)
                    log, server, exc, _ = run_scenario(sc)
                    count += 1
                    want = [
                        (norm_event({'type': 'websocket.accept'}), 'ok'),
                        (norm_event({'type': 'websocket.send', 'text': 'hi'}), 'ok'),
                        want_close(ver, 1000, 'Normal Closure'),
                    ]
                    if server.attempts != want or exc is not None:
                        fail('connect %r ver=%s: %r %r' % (first, ver, server.attempts, exc))
                    if LOGCAP.records[before:]:
                        fail('normal session produced log records')
                # first event without a type: KeyError, nothing sent
                sc = dict(base, ver=ver, queue=0, mw=None, first={'no-type': 1}, closes=False)
                log, server, exc, _ = run_scenario(sc)
                count += 1
                if server.attempts or exc != ('exc', 'KeyError', None):
                    fail('typeless first event: %r %r' % (server.attempts, exc))
            logging.disable(logging.NOTSET)
    finally:
        logging.disable(logging.NOTSET)
        flogger.setLevel(saved_level)
    return count


# Digests of the complete trace, taken on the UNMODIFIED tree.
EXPECTED_DIGESTS = (
    "a466752de49b4c208c0d3aebd22e1afca6aa9cd8706595f1ced5865c26d9ac09",
    "c02b1241fff4f997a8ae40e5e0e2023fd7d8ac618a42f92da7ac7de5f279baca",
)


if __name__ == '__main__':
    main(specific, EXPECTED_DIGESTS)
