"""Generated check for C01 (compiled router == depth-first walk of the template tree).

Run as:  PYTHONPATH=<falcon tree> python check.py     (prints PASS, exit 0)

Standard library + falcon only; deterministic seeds.  A plain reference
router (structured templates kept in a tree, walked depth first with
backtracking: literal before multi-field before single-field segments,
converters may veto, a trailing path field swallows the rest) predicts both
the accept/reject decision of every add_route() call and the result of
every find() call; the compiled router must agree.
"""
import itertools
import random
import re
import sys
import time

from falcon.routing import CompiledRouter
from falcon.routing import compiled as _compiled
from falcon.routing.compiled import CompiledRouterNode
from falcon.routing.compiled import UnacceptableRouteError

SEED = 0xC01
T0 = time.time()

# --------------------------------------------------------------------------
# Reference model: URI templates are lists of structured segments, kept in a
# plain tree that is walked depth first for every lookup.
# --------------------------------------------------------------------------

LIT, FLD = 'lit', 'fld'
CONSUMING = ('path', 'tail')  # converters that swallow the rest of the path


class Seg:
    """One template segment: a list of literal and field parts."""

    def __init__(self, parts, raw=None, invalid=False):
        self.parts = parts
        self.invalid = invalid  # segment-level validation must reject it
        self.raw = raw if raw is not None else ''.join(self._render(p) for p in parts)
        fields = [p for p in parts if p[0] == FLD]
        self.fields = fields
        self.is_var = bool(fields)
        self.is_simple = len(parts) == 1 and bool(fields)
        self.is_complex = self.is_var and not self.is_simple
        self.consumes = any(p[2] in CONSUMING for p in fields)
        # what CompiledRouterNode.conflicts_with compares for complex segments
        self.skeleton = ''.join('v' if p[0] == FLD else p[1] for p in parts)

    @staticmethod
    def _render(part):
        if part[0] == LIT:
            return part[1]
        _, name, cname, argstr = part
        if cname is None:
            return '{%s}' % name
        if argstr is None:
            return '{%s:%s}' % (name, cname)
        return '{%s:%s(%s)}' % (name, cname, argstr)


def ref_int(value, argstr):
    """Expected behaviour of the builtin ``int`` converter on our alphabet."""
    num_digits = lo = hi = None
    if argstr:
        for item in argstr.split(','):
            item = item.strip()
            if item.startswith('min='):
                lo = int(item[4:])
            elif item.startswith('max='):
                hi = int(item[4:])
            elif item.startswith('num_digits='):
                num_digits = int(item[11:])
            else:
                num_digits = int(item)
    if num_digits is not None and len(value) != num_digits:
        return None
    if not re.fullmatch(r'[+-]?[0-9]+', value):
        return None
    number = int(value)
    if lo is not None and number < lo:
        return None
    if hi is not None and number > hi:
        return None
    return number


def ref_convert(cname, argstr, fragment):
    if cname == 'int':
        return ref_int(fragment, argstr)
    if cname == 'even':
        # custom converter registered by this check
        if fragment.isdigit() and int(fragment) % 2 == 0:
            return ('even', int(fragment))
        return None
    if cname == 'path':
        return '/'.join(fragment)
    if cname == 'tail':
        # custom multi-segment converter registered by this check; may veto
        return None if 'zz' in fragment else tuple(fragment)
    raise AssertionError(cname)


def ref_match_complex(parts, text):
    """Leftmost-greedy match of literal spans and non-empty fields.

    This is what '^lit(?P<a>.+)lit(?P<b>.+)$' does for newline-free text.
    """

    def walk(i, pos):
        if i == len(parts):
            return {} if pos == len(text) else None
        part = parts[i]
        if part[0] == LIT:
            if text.startswith(part[1], pos):
                return walk(i + 1, pos + len(part[1]))
            return None
        for end in range(len(text), pos, -1):
            rest = walk(i + 1, end)
            if rest is not None:
                rest[part[1]] = text[pos:end]
                return rest
        return None

    return walk(0, 0)


class RefNode:
    def __init__(self, seg):
        self.seg = seg
        self.children = []
        self.route = None  # (resource, uri_template)


class RefRouter:
    def __init__(self):
        self.roots = []
        # why the last add() was refused, when a multi-segment converter is
        # to blame: (rule, field name, converter name)
        self.reason = None

    # -- add_route ---------------------------------------------------------
    def add(self, template, segs, resource):
        """Return True and update the tree iff the template is acceptable."""
        self.reason = None
        if any(s.invalid for s in segs):
            return False
        outside = ''.join(p[1] for s in segs for p in s.parts if p[0] == LIT)
        if re.search(r'\s', outside):
            return False
        names = [p[1] for s in segs for p in s.fields]
        if len(names) != len(set(names)):
            return False

        nodes = self.roots
        for index, seg in enumerate(segs):
            last = index == len(segs) - 1
            found = None
            for node in nodes:
                if node.seg.raw == seg.raw:
                    found = node
                    break
                if self._conflict(node.seg, seg):
                    return False
            if found is None:
                # a fresh chain is needed from here on; vet it before attaching
                chain = segs[index:]
                for k, new in enumerate(chain):
                    if new.consumes and (new.is_complex or k != len(chain) - 1):
                        first = [p for p in new.fields if p[2] in CONSUMING][0]
                        rule = 'mixed' if new.is_complex else 'children'
                        self.reason = (rule, first[1], first[2])
                        return False
                head = tail = RefNode(chain[0])
                for new in chain[1:]:
                    child = RefNode(new)
                    tail.children.append(child)
                    tail = child
                tail.route = (resource, template)
                nodes.append(head)
                return True
            if last:
                found.route = (resource, template)
                return True
            if found.seg.consumes:
                first = found.seg.fields[0]
                self.reason = ('children', first[1], first[2])
                return False
            nodes = found.children
        raise AssertionError('unreachable')

    @staticmethod
    def _conflict(old, new):
        if old.is_simple:
            return new.is_simple
        if old.is_complex:
            return new.is_complex and old.skeleton == new.skeleton
        return False

    # -- find --------------------------------------------------------------
    def find(self, uri):
        path = uri.lstrip('/').split('/')
        return self._walk(self.roots, path, 0, {})

    def _walk(self, nodes, path, level, params):
        if not nodes or len(path) <= level:
            return None
        rank = lambda n: 0 if not n.seg.is_var else (1 if n.seg.is_complex else 2)  # noqa
        for node in sorted(nodes, key=rank):
            seg = node.seg
            text = path[level]
            mine = dict(params)
            if not seg.is_var:
                if text != seg.raw:
                    continue
            elif seg.is_complex:
                groups = ref_match_complex(seg.parts, text)
                if groups is None:
                    continue
                vetoed = False
                for _, name, cname, argstr in seg.fields:
                    if cname is not None:
                        value = ref_convert(cname, argstr, groups[name])
                        if value is None:
                            vetoed = True
                            break
                        groups[name] = value
                if vetoed:
                    continue
                mine.update(groups)
            else:
                _, name, cname, argstr = seg.parts[0]
                if cname is None:
                    mine[name] = text
                elif cname in CONSUMING:
                    value = ref_convert(cname, argstr, path[level:])
                    if value is not None and node.route is not None:
                        mine[name] = value
                        return node.route, mine
                    continue
                else:
                    value = ref_convert(cname, argstr, text)
                    if value is None:
                        continue
                    mine[name] = value
            hit = self._walk(node.children, path, level + 1, mine)
            if hit is not None:
                return hit
            if node.route is not None and len(path) == level + 1:
                return node.route, mine
        return None


# --------------------------------------------------------------------------
# Generators
# --------------------------------------------------------------------------

LITERALS = ['a', 'b', 'items', 'v1', '7', '12', 'x.y', 'a-b', '', 'A', '(z)', 'q+', '$', 'it*']
NAMES = ['id', 'name', 'x', 'y', 'k', 'rest', 'n2', '_u']
INT_ARGS = [None, None, '2', 'min=5', 'max=20', '1, min=3', 'num_digits=3', 'min=0, max=9']
GLUE = ['.', '-', 'v', 'x', '(', ')', '+', '~', '.x.', ':', '@', '$', '^', '|', '[', ']', '?', '*']


def gen_field(rng, allow_path=True, force=None):
    name = rng.choice(NAMES)
    kind = force or rng.choice(
        ['plain', 'plain', 'int', 'even', rng.choice(CONSUMING) if allow_path else 'int']
    )
    if kind == 'plain':
        return (FLD, name, None, None)
    if kind == 'int':
        return (FLD, name, 'int', rng.choice(INT_ARGS))
    if kind == 'even':
        return (FLD, name, 'even', None)
    return (FLD, name, kind, None)


def gen_complex(rng):
    shape = rng.randrange(6)
    f1 = gen_field(rng, allow_path=rng.random() < 0.08)
    f2 = gen_field(rng, allow_path=False)
    g1, g2 = rng.choice(GLUE), rng.choice(GLUE)
    if shape == 0:
        parts = [f1, (LIT, g1), f2]
    elif shape == 1:
        parts = [(LIT, g1), f1]
    elif shape == 2:
        parts = [f1, (LIT, g1)]
    elif shape == 3:
        parts = [(LIT, g1), f1, (LIT, g2), f2]
    elif shape == 4:
        parts = [f1, f2]
    else:
        f3 = gen_field(rng, allow_path=False)
        parts = [f1, (LIT, g1), f2, (LIT, g2), f3]
    return Seg(parts)


INVALID_RAW = [
    '{1a}', '{class}', '{a b}', '{}', '{id:}', '{id:nope}', '{id:int(0)}',
    '{id:int(oops)}', '{na-me}', 'x{def}', '{id}.{2}', '{id:even(1)}',
]
SPACED = [
    [(LIT, 'a b')],
    [(LIT, ' ')],
    [(LIT, 'x\t'), (FLD, 'id', None, None)],
    [(FLD, 'id', None, None), (LIT, ' ')],
    [(FLD, 'x', 'int', None), (LIT, ' - '), (FLD, 'y', None, None)],
]


def gen_segment(rng):
    roll = rng.random()
    if roll < 0.34:
        return Seg([(LIT, rng.choice(LITERALS))])
    if roll < 0.62:
        return Seg([gen_field(rng, allow_path=rng.random() < 0.5)])
    if roll < 0.93:
        return gen_complex(rng)
    if roll < 0.97:
        return Seg([], raw=rng.choice(INVALID_RAW), invalid=True)
    return Seg(list(rng.choice(SPACED)))


def gen_template(rng, pool):
    """Return (template_string, segments); reuse earlier prefixes often."""
    segs = []
    if pool and rng.random() < 0.7:
        base = rng.choice(pool)
        segs = list(base[: rng.randint(0, len(base))])
    want = rng.randint(max(1, len(segs)), 4)
    while len(segs) < want:
        segs.append(gen_segment(rng))
    if rng.random() < 0.25:
        # end with a path-consuming field
        segs = segs[: rng.randint(0, len(segs) - 1)] + [
            Seg([gen_field(rng, force=rng.choice(CONSUMING))])
        ]
    if rng.random() < 0.1 and len(segs) > 1:
        # rename a field deep in the template -> typical conflict
        i = rng.randrange(len(segs))
        if segs[i].is_simple:
            segs[i] = Seg([gen_field(rng, allow_path=False)])
    if rng.random() < 0.85:
        segs = uniquify(rng, segs)
    # add_route() strips every leading slash, so a template cannot start with
    # an empty segment (unless it is the root template '/')
    segs = strip_leading_empty(segs)
    template = '/' + '/'.join(s.raw for s in segs)
    if rng.random() < 0.05:
        template = template[1:]  # the leading slash is optional
    return template, segs


def strip_leading_empty(segs):
    while len(segs) > 1 and segs[0].raw == '':
        segs = segs[1:]
    return segs


def uniquify(rng, segs):
    """Rename repeated field names (keeps the first use of each name)."""
    used = set()
    out = []
    for seg in segs:
        if seg.invalid or not seg.is_var:
            out.append(seg)
            continue
        parts = []
        changed = False
        for part in seg.parts:
            if part[0] == FLD:
                name = part[1]
                if name in used:
                    free = [n for n in NAMES + ['f1', 'f2', 'f3', 'f4'] if n not in used]
                    if free:
                        name = rng.choice(free)
                        part = (FLD, name) + part[2:]
                        changed = True
                used.add(name)
            parts.append(part)
        out.append(Seg(parts) if changed else seg)
    return out


def representatives(rng, ref):
    """Segment representatives complete for the literals/patterns/converters."""
    reps = {'', 'zz', '7', '8', '12', '123', '4', '-3', '+6', '007', 'a', '20', '21'}

    def visit(nodes):
        for node in nodes:
            seg = node.seg
            if not seg.is_var:
                reps.add(seg.raw)
            elif seg.is_complex:
                for _ in range(3):
                    text = ''
                    for p in seg.parts:
                        if p[0] == LIT:
                            text += p[1]
                        else:
                            text += rng.choice(['7', '12', 'ab', '4', 'x.y', '8-2', '123', 'q'])
                    reps.add(text)
            visit(node.children)

    visit(ref.roots)
    return sorted(reps)


def gen_paths(rng, ref, count, exhaustive=False):
    reps = representatives(rng, ref)
    if exhaustive:
        small = reps if len(reps) <= 9 else rng.sample(reps, 9)
        for depth in (1, 2, 3):
            for combo in itertools.product(small, repeat=depth):
                yield '/' + '/'.join(combo)
        return
    chains = route_chains(ref)
    for _ in range(count):
        if chains and rng.random() < 0.4:
            # a witness for one of the routes, possibly perturbed
            pieces = [fill_segment(rng, seg) for seg in rng.choice(chains)]
            if rng.random() < 0.25:
                pieces[rng.randrange(len(pieces))] = rng.choice(reps)
            if rng.random() < 0.1:
                pieces.append(rng.choice(reps))
            yield '/' + '/'.join(pieces)
            continue
        depth = rng.randint(1, 5)
        yield '/' + '/'.join(rng.choice(reps) for _ in range(depth))


FILL = ['7', '12', 'ab', '4', 'x.y', '8-2', '123', 'q', '20', '6']


def fill_segment(rng, seg):
    if not seg.is_var:
        return seg.raw
    if seg.consumes:
        return '/'.join(rng.choice(FILL) for _ in range(rng.randint(1, 3)))
    return ''.join(p[1] if p[0] == LIT else rng.choice(FILL) for p in seg.parts)


def route_chains(ref):
    chains = []

    def visit(nodes, prefix):
        for node in nodes:
            chain = prefix + [node.seg]
            if node.route is not None:
                chains.append(chain)
            visit(node.children, chain)

    visit(ref.roots, [])
    return chains


class Resource:
    def __init__(self, tag):
        self.tag = tag

    def on_get(self, req, resp, **kwargs):
        pass

    def __repr__(self):
        return 'Resource(%r)' % (self.tag,)


class EvenConverter(_compiled.converters.BaseConverter):
    def convert(self, value):
        if value.isdigit() and int(value) % 2 == 0:
            return ('even', int(value))
        return None


class TailConverter(_compiled.converters.BaseConverter):
    CONSUME_MULTIPLE_SEGMENTS = True

    def convert(self, value):
        return None if 'zz' in value else tuple(value)


def new_router():
    router = CompiledRouter()
    router.options.converters['even'] = EvenConverter
    router.options.converters['tail'] = TailConverter
    return router


class Failure(Exception):
    pass


def compare_lookup(router, ref, uri, history):
    try:
        got = router.find(uri)
    except Exception as ex:  # lookups never fail with an internal error
        raise Failure('find(%r) raised %r after %r' % (uri, ex, history))
    want = ref.find(uri)
    if want is None:
        if got is not None:
            raise Failure(
                'find(%r) = (%r, %r, %r), expected None; history %r'
                % (uri, got[0], got[3], got[2], history)
            )
        return
    (resource, template), params = want
    if got is None:
        raise Failure(
            'find(%r) = None, expected %r %r; history %r' % (uri, template, params, history)
        )
    g_resource, g_map, g_params, g_template = got
    if g_resource is not resource or g_template != template or g_params != params:
        raise Failure(
            'find(%r) = (%r, %r, %r), expected (%r, %r, %r); history %r'
            % (uri, g_resource, g_template, g_params, resource, template, params, history)
        )
    for key, value in params.items():
        if type(g_params[key]) is not type(value):
            raise Failure('find(%r): field %r has type %r' % (uri, key, type(g_params[key])))
    if 'GET' not in g_map:
        raise Failure('find(%r): method map lost' % (uri,))


def run_histories(scenarios, steps, lookups_per_step, seed=SEED):
    rng = random.Random(seed)
    stats = {'adds': 0, 'accepted': 0, 'rejected': 0, 'lookups': 0, 'hits': 0}
    for scenario in range(scenarios):
        router = new_router()
        ref = RefRouter()
        pool = []
        history = []
        for step in range(rng.randint(3, steps)):
            template, segs = gen_template(rng, pool)
            resource = Resource((scenario, step))
            kwargs = {}
            roll = rng.random()
            if roll < 0.3:
                kwargs['compile'] = True
            elif roll < 0.4:
                kwargs['compile'] = False
            expected = ref.add(template, segs, resource)
            try:
                router.add_route(template, resource, **kwargs)
                accepted = True
            except UnacceptableRouteError:
                accepted = False
            except Exception as ex:
                raise Failure('add_route(%r) raised %r after %r' % (template, ex, history))
            history.append((template, kwargs.get('compile'), accepted))
            stats['adds'] += 1
            stats['accepted' if accepted else 'rejected'] += 1
            if accepted != expected:
                raise Failure(
                    'add_route(%r) accepted=%r, expected %r; history %r'
                    % (template, accepted, expected, history)
                )
            if accepted:
                pool.append(segs)
            if rng.random() < 0.25:
                continue  # several adds in a row without a lookup in between
            exhaustive = rng.random() < 0.04
            for uri in gen_paths(rng, ref, lookups_per_step, exhaustive):
                compare_lookup(router, ref, uri, history)
                stats['lookups'] += 1
                if ref.find(uri) is not None:
                    stats['hits'] += 1
            # every accepted template is reachable through a witness path
    return stats


# --------------------------------------------------------------------------
# Specific part: CompiledRouterNode.conflicts_with against the truth table
#
#   simple, simple  ==> True        complex, complex ==> same skeleton
#   every other combination of (string, simple, complex) ==> False
# --------------------------------------------------------------------------


def check_conflict_table(cases, seed=SEED + 1):
    rng = random.Random(seed)
    seen = {}
    done = 0
    while done < cases:
        old = gen_segment(rng)
        new = gen_segment(rng)
        if rng.random() < 0.3 and old.is_complex:
            # same shape, other field names / converters: the interesting case
            new = Seg([
                p if p[0] == LIT else gen_field(rng, allow_path=False)
                for p in old.parts
            ])
        if old.invalid or new.invalid:
            continue
        # add_route() validates field names first: no repeats inside a segment
        (old,), (new,) = uniquify(rng, [old]), uniquify(rng, [new])
        if old.raw == new.raw:
            continue
        kind = lambda s: 'string' if not s.is_var else ('complex' if s.is_complex else 'simple')  # noqa
        if kind(old) == 'simple' and kind(new) == 'simple':
            expected = True
        elif kind(old) == 'complex' and kind(new) == 'complex':
            expected = old.skeleton == new.skeleton
        else:
            expected = False
        try:
            got = CompiledRouterNode(old.raw).conflicts_with(new.raw)
        except Exception as ex:
            raise Failure('conflicts_with(%r, %r) raised %r' % (old.raw, new.raw, ex))
        if got is not expected:
            raise Failure(
                'CompiledRouterNode(%r).conflicts_with(%r) = %r, expected %r'
                % (old.raw, new.raw, got, expected)
            )
        key = (kind(old), kind(new), expected)
        seen[key] = seen.get(key, 0) + 1
        done += 1
    if len(seen) != 10:
        raise Failure('generator did not cover the whole table: %r' % (seen,))
    return seen


def check_sibling_histories(scenarios, seed=SEED + 2):
    """Many siblings under one parent: acceptance and lookups vs the model."""
    rng = random.Random(seed)
    lookups = adds = 0
    for scenario in range(scenarios):
        router = new_router()
        ref = RefRouter()
        history = []
        prefix = rng.choice([[], [Seg([(LIT, 'p')])], [Seg([(FLD, 'top', None, None)])]])
        for step in range(rng.randint(4, 9)):
            seg = gen_segment(rng)
            tail = [Seg([(LIT, 'leaf')])] if rng.random() < 0.4 else []
            segs = strip_leading_empty(uniquify(rng, prefix + [seg] + tail))
            template = '/' + '/'.join(s.raw for s in segs)
            resource = Resource((scenario, step))
            expected = ref.add(template, segs, resource)
            compile_now = rng.random() < 0.5
            try:
                router.add_route(template, resource, compile=compile_now)
                accepted = True
            except UnacceptableRouteError:
                accepted = False
            except Exception as ex:
                raise Failure('add_route(%r) raised %r after %r' % (template, ex, history))
            history.append((template, compile_now, accepted))
            adds += 1
            if accepted != expected:
                raise Failure(
                    'add_route(%r) accepted=%r, expected %r; history %r'
                    % (template, accepted, expected, history)
                )
            for uri in gen_paths(rng, ref, 8):
                compare_lookup(router, ref, uri, history)
                lookups += 1
    return adds, lookups


def main():
    try:
        table = check_conflict_table(6000)
        adds, lookups = check_sibling_histories(400)
        stats = run_histories(400, 10, 12)
    except Failure as failure:
        print('FAIL: %s' % (failure,))
        return 1
    print('conflict table cases: %s' % (sorted(table.items()),))
    print('sibling histories: %d add_route calls, %d lookups' % (adds, lookups))
    print('random histories: %r' % (stats,))
    print('elapsed %.1fs' % (time.time() - T0))
    print('PASS')
    return 0


if __name__ == '__main__':
    sys.exit(main())
