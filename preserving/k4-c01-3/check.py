"""Generated check for C01 (compiled router == depth-first walk of the template tree).

Run as:  PYTHONPATH=<falcon tree> python check.py     (prints PASS, exit 0)

Standard library + falcon only; deterministic seeds.  A plain reference
router (structured templates kept in a tree, walked depth first with
backtracking: literal before multi-field before single-field segments,
converters may veto, a trailing path field swallows the rest) predicts both
the accept/reject decision of every add_route() call and the result of
every find() call; the compiled router must agree.
"""
import itertools
import random
import re
import sys
import time

from falcon.routing import CompiledRouter
from falcon.routing import compiled as _compiled
from falcon.routing.compiled import CompiledRouterNode
from falcon.routing.compiled import UnacceptableRouteError

SEED = 0xC01
T0 = time.time()

# --------------------------------------------------------------------------
# Reference model: URI templates are lists of structured segments, kept in a
# plain tree that is walked depth first for every lookup.
# --------------------------------------------------------------------------

LIT, FLD = 'lit', 'fld'
CONSUMING = ('path', 'tail')  # converters that swallow the rest of the path


class Seg:
    """One template segment: a list of literal and field parts."""

    def __init__(self, parts, raw=None, invalid=False):
        self.parts = parts
        self.invalid = invalid  # segment-level validation must reject it
        self.raw = raw if raw is not None else ''.join(self._render(p) for p in parts)
        fields = [p for p in parts if p[0] == FLD]
        self.fields = fields
        self.is_var = bool(fields)
        self.is_simple = len(parts) == 1 and bool(fields)
        self.is_complex = self.is_var and not self.is_simple
        self.consumes = any(p[2] in CONSUMING for p in fields)
        # what CompiledRouterNode.conflicts_with compares for complex segments
        self.skeleton = ''.join('v' if p[0] == FLD else p[1] for p in parts)

    @staticmethod
    def _render(part):
        if part[0] == LIT:
            return part[1]
        _, name, cname, argstr = part
        if cname is None:
            return '{%s}' % name
        if argstr is None:
            return '{%s:%s}' % (name, cname)
        return '{%s:%s(%s)}' % (name, cname, argstr)


def ref_int(value, argstr):
    """Expected behaviour of the builtin ``int`` converter on our alphabet."""
    num_digits = lo = hi = None
    if argstr:
        for item in argstr.split(','):
            item = item.strip()
            if item.startswith('min='):
                lo = int(item[4:])
            elif item.startswith('max='):
                hi = int(item[4:])
            elif item.startswith('num_digits='):
                num_digits = int(item[11:])
            else:
                num_digits = int(item)
    if num_digits is not None and len(value) != num_digits:
        return None
    if not re.fullmatch(r'[+-]?[0-9]+', value):
        return None
    number = int(value)
    if lo is not None and number < lo:
        return None
    if hi is not None and number > hi:
        return None
    return number


def ref_convert(cname, argstr, fragment):
    if cname == 'int':
        return ref_int(fragment, argstr)
    if cname == 'even':
        # custom converter registered by this check
        if fragment.isdigit() and int(fragment) % 2 == 0:
            return ('even', int(fragment))
        return None
    if cname == 'path':
        return '/'.join(fragment)
    if cname == 'tail':
        # custom multi-segment converter registered by this check; may veto
        return None if 'zz' in fragment else tuple(fragment)
    raise AssertionError(cname)


def ref_match_complex(parts, text):
    """Leftmost-greedy match of literal spans and non-empty fields.

    This is what '^lit(?P<a>.+)lit(?P<b>.+)$' does for newline-free text.
    """

    def walk(i, pos):
        if i == len(parts):
            return {} if pos == len(text) else None
        part = parts[i]
        if part[0] == LIT:
            if text.startswith(part[1], pos):
                return walk(i + 1, pos + len(part[1]))
            return None
        for end in range(len(text), pos, -1):
            rest = walk(i + 1, end)
            if rest is not None:
                rest[part[1]] = text[pos:end]
                return rest
        return None

    return walk(0, 0)


class RefNode:
    def __init__(self, seg):
        self.seg = seg
        self.children = []
        self.route = None  # (resource, uri_template)


class RefRouter:
    def __init__(self):
        self.roots = []
        # why the last add() was refused, when a multi-segment converter is
        # to blame: (rule, field name, converter name)
        self.reason = None

    # -- add_route ---------------------------------------------------------
    def add(self, template, segs, resource):
        """Return True and update the tree iff the template is acceptable."""
        self.reason = None
        if any(s.invalid for s in segs):
            return False
        outside = ''.join(p[1] for s in segs for p in s.parts if p[0] == LIT)
        if re.search(r'\s', outside):
            return False
        names = [p[1] for s in segs for p in s.fields]
        if len(names) != len(set(names)):
            return False

        nodes = self.roots
        for index, seg in enumerate(segs):
            last = index == len(segs) - 1
            found = None
            for node in nodes:
                if node.seg.raw == seg.raw:
                    found = node
                    break
                if self._conflict(node.seg, seg):
                    return False
            if found is None:
                # a fresh chain is needed from here on; vet it before attaching
                chain = segs[index:]
                for k, new in enumerate(chain):
                    if new.consumes and (new.is_complex or k != len(chain) - 1):
                        first = [p for p in new.fields if p[2] in CONSUMING][0]
                        rule = 'mixed' if new.is_complex else 'children'
                        self.reason = (rule, first[1], first[2])
                        return False
                head = tail = RefNode(chain[0])
                for new in chain[1:]:
                    child = RefNode(new)
                    tail.children.append(child)
                    tail = child
                tail.route = (resource, template)
                nodes.append(head)
                return True
            if last:
                found.route = (resource, template)
                return True
            if found.seg.consumes:
                first = found.seg.fields[0]
                self.reason = ('children', first[1], first[2])
                return False
            nodes = found.children
        raise AssertionError('unreachable')

    @staticmethod
    def _conflict(old, new):
        if old.is_simple:
            return new.is_simple
        if old.is_complex:
            return new.is_complex and old.skeleton == new.skeleton
        return False

    # -- find --------------------------------------------------------------
    def find(self, uri):
        path = uri.lstrip('/').split('/')
        return self._walk(self.roots, path, 0, {})

    def _walk(self, nodes, path, level, params):
        if not nodes or len(path) <= level:
            return None
        rank = lambda n: 0 if not n.seg.is_var else (1 if n.seg.is_complex else 2)  # noqa
        for node in sorted(nodes, key=rank):
            seg = node.seg
            text = path[level]
            mine = dict(params)
            if not seg.is_var:
                if text != seg.raw:
                    continue
            elif seg.is_complex:
                groups = ref_match_complex(seg.parts, text)
                if groups is None:
                    continue
                vetoed = False
                for _, name, cname, argstr in seg.fields:
                    if cname is not None:
                        value = ref_convert(cname, argstr, groups[name])
                        if value is None:
                            vetoed = True
                            break
                        groups[name] = value
                if vetoed:
                    continue
                mine.update(groups)
            else:
                _, name, cname, argstr = seg.parts[0]
                if cname is None:
                    mine[name] = text
                elif cname in CONSUMING:
                    value = ref_convert(cname, argstr, path[level:])
                    if value is not None and node.route is not None:
                        mine[name] = value
                        return node.route, mine
                    continue
                else:
                    value = ref_convert(cname, argstr, text)
                    if value is None:
                        continue
                    mine[name] = value
            hit = self._walk(node.children, path, level + 1, mine)
            if hit is not None:
                return hit
            if node.route is not None and len(path) == level + 1:
                return node.route, mine
        return None


# --------------------------------------------------------------------------
# Generators
# --------------------------------------------------------------------------

LITERALS = ['a', 'b', 'items', 'v1', '7', '12', 'x.y', 'a-b', '', 'A', '(z)', 'q+', '$', 'it*']
NAMES = ['id', 'name', 'x', 'y', 'k', 'rest', 'n2', '_u']
INT_ARGS = [None, None, '2', 'min=5', 'max=20', '1, min=3', 'num_digits=3', 'min=0, max=9']
GLUE = ['.', '-', 'v', 'x', '(', ')', '+', '~', '.x.', ':', '@', '$', '^', '|', '[', ']', '?', '*']


def gen_field(rng, allow_path=True, force=None):
    name = rng.choice(NAMES)
    kind = force or rng.choice(
        ['plain', 'plain', 'int', 'even', rng.choice(CONSUMING) if allow_path else 'int']
    )
    if kind == 'plain':
        return (FLD, name, None, None)
    if kind == 'int':
        return (FLD, name, 'int', rng.choice(INT_ARGS))
    if kind == 'even':
        return (FLD, name, 'even', None)
    return (FLD, name, kind, None)


def gen_complex(rng):
    shape = rng.randrange(6)
    f1 = gen_field(rng, allow_path=rng.random() < 0.08)
    f2 = gen_field(rng, allow_path=False)
    g1, g2 = rng.choice(GLUE), rng.choice(GLUE)
    if shape == 0:
        parts = [f1, (LIT, g1), f2]
    elif shape == 1:
        parts = [(LIT, g1), f1]
    elif shape == 2:
        parts = [f1, (LIT, g1)]
    elif shape == 3:
        parts = [(LIT, g1), f1, (LIT, g2), f2]
    elif shape == 4:
        parts = [f1, f2]
    else:
        f3 = gen_field(rng, allow_path=False)
        parts = [f1, (LIT, g1), f2, (LIT, g2), f3]
    return Seg(parts)


INVALID_RAW = [
    '{1a}', '{class}', '{a b}', '{}', '{id:}', '{id:nope}', '{id:int(0)}',
    '{id:int(oops)}', '{na-me}', 'x{def}', '{id}.{2}', '{id:even(1)}',
]
SPACED = [
    [(LIT, 'a b')],
    [(LIT, ' ')],
    [(LIT, 'x\t'), (FLD, 'id', None, None)],
    [(FLD, 'id', None, None), (LIT, ' ')],
    [(FLD, 'x', 'int', None), (LIT, ' - '), (FLD, 'y', None, None)],
]


def gen_segment(rng):
    roll = rng.random()
    if roll < 0.34:
        return Seg([(LIT, rng.choice(LITERALS))])
    if roll < 0.62:
        return Seg([gen_field(rng, allow_path=rng.random() < 0.5)])
    if roll < 0.93:
        return gen_complex(rng)
    if roll < 0.97:
        return Seg([], raw=rng.choice(INVALID_RAW), invalid=True)
    return Seg(list(rng.choice(SPACED)))


def gen_template(rng, pool):
    """Return (template_string, segments); reuse earlier prefixes often."""
    segs = []
    if pool and rng.random() < 0.7:
        base = rng.choice(pool)
        segs = list(base[: rng.randint(0, len(base))])
    want = rng.randint(max(1, len(segs)), 4)
    while len(segs) < want:
        segs.append(gen_segment(rng))
    if rng.random() < 0.25:
        # end with a path-consuming field
        segs = segs[: rng.randint(0, len(segs) - 1)] + [
            Seg([gen_field(rng, force=rng.choice(CONSUMING))])
        ]
    if rng.random() < 0.1 and len(segs) > 1:
        # rename a field deep in the template -> typical conflict
        i = rng.randrange(len(segs))
        if segs[i].is_simple:
            segs[i] = Seg([gen_field(rng, allow_path=False)])
    if rng.random() < 0.85:
        segs = uniquify(rng, segs)
    # add_route() strips every leading slash, so a template cannot start with
    # an empty segment (unless it is the root template '/')
    segs = strip_leading_empty(segs)
    template = '/' + '/'.join(s.raw for s in segs)
    if rng.random() < 0.05:
        template = template[1:]  # the leading slash is optional
    return template, segs


def strip_leading_empty(segs):
    while len(segs) > 1 and segs[0].raw == '':
        segs = segs[1:]
    return segs


def uniquify(rng, segs):
    """Rename repeated field names (keeps the first use of each name)."""
    used = set()
    out = []
    for seg in segs:
        if seg.invalid or not seg.is_var:
            out.append(seg)
            continue
        parts = []
        changed = False
        for part in seg.parts:
            if part[0] == FLD:
                name = part[1]
                if name in used:
                    free = [n for n in NAMES + ['f1', 'f2', 'f3', 'f4'] if n not in used]
                    if free:
                        name = rng.choice(free)
                        part = (FLD, name) + part[2:]
                        changed = True
                used.add(name)
            parts.append(part)
        out.append(Seg(parts) if changed else seg)
    return out


def representatives(rng, ref):
    """Segment representatives complete for the literals/patterns/converters."""
    reps = {'', 'zz', '7', '8', '12', '123', '4', '-3', '+6', '007', 'a', '20', '21'}

    def visit(nodes):
        for node in nodes:
            seg = node.seg
            if not seg.is_var:
                reps.add(seg.raw)
            elif seg.is_complex:
                for _ in range(3):
                    text = ''
                    for p in seg.parts:
                        if p[0] == LIT:
                            text += p[1]
                        else:
                            text += rng.choice(['7', '12', 'ab', '4', 'x.y', '8-2', '123', 'q'])
                    reps.add(text)
            visit(node.children)

    visit(ref.roots)
    return sorted(reps)


def gen_paths(rng, ref, count, exhaustive=False):
    reps = representatives(rng, ref)
    if exhaustive:
        small = reps if len(reps) <= 9 else rng.sample(reps, 9)
        for depth in (1, 2, 3):
            for combo in itertools.product(small, repeat=depth):
                yield '/' + '/'.join(combo)
        return
    chains = route_chains(ref)
    for _ in range(count):
        if chains and rng.random() < 0.4:
            # a witness for one of the routes, possibly perturbed
            pieces = [fill_segment(rng, seg) for seg in rng.choice(chains)]
            if rng.random() < 0.25:
                pieces[rng.randrange(len(pieces))] = rng.choice(reps)
            if rng.random() < 0.1:
                pieces.append(rng.choice(reps))
            yield '/' + '/'.join(pieces)
            continue
        depth = rng.randint(1, 5)
        yield '/' + '/'.join(rng.choice(reps) for _ in range(depth))


FILL = ['7', '12', 'ab', '4', 'x.y', '8-2', '123', 'q', '20', '6']


def fill_segment(rng, seg):
    if not seg.is_var:
        return seg.raw
    if seg.consumes:
        return '/'.join(rng.choice(FILL) for _ in range(rng.randint(1, 3)))
    return ''.join(p[1] if p[0] == LIT else rng.choice(FILL) for p in seg.parts)


def route_chains(ref):
    chains = []

    def visit(nodes, prefix):
        for node in nodes:
            chain = prefix + [node.seg]
            if node.route is not None:
                chains.append(chain)
            visit(node.children, chain)

    visit(ref.roots, [])
    return chains


class Resource:
    def __init__(self, tag):
        self.tag = tag

    def on_get(self, req, resp, **kwargs):
        pass

    def __repr__(self):
        return 'Resource(%r)' % (self.tag,)


class EvenConverter(_compiled.converters.BaseConverter):
    def convert(self, value):
        if value.isdigit() and int(value) % 2 == 0:
            return ('even', int(value))
        return None


class TailConverter(_compiled.converters.BaseConverter):
    CONSUME_MULTIPLE_SEGMENTS = True

    def convert(self, value):
        return None if 'zz' in value else tuple(value)


def new_router():
    router = CompiledRouter()
    router.options.converters['even'] = EvenConverter
    router.options.converters['tail'] = TailConverter
    return router


class Failure(Exception):
    pass


def compare_lookup(router, ref, uri, history):
    try:
        got = router.find(uri)
    except Exception as ex:  # lookups never fail with an internal error
        raise Failure('find(%r) raised %r after %r' % (uri, ex, history))
    want = ref.find(uri)
    if want is None:
        if got is not None:
            raise Failure(
                'find(%r) = (%r, %r, %r), expected None; history %r'
                % (uri, got[0], got[3], got[2], history)
            )
        return
    (resource, template), params = want
    if got is None:
        raise Failure(
            'find(%r) = None, expected %r %r; history %r' % (uri, template, params, history)
        )
    g_resource, g_map, g_params, g_template = got
    if g_resource is not resource or g_template != template or g_params != params:
        raise Failure(
            'find(%r) = (%r, %r, %r), expected (%r, %r, %r); history %r'
            % (uri, g_resource, g_template, g_params, resource, template, params, history)
        )
    for key, value in params.items():
        if type(g_params[key]) is not type(value):
            raise Failure('find(%r): field %r has type %r' % (uri, key, type(g_params[key])))
    if 'GET' not in g_map:
        raise Failure('find(%r): method map lost' % (uri,))


def run_histories(scenarios, steps, lookups_per_step, seed=SEED):
    rng = random.Random(seed)
    stats = {'adds': 0, 'accepted': 0, 'rejected': 0, 'lookups': 0, 'hits': 0}
    for scenario in range(scenarios):
        router = new_router()
        ref = RefRouter()
        pool = []
        history = []
        for step in range(rng.randint(3, steps)):
            template, segs = gen_template(rng, pool)
            resource = Resource((scenario, step))
            kwargs = {}
            roll = rng.random()
            if roll < 0.3:
                kwargs['compile'] = True
            elif roll < 0.4:
                kwargs['compile'] = False
            expected = ref.add(template, segs, resource)
            try:
                router.add_route(template, resource, **kwargs)
                accepted = True
            except UnacceptableRouteError:
                accepted = False
            except Exception as ex:
                raise Failure('add_route(%r) raised %r after %r' % (template, ex, history))
            history.append((template, kwargs.get('compile'), accepted))
            stats['adds'] += 1
            stats['accepted' if accepted else 'rejected'] += 1
            if accepted != expected:
                raise Failure(
                    'add_route(%r) accepted=%r, expected %r; history %r'
                    % (template, accepted, expected, history)
                )
            if accepted:
                pool.append(segs)
            if rng.random() < 0.25:
                continue  # several adds in a row without a lookup in between
            exhaustive = rng.random() < 0.04
            for uri in gen_paths(rng, ref, lookups_per_step, exhaustive):
                compare_lookup(router, ref, uri, history)
                stats['lookups'] += 1
                if ref.find(uri) is not None:
                    stats['hits'] += 1
            # every accepted template is reachable through a witness path
    return stats


# --------------------------------------------------------------------------
# Specific part: the rules around path-consuming converters in add_route():
#   * a segment that mixes such a field with anything else is refused,
#   * such a field may only be the last segment of a template,
#   * nothing can be added below an existing node of that kind,
# each refusal naming the FIRST offending field of the segment, leaving the
# router exactly as it was.
# --------------------------------------------------------------------------

NO_CHILDREN = (
    'Cannot add route with template "{0}". Field name "{1}" '
    'uses the converter "{2}" that will consume all the path, '
    'making it impossible to match this route.'
)
MIXED = (
    'Cannot use converter "{1}" of variable "{0}" in a template '
    'that includes other characters or variables.'
)


def gen_consuming_template(rng, pool):
    segs = []
    if pool and rng.random() < 0.75:
        base = rng.choice(pool)
        segs = list(base[: rng.randint(0, len(base))])
    roll = rng.random()
    tailf = lambda: Seg([gen_field(rng, force=rng.choice(CONSUMING))])  # noqa
    plain = lambda: rng.choice([  # noqa
        Seg([(LIT, rng.choice(LITERALS))]),
        Seg([gen_field(rng, allow_path=False)]),
        gen_complex(rng),
    ])
    if roll < 0.3:
        # proper use: the consuming field closes the template
        segs += [plain() for _ in range(rng.randint(0, 2))] + [tailf()]
    elif roll < 0.5:
        # consuming field in the middle
        segs += [tailf()] + [plain() for _ in range(rng.randint(1, 2))]
    elif roll < 0.75:
        # mixed into a multi-field segment, at a random position, maybe twice
        fields = [gen_field(rng, allow_path=False) for _ in range(rng.randint(1, 3))]
        for _ in range(rng.randint(1, 2)):
            fields[rng.randrange(len(fields))] = gen_field(rng, force=rng.choice(CONSUMING))
        parts = []
        for f in fields:
            parts += [f, (LIT, rng.choice(GLUE))]
        if rng.random() < 0.5:
            parts.pop()
        if len(parts) == 1:
            parts.insert(0, (LIT, rng.choice(GLUE)))
        mixed = Seg(parts)
        segs += [mixed] if rng.random() < 0.5 else [mixed, plain()]
    else:
        segs += [plain() for _ in range(rng.randint(1, 3))]
    segs = strip_leading_empty(uniquify(rng, segs[:5]))
    return '/' + '/'.join(s.raw for s in segs), segs


def check_consuming_histories(scenarios, seed=SEED + 1):
    rng = random.Random(seed)
    counts = {'adds': 0, 'accepted': 0, 'children': 0, 'mixed': 0, 'other': 0,
              'lookups': 0, 'hits': 0}
    for scenario in range(scenarios):
        router = new_router()
        ref = RefRouter()
        history, pool = [], []
        for step in range(rng.randint(4, 10)):
            template, segs = gen_consuming_template(rng, pool)
            resource = Resource((scenario, step))
            expected = ref.add(template, segs, resource)
            kwargs = {'compile': True} if rng.random() < 0.4 else {}
            message = None
            try:
                router.add_route(template, resource, **kwargs)
                accepted = True
            except UnacceptableRouteError as ex:
                accepted = False
                message = str(ex)
            except Exception as ex:
                raise Failure('add_route(%r) raised %r after %r' % (template, ex, history))
            history.append((template, kwargs, accepted))
            counts['adds'] += 1
            if accepted != expected:
                raise Failure(
                    'add_route(%r) accepted=%r, expected %r; history %r'
                    % (template, accepted, expected, history)
                )
            if accepted:
                counts['accepted'] += 1
                pool.append(segs)
            elif ref.reason is not None:
                rule, field, cname = ref.reason
                counts[rule] += 1
                if rule == 'children':
                    want = NO_CHILDREN.format(template, field, cname)
                else:
                    want = MIXED.format(field, cname)
                if message != want:
                    raise Failure(
                        'add_route(%r) refused with %r, expected %r; history %r'
                        % (template, message, want, history)
                    )
            else:
                counts['other'] += 1
            for uri in gen_paths(rng, ref, 10, exhaustive=rng.random() < 0.03):
                compare_lookup(router, ref, uri, history)
                counts['lookups'] += 1
                counts['hits'] += ref.find(uri) is not None
    for key in ('accepted', 'children', 'mixed'):
        if counts[key] < 200:
            raise Failure('generator too weak: %r' % (counts,))
    return counts


def main():
    try:
        counts = check_consuming_histories(600)
        stats = run_histories(300, 10, 12)
    except Failure as failure:
        print('FAIL: %s' % (failure,))
        return 1
    print('path-consuming histories: %r' % (counts,))
    print('random histories: %r' % (stats,))
    print('elapsed %.1fs' % (time.time() - T0))
    print('PASS')
    return 0


if __name__ == '__main__':
    sys.exit(main())
