"""Generated check for falcon.routing.util.map_http_methods (property C02).

Reference model: for a resource and an optional suffix, the method map holds
exactly the methods M of COMBINED_METHODS for which ``on_<m>[_<suffix>]`` can
be read without AttributeError and is callable, mapped to that very attribute,
in COMBINED_METHODS order; a suffix that maps to nothing raises
SuffixedMethodNotFoundError.  End to end (WSGI and ASGI): implemented method
-> that responder runs (the suffixed one on a suffixed route, never another),
OPTIONS -> 200 + Allow of exactly the implemented methods, anything else ->
405 + Allow of exactly the implemented methods plus OPTIONS.

Run: PYTHONPATH=<falcon tree> python check.py   (cwd anywhere)
"""

import random
import sys
import warnings
import wsgiref.validate

import falcon
import falcon.asgi
from falcon import constants
from falcon import testing
from falcon.routing.util import map_http_methods
from falcon.routing.util import SuffixedMethodNotFoundError

# NOTE: wsgiref's validator does not know the WebDAV verbs; falcon.testing
#   installs an 'error' filter for that warning, so override it (later filters
#   take precedence).
warnings.filterwarnings(
    'ignore', 'Unknown REQUEST_METHOD', wsgiref.validate.WSGIWarning
)

SEED = 20260102
METHODS = list(constants.COMBINED_METHODS)
HTTPISH = [m for m in METHODS if m not in constants._META_METHODS]
SUFFIXES = [None, '', 'a', 'items', 'x_y']

failures = []
cases = 0


def fail(msg):
    failures.append(msg)
    if len(failures) > 20:
        report()


def report():
    for f in failures[:20]:
        print('FAIL', f)
    print('FAIL (%d problems, %d cases)' % (len(failures), cases))
    sys.exit(1)


class CallableObj:
    def __init__(self, tag):
        self.tag = tag

    def __call__(self, req, resp, **kw):  # pragma: no cover - never dispatched
        resp.set_header('X-Tag', self.tag)


def raising_property(name):
    def getter(self):
        raise AttributeError(name)

    return property(getter)


def make_direct_resource(rng):
    """Random class; returns (instance, {attr_name: kind})."""
    ns = {}
    kinds = {}
    for method in METHODS:
        for suffix in ('', 'a', 'items', 'x_y'):
            name = 'on_' + method.lower() + ('_' + suffix if suffix else '')
            kind = rng.choice(
                ['absent'] * 6
                + ['func'] * 3
                + ['static', 'noncallable', 'none', 'raising', 'callobj']
            )
            kinds[name] = kind
            if kind == 'absent':
                continue
            if kind == 'func':

                def f(self, req, resp, **kw):
                    pass

                f.__name__ = name
                ns[name] = f
            elif kind == 'static':
                ns[name] = staticmethod(lambda req, resp, **kw: None)
            elif kind == 'noncallable':
                ns[name] = rng.choice([0, 1, 'get', (), 3.5])
            elif kind == 'none':
                ns[name] = None
            elif kind == 'raising':
                ns[name] = raising_property(name)
            elif kind == 'callobj':
                ns[name] = CallableObj(name)
    cls = type('Res', (object,), ns)
    return cls(), kinds


def check_direct(rng, rounds):
    global cases
    for _ in range(rounds):
        resource, kinds = make_direct_resource(rng)
        for suffix in SUFFIXES:
            cases += 1
            expected = []
            for method in METHODS:
                name = 'on_' + method.lower() + ('_' + suffix if suffix else '')
                if kinds[name] in ('func', 'static', 'callobj'):
                    expected.append(method)
            try:
                got = map_http_methods(resource, suffix)
            except SuffixedMethodNotFoundError:
                if not (suffix and not expected):
                    fail('unexpected SuffixedMethodNotFoundError %r' % (suffix,))
                continue
            if suffix and not expected:
                fail('missing SuffixedMethodNotFoundError %r' % (suffix,))
                continue
            if list(got) != expected:
                fail('keys %r != %r (suffix %r)' % (list(got), expected, suffix))
                continue
            for method in expected:
                name = 'on_' + method.lower() + ('_' + suffix if suffix else '')
                if got[method] != getattr(resource, name):
                    fail('wrong responder for %s suffix %r' % (method, suffix))


def make_app_resource(rng, asgi):
    """Resource with random unsuffixed and '_items' responders tagging themselves."""
    ns = {}
    impl = {'': set(), 'items': set()}
    density = rng.choice([0.0, 0.1, 0.3, 0.6, 1.0])
    for suffix in ('', 'items'):
        for method in HTTPISH:
            if rng.random() >= density:
                continue
            # NOTE: on_version-control is not an identifier, but type() and
            # getattr() do not care; use the exact name falcon reads.
            name = 'on_' + method.lower() + ('_' + suffix if suffix else '')
            tag = method + '/' + suffix
            if asgi:

                def make(tag):
                    async def responder(self, req, resp, **kw):
                        resp.set_header('X-Tag', tag)

                    return responder

            else:

                def make(tag):
                    def responder(self, req, resp, **kw):
                        resp.set_header('X-Tag', tag)

                    return responder

            ns[name] = make(tag)
            impl[suffix].add(method)
    return type('AppRes', (object,), ns)(), impl


def check_apps(rng, rounds):
    global cases
    for i in range(rounds):
        asgi = bool(i % 2)
        resource, impl = make_app_resource(rng, asgi)
        app = falcon.asgi.App() if asgi else falcon.App()
        routes = {}
        # NOTE: a resource without any unsuffixed responder is still routable
        app.add_route('/plain', resource)
        routes['/plain'] = ''
        if impl['items']:
            app.add_route('/items', resource, suffix='items')
            routes['/items'] = 'items'
        else:
            try:
                app.add_route('/items', resource, suffix='items')
            except SuffixedMethodNotFoundError:
                pass
            else:
                fail('suffix without responders was accepted')
        client = testing.TestClient(app)
        for path, suffix in routes.items():
            implemented = sorted(impl[suffix])
            for method in rng.sample(HTTPISH, 8) + ['OPTIONS']:
                cases += 1
                result = client.simulate_request(method, path)
                if method in impl[suffix]:
                    if result.status_code != 200 or result.headers.get('X-Tag') != (
                        method + '/' + suffix
                    ):
                        fail(
                            'asgi=%s %s %s: wrong responder %r %r'
                            % (
                                asgi,
                                method,
                                path,
                                result.status,
                                result.headers.get('X-Tag'),
                            )
                        )
                elif method == 'OPTIONS':
                    want = ', '.join(implemented)
                    if result.status_code != 200 or result.headers.get('Allow') != want:
                        fail(
                            'asgi=%s OPTIONS %s: %r Allow=%r want %r'
                            % (
                                asgi,
                                path,
                                result.status,
                                result.headers.get('Allow'),
                                want,
                            )
                        )
                else:
                    allow = list(implemented)
                    if 'OPTIONS' not in allow:
                        allow.append('OPTIONS')
                    want = ', '.join(allow)
                    if result.status_code != 405 or result.headers.get('Allow') != want:
                        fail(
                            'asgi=%s %s %s: %r Allow=%r want %r'
                            % (
                                asgi,
                                method,
                                path,
                                result.status,
                                result.headers.get('Allow'),
                                want,
                            )
                        )
        cases += 1
        if client.simulate_get('/nowhere').status_code != 404:
            fail('unrouted path is not 404')


def main():
    rng = random.Random(SEED)
    check_direct(rng, 700)
    check_apps(rng, 160)
    if failures:
        report()
    assert cases >= 3000, cases
    print('PASS (%d cases)' % cases)


if __name__ == '__main__':
    main()
