"""Generated check for falcon.routing.util.set_default_responders (property C02).

Reference model: given the explicit method map E of a resource,
  implemented = sorted(E.keys() minus the meta method WEBSOCKET)
  * every explicit entry is left untouched;
  * if OPTIONS is not explicit, map['OPTIONS'] answers 200 with
    Allow == ', '.join(implemented) and Content-Length: 0;
  * every other method of COMBINED_METHODS that is not explicit is mapped to ONE
    shared responder raising HTTPMethodNotAllowed (405) whose Allow header is
    ', '.join(implemented + ['OPTIONS']) when OPTIONS was not explicit and
    ', '.join(implemented) (which then contains OPTIONS) when it was;
  * the answer is the same every time the responder runs.
Then the same through CompiledRouter.add_route()/find() and through complete
WSGI / ASGI apps where a sink and a static route are also configured (a matched
route masks them; an unmatched path falls to the sink; nothing -> 404).

Run: PYTHONPATH=<falcon tree> python check.py   (cwd anywhere)
"""

import random
import sys
import warnings
import wsgiref.validate

import falcon
import falcon.asgi
from falcon import constants
from falcon import testing
from falcon.routing import CompiledRouter
from falcon.routing.util import set_default_responders

# NOTE: wsgiref's validator does not know the WebDAV verbs; falcon.testing
#   installs an 'error' filter for that warning, so override it.
warnings.filterwarnings(
    'ignore', 'Unknown REQUEST_METHOD', wsgiref.validate.WSGIWarning
)

SEED = 20260202
METHODS = list(constants.COMBINED_METHODS)
META = list(constants._META_METHODS)
HTTPISH = [m for m in METHODS if m not in META]

failures = []
cases = 0


def fail(msg):
    failures.append(msg)
    if len(failures) > 20:
        report()


def report():
    for f in failures[:20]:
        print('FAIL', f)
    print('FAIL (%d problems, %d cases)' % (len(failures), cases))
    sys.exit(1)


def run(responder, asgi):
    """Call a default responder; return ('ok', resp) or ('exc', exception)."""
    resp = falcon.asgi.Response() if asgi else falcon.Response()
    try:
        if asgi:
            coro = responder(None, resp)
            try:
                coro.send(None)
            except StopIteration:
                pass
            else:  # pragma: no cover
                coro.close()
                raise RuntimeError('default responder awaited something')
        else:
            responder(None, resp)
    except falcon.HTTPError as ex:
        return 'exc', ex
    return 'ok', resp


def model_allow(explicit):
    implemented = sorted(m for m in explicit if m not in META)
    options_allow = ', '.join(implemented)
    na = list(implemented)
    if 'OPTIONS' not in explicit:
        na.append('OPTIONS')
    return options_allow, ', '.join(na)


def check_direct(rng, rounds):
    global cases
    for i in range(rounds):
        asgi = bool(i % 2)
        density = rng.choice([0.0, 0.05, 0.2, 0.5, 0.9, 1.0])
        explicit = {}
        for method in METHODS:
            if rng.random() < density:
                explicit[method] = object()  # sentinel "responder"
        if rng.random() < 0.15:
            # custom router users may hand in verbs falcon does not know
            explicit[rng.choice(['FOO', 'ZAP', 'BREW', 'aaa'])] = object()
        items = list(explicit.items())
        rng.shuffle(items)  # insertion order must not matter
        method_map = dict(items)
        set_default_responders(method_map, asgi=asgi)
        cases += 1

        options_allow, na_allow = model_allow(explicit)

        for method, sentinel in explicit.items():
            if method_map.get(method) is not sentinel:
                fail('explicit responder for %s was replaced' % method)
        if set(method_map) != set(explicit) | set(METHODS):
            fail('unexpected key set %r' % sorted(method_map))

        na_responders = set()
        for method in METHODS:
            if method in explicit:
                continue
            responder = method_map.get(method)
            if responder is None:
                fail('%s not filled in' % method)
                continue
            if method == 'OPTIONS':
                for _ in range(2):
                    kind, resp = run(responder, asgi)
                    if kind != 'ok':
                        fail('default OPTIONS raised %r' % (resp,))
                        break
                    if (
                        resp.status != falcon.HTTP_200
                        or resp.get_header('Allow') != options_allow
                        or resp.get_header('Content-Length') != '0'
                    ):
                        fail(
                            'OPTIONS: %r Allow=%r want %r'
                            % (resp.status, resp.get_header('Allow'), options_allow)
                        )
                continue
            na_responders.add(responder)
        if len(na_responders) > 1:
            fail('more than one 405 responder')
        for responder in na_responders:
            for _ in range(2):
                kind, ex = run(responder, asgi)
                if kind != 'exc' or not isinstance(ex, falcon.HTTPMethodNotAllowed):
                    fail('405 responder did not raise HTTPMethodNotAllowed')
                    break
                if ex.status != falcon.HTTP_405 or ex.headers.get('Allow') != na_allow:
                    fail(
                        '405: %r Allow=%r want %r'
                        % (ex.status, ex.headers.get('Allow'), na_allow)
                    )


def make_resource(rng, asgi, suffixes):
    ns = {}
    impl = {}
    for suffix in suffixes:
        density = rng.choice([0.05, 0.2, 0.5, 1.0])
        chosen = [m for m in HTTPISH if rng.random() < density] or [
            rng.choice(HTTPISH)
        ]
        impl[suffix] = set(chosen)
        for method in chosen:
            name = 'on_' + method.lower() + ('_' + suffix if suffix else '')
            tag = method + '/' + suffix

            if asgi:

                def make(tag):
                    async def responder(self, req, resp, **kw):
                        resp.set_header('X-Tag', tag)
                        resp.set_header('X-Params', repr(sorted(kw.items())))

                    return responder

            else:

                def make(tag):
                    def responder(self, req, resp, **kw):
                        resp.set_header('X-Tag', tag)
                        resp.set_header('X-Params', repr(sorted(kw.items())))

                    return responder

            ns[name] = make(tag)
    return type('Res', (object,), ns)(), impl


def check_router(rng, rounds):
    global cases
    for i in range(rounds):
        asgi = bool(i % 2)
        resource, impl = make_resource(rng, asgi, ['', 'items'])
        router = CompiledRouter()
        router.add_route('/r/{rid}', resource, _asgi=asgi)
        router.add_route('/r', resource, suffix='items', _asgi=asgi)
        for path, suffix in (('/r/7', ''), ('/r', 'items')):
            cases += 1
            found = router.find(path)
            if found is None or found[0] is not resource:
                fail('router did not find %s' % path)
                continue
            method_map = found[1]
            options_allow, na_allow = model_allow(impl[suffix])
            for method in HTTPISH:
                responder = method_map[method]
                name = 'on_' + method.lower() + ('_' + suffix if suffix else '')
                if method in impl[suffix]:
                    if responder != getattr(resource, name):
                        fail('router: %s %s bound to the wrong responder' % (method, path))
                elif method == 'OPTIONS':
                    kind, resp = run(responder, asgi)
                    if kind != 'ok' or resp.get_header('Allow') != options_allow:
                        fail('router: OPTIONS %s Allow mismatch' % path)
                else:
                    kind, ex = run(responder, asgi)
                    if (
                        kind != 'exc'
                        or not isinstance(ex, falcon.HTTPMethodNotAllowed)
                        or ex.headers.get('Allow') != na_allow
                    ):
                        fail('router: %s %s 405 Allow mismatch' % (method, path))


def check_apps(rng, rounds):
    global cases
    for i in range(rounds):
        asgi = bool(i % 2)
        sbs = rng.random() < 0.5
        resource, impl = make_resource(rng, asgi, ['', 'items'])
        cls = falcon.asgi.App if asgi else falcon.App
        app = cls(sink_before_static_route=sbs)

        if asgi:

            async def sink(req, resp, **kw):
                resp.set_header('X-Tag', 'sink')
                resp.set_header('X-Params', repr(sorted(kw.items())))

        else:

            def sink(req, resp, **kw):
                resp.set_header('X-Tag', 'sink')
                resp.set_header('X-Params', repr(sorted(kw.items())))

        # the sink covers the routed paths too: a matched route must mask it
        app.add_sink(sink, r'/r(?P<rest>.*)')
        app.add_route('/r/{rid}', resource)
        app.add_route('/r', resource, suffix='items')
        client = testing.TestClient(app)
        for path, suffix, params in (
            ('/r/7', '', "[('rid', '7')]"),
            ('/r', 'items', '[]'),
        ):
            options_allow, na_allow = model_allow(impl[suffix])
            for method in rng.sample(HTTPISH, 6) + ['OPTIONS']:
                cases += 1
                result = client.simulate_request(method, path)
                tag = result.headers.get('X-Tag')
                allow = result.headers.get('Allow')
                if method in impl[suffix]:
                    ok = (
                        result.status_code == 200
                        and tag == method + '/' + suffix
                        and result.headers.get('X-Params') == params
                    )
                elif method == 'OPTIONS':
                    ok = (
                        result.status_code == 200
                        and tag is None
                        and allow == options_allow
                    )
                else:
                    ok = (
                        result.status_code == 405 and tag is None and allow == na_allow
                    )
                if not ok:
                    fail(
                        'app asgi=%s %s %s -> %s tag=%r allow=%r (want %r / %r)'
                        % (
                            asgi,
                            method,
                            path,
                            result.status,
                            tag,
                            allow,
                            options_allow,
                            na_allow,
                        )
                    )
        cases += 2
        result = client.simulate_request(rng.choice(HTTPISH), '/r/7/deeper')
        if result.headers.get('X-Tag') != 'sink' or result.headers.get(
            'X-Params'
        ) != "[('rest', '/7/deeper')]":
            fail('unrouted path did not reach the sink with its named group')
        if client.simulate_request(rng.choice(HTTPISH), '/q').status_code != 404:
            fail('path matching nothing is not 404')


def main():
    rng = random.Random(SEED)
    check_direct(rng, 3000)
    check_router(rng, 400)
    check_apps(rng, 150)
    if failures:
        report()
    assert cases >= 3000, cases
    print('PASS (%d cases)' % cases)


if __name__ == '__main__':
    main()
