"""Generated check for App.add_sink / App.add_static_route registration and the
resulting dispatch order (property C02).

Reference model of a whole app (WSGI and ASGI, both sink_before_static_route):
  1. a matching route always wins: the resource responder for the method, else
     the automatic OPTIONS (200, Allow == implemented) or a 405 (Allow ==
     implemented + OPTIONS); route fields arrive as kwargs; a suffixed route only
     reaches suffixed responders;
  2. otherwise the candidates are  LIFO(sinks) + LIFO(static routes)  when
     sink_before_static_route is true and  LIFO(static routes) + LIFO(sinks)
     otherwise; the first candidate that matches the path runs (sink: re.match
     from the start of the path, named groups arrive as kwargs; static route:
     path starts with prefix + '/', or equals the prefix when a fallback file is
     configured);
  3. otherwise 404.
Random interleavings of add_route / add_sink / add_static_route are replayed on
the model and on falcon; after every registration the public falcon.inspect
view and the precomputed dispatch tuple are compared with the model, and then
requests over a pool of paths/methods are simulated and compared.

Run: PYTHONPATH=<falcon tree> python check.py   (cwd anywhere)
"""

import os
import random
import re
import sys
import tempfile
import warnings
import wsgiref.validate

import falcon
import falcon.asgi
import falcon.inspect
from falcon import testing

warnings.filterwarnings(
    'ignore', 'Unknown REQUEST_METHOD', wsgiref.validate.WSGIWarning
)

SEED = 20260302
RES_METHODS = ['GET', 'POST', 'PUT', 'DELETE', 'PATCH']
REQ_METHODS = RES_METHODS + ['OPTIONS', 'HEAD', 'PROPFIND']

LITERAL_TEMPLATES = ['/', '/a', '/a/b', '/s/f.txt', '/t', '/s/sub/f.txt']
FIELD_TEMPLATES = ['/v/{x}', '/w/{x}/{y}']
SINK_PREFIXES = [
    '/',
    '/a',
    '/a/b',
    '/s',
    '/s/sub',
    '/t',
    '/v',
    r'/a/(?P<id>\d+)',
    r'/(?P<first>[a-z]+)/(?P<second>[a-z.]+)',
    r'/w/(?P<x>\d+)',
    '/zzz$',
    re.compile('/A', re.I),
    re.compile(r'/s/(?P<name>[^/]+)$'),
]
STATIC_PREFIXES = ['/s', '/s/sub', '/t', '/a', '/s/']
FILES = ['f.txt', 'sub/f.txt', 'fb.txt', 'b']
PATHS = [
    '/',
    '/a',
    '/a/b',
    '/a/b/c',
    '/a/7',
    '/ab',
    '/s',
    '/s/f.txt',
    '/s/sub/f.txt',
    '/s/sub',
    '/s/missing.txt',
    '/t',
    '/t/f.txt',
    '/t/sub/f.txt',
    '/v/12',
    '/v/zz',
    '/v',
    '/w/1/2',
    '/w/1',
    '/zzz',
    '/zzzz',
    '/A/b',
]

failures = []
cases = 0


def fail(msg):
    failures.append(msg)
    if len(failures) > 20:
        report()


def report():
    for f in failures[:20]:
        print('FAIL', f)
    print('FAIL (%d problems, %d cases)' % (len(failures), cases))
    sys.exit(1)


def make_dirs(root, count):
    dirs = []
    for i in range(count):
        d = os.path.join(root, 'static%d' % i)
        os.makedirs(os.path.join(d, 'sub'))
        for rel in FILES:
            with open(os.path.join(d, rel), 'w') as f:
                f.write('static:%d:%s' % (i, rel))
        dirs.append(d)
    return dirs


def make_resource(rng, asgi, idx, suffix):
    ns = {}
    impl = set(m for m in RES_METHODS if rng.random() < 0.5) or {rng.choice(RES_METHODS)}
    # decoy responders with the *other* suffix convention must never run
    for method in RES_METHODS:
        for sfx in ('', 'alt'):
            if sfx == suffix and method not in impl:
                continue
            real = sfx == suffix
            tag = 'route:%d:%s:%s' % (idx, method, sfx) if real else 'decoy'
            name = 'on_' + method.lower() + ('_' + sfx if sfx else '')

            if asgi:

                def make(tag):
                    async def responder(self, req, resp, **kw):
                        resp.set_header('X-Tag', tag)
                        resp.set_header('X-Params', repr(sorted(kw.items())))

                    return responder

            else:

                def make(tag):
                    def responder(self, req, resp, **kw):
                        resp.set_header('X-Tag', tag)
                        resp.set_header('X-Params', repr(sorted(kw.items())))

                    return responder

            ns[name] = make(tag)
    return type('Res%d' % idx, (object,), ns)(), impl


def make_sink(asgi, idx):
    tag = 'sink:%d' % idx
    if asgi:

        async def sink(req, resp, **kw):
            resp.set_header('X-Tag', tag)
            resp.set_header('X-Params', repr(sorted(kw.items())))

    else:

        def sink(req, resp, **kw):
            resp.set_header('X-Tag', tag)
            resp.set_header('X-Params', repr(sorted(kw.items())))

    sink.__name__ = 'sink_%d' % idx
    return sink


def match_template(template, path):
    """Tiny model of the router for the templates used here."""
    if '{' not in template:
        return {} if path == template else None
    tsegs = template.split('/')[1:]
    psegs = path.split('/')[1:]
    if len(tsegs) != len(psegs):
        return None
    params = {}
    for t, p in zip(tsegs, psegs):
        if t.startswith('{'):
            if not p:
                return None
            params[t[1:-1]] = p
        elif t != p:
            return None
    return params


class Model:
    def __init__(self, sbs):
        self.sbs = sbs
        self.routes = {}  # template -> (idx, suffix, impl)
        self.sinks = []  # in order of registration
        self.statics = []

    def order(self):
        sinks = [('sink',) + s for s in reversed(self.sinks)]
        statics = [('static',) + s for s in reversed(self.statics)]
        return sinks + statics if self.sbs else statics + sinks

    def expect(self, method, path):
        for template, (idx, suffix, impl) in self.routes.items():
            params = match_template(template, path)
            if params is None:
                continue
            implemented = sorted(impl)
            if method in impl:
                return {
                    'status': 200,
                    'tag': 'route:%d:%s:%s' % (idx, method, suffix),
                    'params': repr(sorted(params.items())),
                }
            if method == 'OPTIONS':
                return {'status': 200, 'tag': None, 'allow': ', '.join(implemented)}
            return {
                'status': 405,
                'tag': None,
                'allow': ', '.join(implemented + ['OPTIONS']),
            }

        for entry in self.order():
            if entry[0] == 'sink':
                _, idx, pattern, _func = entry
                m = re.match(pattern, path)
                if m:
                    return {
                        'status': 200,
                        'tag': 'sink:%d' % idx,
                        'params': repr(sorted(m.groupdict().items())),
                    }
            else:
                _, idx, prefix, directory, fallback = entry
                norm = prefix if prefix.endswith('/') else prefix + '/'
                if not (path.startswith(norm) or (fallback and path == norm[:-1])):
                    continue
                if method == 'OPTIONS':
                    return {'status': 200, 'tag': None, 'allow': 'GET'}
                rel = path[len(norm) :]
                if rel in FILES:
                    body = 'static:%d:%s' % (idx, rel)
                elif fallback:
                    body = 'static:%d:%s' % (idx, fallback)
                else:
                    return {'status': 404, 'tag': None}
                return {'status': 200, 'tag': None, 'body': body}
        return {'status': 404, 'tag': None}


def compare_registration(app, model):
    """Public inspect view + the precomputed dispatch tuple vs. the model."""
    global cases
    cases += 1
    sink_infos = falcon.inspect.inspect_sinks(app)
    want_sinks = [
        (p.pattern if hasattr(p, 'pattern') else p, 'sink_%d' % idx)
        for idx, p, _f in reversed(model.sinks)
    ]
    if [(s.prefix, s.name) for s in sink_infos] != want_sinks:
        fail('inspect_sinks order %r != %r' % (sink_infos, want_sinks))
    static_infos = falcon.inspect.inspect_static_routes(app)
    want_static = [
        (p if p.endswith('/') else p + '/', d) for _idx, p, d, _fb in reversed(model.statics)
    ]
    if [(s.prefix, s.directory) for s in static_infos] != want_static:
        fail('inspect_static_routes order %r != %r' % (static_infos, want_static))

    got = []
    for _matcher, obj, is_sink in app._sink_and_static_routes:
        if is_sink:
            got.append(('sink', getattr(obj, '__name__', None)))
        else:
            got.append(('static', obj._directory))
    want = []
    for entry in model.order():
        if entry[0] == 'sink':
            want.append(('sink', 'sink_%d' % entry[1]))
        else:
            want.append(('static', entry[3]))
    if got != want:
        fail('dispatch order %r != %r' % (got, want))


def one_app(rng, i, dirs):
    global cases
    asgi = bool(i % 2)
    sbs = bool((i // 2) % 2)
    cls = falcon.asgi.App if asgi else falcon.App
    app = cls(sink_before_static_route=sbs)
    model = Model(sbs)
    compare_registration(app, model)

    p_route, p_sink, p_static = rng.choice(
        [(1, 1, 1), (1, 3, 3), (0, 1, 1), (3, 1, 1), (1, 4, 0), (1, 0, 4)]
    )
    ops = rng.choices(
        ['route', 'sink', 'static'],
        weights=[p_route, p_sink, p_static],
        k=rng.randint(0, 12),
    )
    for n, op in enumerate(ops):
        if op == 'route':
            template = rng.choice(LITERAL_TEMPLATES + FIELD_TEMPLATES)
            suffix = rng.choice(['', '', 'alt'])
            resource, impl = make_resource(rng, asgi, n, suffix)
            if suffix:
                app.add_route(template, resource, suffix=suffix)
            else:
                app.add_route(template, resource)
            model.routes[template] = (n, suffix, impl)
        elif op == 'sink':
            prefix = rng.choice(SINK_PREFIXES)
            # the '/' catch-all would hide every 404; keep it rare
            if prefix == '/' and rng.random() < 0.7:
                prefix = '/zzz$'
            func = make_sink(asgi, n)
            if rng.random() < 0.2 and prefix == '/':
                app.add_sink(func)  # default prefix
            else:
                app.add_sink(func, prefix)
            model.sinks.append((n, prefix, func))
        else:
            prefix = rng.choice(STATIC_PREFIXES)
            directory = dirs[n]
            fallback = 'fb.txt' if rng.random() < 0.4 else None
            if fallback:
                app.add_static_route(prefix, directory, fallback_filename=fallback)
            else:
                app.add_static_route(prefix, directory)
            model.statics.append((n, prefix, directory, fallback))
        compare_registration(app, model)

    client = testing.TestClient(app)
    # NOTE: favour paths that something answers, so that most cases exercise
    #   the route > sink/static precedence rather than the trivial 404.
    live = [p for p in PATHS if model.expect('GET', p)['status'] != 404]
    chosen = rng.sample(live, min(len(live), 9))
    chosen += rng.sample(PATHS, 12 - len(chosen))
    for path in chosen:
        method = rng.choice(REQ_METHODS) if rng.random() < 0.6 else 'GET'
        cases += 1
        want = model.expect(method, path)
        result = client.simulate_request(method, path)
        problems = []
        if result.status_code != want['status']:
            problems.append('status %s' % result.status)
        if result.headers.get('X-Tag') != want['tag']:
            problems.append('tag %r' % result.headers.get('X-Tag'))
        if 'params' in want and result.headers.get('X-Params') != want['params']:
            problems.append('params %r' % result.headers.get('X-Params'))
        if 'allow' in want and result.headers.get('Allow') != want['allow']:
            problems.append('allow %r' % result.headers.get('Allow'))
        if 'body' in want and method != 'HEAD' and result.text != want['body']:
            problems.append('body %r' % result.text)
        if problems:
            fail(
                'asgi=%s sbs=%s ops=%r %s %s: %s; want %r'
                % (asgi, sbs, ops, method, path, ', '.join(problems), want)
            )


def main():
    rng = random.Random(SEED)
    with tempfile.TemporaryDirectory(prefix='c02check') as root:
        dirs = make_dirs(os.path.realpath(root), 12)
        for i in range(400):
            one_app(rng, i, dirs)
    if failures:
        report()
    assert cases >= 3000, cases
    print('PASS (%d cases)' % cases)


if __name__ == '__main__':
    main()
