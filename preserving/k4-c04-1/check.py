"""Generated check for C04 on the ASGI ``App._handle_exception`` path.

Random exception class hierarchies (single and multiple inheritance, mixing
plain exceptions, HTTPError and HTTPStatus families), random handler
registration orders (with repeats), random handler behaviours (set the
response, raise an HTTPError, raise an HTTPStatus, or the built-in defaults)
and random Accept headers are generated.  Every case is executed

* directly against ``falcon.asgi.App._handle_exception`` (both the HTTP form
  with a Response and the WebSocket form with ``resp=None``/``ws=...``,
  and the "no handler found" form that must return ``False``), and
* through the whole ASGI stack with the exception raised from a random site
  (middleware process_request / process_resource / process_response, a before
  hook, the responder, an after hook),

and compared with an explicit reference model written from the property text:
nearest class in the MRO wins, latest registration per class wins, body set
before the raise is discarded, HTTPError/HTTPStatus raised by the handler is
rendered in turn, other Exceptions become a 500.

Run as:  PYTHONPATH=<falcon tree> python check.py      (prints PASS)
"""

import asyncio
import json
import logging
import random
import sys
from urllib.parse import quote
import xml.etree.ElementTree as ET

import falcon
import falcon.asgi
import falcon.testing as ft

SEED = 20240404
N_HIERARCHIES = 260
DIRECT_PER_HIERARCHY = 12
STACK_PER_HIERARCHY = 6

logging.disable(logging.CRITICAL)

ERROR_CODES = {
    400: '400 Bad Request',
    403: '403 Forbidden',
    404: '404 Not Found',
    409: '409 Conflict',
    410: '410 Gone',
    429: '429 Too Many Requests',
    500: '500 Internal Server Error',
    503: '503 Service Unavailable',
}
STATUS_CODES = {
    200: '200 OK',
    201: '201 Created',
    202: '202 Accepted',
    301: '301 Moved Permanently',
    302: '302 Found',
}
ALPHABET = list('abcXYZ 019<>&"\'/\\;:,=+%{}[]') + [
    'é',
    'ß',
    '日',
    '本',
    '😀',
    '‮',
    '\n',
    '\t',
    'Ω',
    ' ',
]
URL_ALPHABET = list('abc/?#&=._~-:@ %<>"') + ['é', '日', '😀']
TOKEN = 'abcdefghijklmnopqrstuvwxyz0123456789'

# Accept header -> which representation the default serializer must choose
# under the default response options (JSON wins ties; XML is enabled).
ACCEPTS = [
    (None, 'json', 'application/json'),
    ('*/*', 'json', 'application/json'),
    ('application/json', 'json', 'application/json'),
    ('application/xml', 'xml', 'application/xml'),
    ('text/xml', 'xml', 'text/xml'),
    ('application/xml;q=0.5, application/json', 'json', 'application/json'),
    ('application/json;q=0.2, text/xml;q=0.9', 'xml', 'text/xml'),
    ('application/vnd.acme+json', 'json', 'application/json'),
    ('application/vnd.acme+xml', 'xml', 'application/xml'),
    ('text/html', 'none', None),
    ('image/png, text/plain;q=0.3', 'none', None),
]


def rtext(rng, alphabet=ALPHABET, lo=0, hi=12):
    return ''.join(rng.choice(alphabet) for _ in range(rng.randint(lo, hi)))


def rtoken(rng):
    return ''.join(rng.choice(TOKEN) for _ in range(rng.randint(1, 8)))


def _error_init(self, *args, **kwargs):
    falcon.HTTPError.__init__(self, *args, **kwargs)


def _status_init(self, *args, **kwargs):
    falcon.HTTPStatus.__init__(self, *args, **kwargs)


def _plain_init(self, *args):
    Exception.__init__(self, *args)


ROOTS = [Exception, ValueError, LookupError, RuntimeError, falcon.HTTPError,
         falcon.HTTPStatus]


def family(cls):
    if issubclass(cls, falcon.HTTPError):
        return 'error'
    if issubclass(cls, falcon.HTTPStatus):
        return 'status'
    return 'plain'


def gen_hierarchy(rng):
    classes = []
    for i in range(rng.randint(2, 7)):
        pool = ROOTS + classes * 2
        bases = []
        for b in rng.sample(pool, rng.choice([1, 1, 1, 2, 2, 3])):
            if b not in bases:
                bases.append(b)
        fams = {family(b) for b in bases}
        if 'error' in fams and 'status' in fams:
            continue
        init = (
            _error_init
            if 'error' in fams
            else _status_init
            if 'status' in fams
            else _plain_init
        )
        try:
            cls = type('E%d' % i, tuple(bases), {'__init__': init})
        except TypeError:
            # inconsistent MRO or layout conflict: not a valid hierarchy
            continue
        classes.append(cls)
    return classes


def gen_error_fields(rng):
    code = rng.choice(list(ERROR_CODES))
    form = rng.choice(['int', 'line'])
    status = code if form == 'int' else ERROR_CODES[code]
    f = {
        'status': status,
        'status_code': code,
        'title': rng.choice([None, '', rtext(rng, lo=1)]),
        'description': rng.choice([None, '', rtext(rng), rtext(rng, hi=40)]),
        'code': rng.choice([None, 0, rng.randint(-5, 10**6)]),
        'href': rng.choice([None, '', rtext(rng, URL_ALPHABET, 1, 15)]),
        'href_text': rng.choice([None, '', rtext(rng, lo=1)]),
        'headers': None,
    }
    hk = rng.choice(['none', 'dict', 'list'])
    if hk != 'none':
        items = [('X-' + rtoken(rng), rtoken(rng)) for _ in range(rng.randint(0, 3))]
        items = list({k.lower(): (k, v) for k, v in items}.values())
        f['headers'] = dict(items) if hk == 'dict' else items
    return f


def make_error(cls, f):
    return cls(
        f['status'],
        title=f['title'],
        description=f['description'],
        code=f['code'],
        href=f['href'],
        href_text=f['href_text'],
        headers=f['headers'],
    )


def model_error_dict(f):
    d = {'title': f['title'] or ERROR_CODES[f['status_code']]}
    if f['description'] is not None:
        d['description'] = f['description']
    if f['code'] is not None:
        d['code'] = f['code']
    if f['href']:
        d['link'] = {
            'text': f['href_text'] or 'Documentation related to this error',
            'href': quote(f['href'], safe="-._~:/?#[]@!$&'()*+,;="),
            'rel': 'help',
        }
    return d


def model_headers(h):
    if h is None:
        return {}
    items = h.items() if isinstance(h, dict) else h
    return {k.lower(): v for k, v in items}


def gen_status_fields(rng):
    code = rng.choice(list(STATUS_CODES))
    status = code if rng.random() < 0.5 else STATUS_CODES[code]
    f = {
        'status': status,
        'status_code': code,
        'text': rng.choice([None, '', rtext(rng, lo=1)]),
        'headers': None,
    }
    if rng.random() < 0.6:
        items = [('X-' + rtoken(rng), rtoken(rng)) for _ in range(rng.randint(0, 3))]
        items = list({k.lower(): (k, v) for k, v in items}.values())
        f['headers'] = dict(items) if rng.random() < 0.5 else items
    return f


def make_status(cls, f):
    return cls(f['status'], f['headers'], f['text'])


# --------------------------------------------------------------------------
# Expected outcome ("what the client must see")
# --------------------------------------------------------------------------


def expect_error(f, accept_kind, accept_ct):
    return {
        'kind': 'error',
        'status_code': f['status_code'],
        'headers': model_headers(f['headers']),
        'dict': model_error_dict(f),
        'repr': accept_kind,
        'content_type': accept_ct,
    }


def expect_status(f):
    return {
        'kind': 'status',
        'status_code': f['status_code'],
        'headers': model_headers(f['headers']),
        'text': f['text'],
    }


INTERNAL = {
    'status': 500,
    'status_code': 500,
    'title': None,
    'description': None,
    'code': None,
    'href': None,
    'href_text': None,
    'headers': None,
}


def xml_to_dict(data):
    root = ET.fromstring(data)
    assert root.tag == 'error', root.tag
    out = {}
    for child in root:
        if child.tag == 'link':
            out['link'] = {c.tag: (c.text or '') for c in child}
        elif child.tag == 'code':
            out['code'] = int(child.text)
        else:
            out[child.tag] = child.text or ''
    return out


def check_error_body(exp, body, content_type, vary, where):
    assert vary is not None and 'accept' in vary.lower(), (where, 'vary', vary)
    if exp['repr'] == 'json':
        assert content_type == exp['content_type'], (where, content_type)
        assert json.loads(body.decode('utf-8')) == exp['dict'], (where, body, exp)
    elif exp['repr'] == 'xml':
        assert content_type == exp['content_type'], (where, content_type)
        assert body.startswith(b'<?xml version="1.0" encoding="UTF-8"?>'), where
        got = xml_to_dict(body)
        want = dict(exp['dict'])
        # NOTE: XML cannot tell '' from a missing text node; normalise.
        assert got == want, (where, got, want)
    else:
        assert not body, (where, body)


class Registry:
    """Reference model of the handler table."""

    def __init__(self):
        # class -> handler spec; later registrations replace earlier ones
        self.table = {
            Exception: ('default_python',),
            falcon.HTTPError: ('default_error',),
            falcon.HTTPStatus: ('default_status',),
        }

    def register(self, classes, spec):
        for c in classes:
            self.table[c] = spec

    def find(self, cls):
        best = None
        mro = cls.__mro__
        for c, spec in self.table.items():
            if c in mro:
                idx = mro.index(c)
                if best is None or idx < best[0]:
                    best = (idx, spec)
        return None if best is None else best[1]


def make_handler(spec, calls, with_ws):
    """Build an async error handler behaving as described by ``spec``."""
    kind = spec[0]

    async def body(req, resp, ex, params, ws):
        calls.append((spec, ex, params, ws))
        if resp is not None:
            # whatever was set before the raise must already be gone
            assert resp.text is None and resp.data is None and resp.media is None
        if kind == 'set':
            _, hid, status, text, media = spec
            if resp is not None:
                resp.status = status
                resp.set_header('X-Handled-By', str(hid))
                if text is not None:
                    resp.text = text
                elif media is not None:
                    resp.media = media
        elif kind == 'raise_error':
            raise make_error(falcon.HTTPError, spec[2])
        elif kind == 'raise_status':
            raise make_status(falcon.HTTPStatus, spec[2])
        else:  # pragma: no cover
            raise AssertionError(kind)

    if with_ws:

        async def handler(req, resp, ex, params, ws=None):
            await body(req, resp, ex, params, ws)

    else:

        async def handler(req, resp, ex, params):
            await body(req, resp, ex, params, None)

    return handler


def gen_spec(rng, hid):
    k = rng.choice(['set', 'set', 'raise_error', 'raise_status'])
    if k == 'set':
        code = rng.choice([200, 202, 400, 404, 409, 500, 503])
        text = rng.choice([None, rtext(rng, lo=1)])
        media = None
        if text is None and rng.random() < 0.5:
            media = {'m': rtext(rng), 'n': rng.randint(0, 99)}
        return ('set', hid, code, text, media)
    if k == 'raise_error':
        return ('raise_error', hid, gen_error_fields(rng))
    return ('raise_status', hid, gen_status_fields(rng))


def expected_for(spec, raised_fields, accept_kind, accept_ct):
    """What the response must look like, given the chosen handler spec."""
    kind = spec[0]
    if kind == 'default_python':
        return expect_error(INTERNAL, accept_kind, accept_ct)
    if kind == 'default_error':
        return expect_error(raised_fields, accept_kind, accept_ct)
    if kind == 'default_status':
        return expect_status(raised_fields)
    if kind == 'set':
        _, hid, code, text, media = spec
        return {
            'kind': 'set',
            'status_code': code,
            'headers': {'x-handled-by': str(hid)},
            'text': text,
            'media': media,
        }
    if kind == 'raise_error':
        return expect_error(spec[2], accept_kind, accept_ct)
    if kind == 'raise_status':
        return expect_status(spec[2])
    raise AssertionError(kind)


class FakeWS:
    def __init__(self):
        self.closed = []

    async def close(self, code=None):
        self.closed.append(code)


def dirty(rng, resp):
    k = rng.randrange(4)
    if k == 0:
        resp.text = 'JUNK-' + rtext(rng)
    elif k == 1:
        resp.data = b'JUNK-data'
    elif k == 2:
        resp.media = {'JUNK': 1}
    # k == 3: leave it alone


def raise_instance(rng, cls):
    fam = family(cls)
    if fam == 'error':
        f = gen_error_fields(rng)
        return make_error(cls, f), f
    if fam == 'status':
        f = gen_status_fields(rng)
        return make_status(cls, f), f
    return cls(rtext(rng)), None


async def run_hierarchy(rng, stats):
    classes = gen_hierarchy(rng)
    if not classes:
        return
    app = falcon.asgi.App()
    reg = Registry()
    calls = []

    # ---- registrations, in a random order, with repeats ----
    candidates = classes * 2 + [Exception, falcon.HTTPError, falcon.HTTPStatus,
                                ValueError, LookupError]
    for hid in range(rng.randint(0, 8)):
        spec = gen_spec(rng, hid)
        handler = make_handler(spec, calls, with_ws=rng.random() < 0.5)
        if rng.random() < 0.3:
            group = []
            for c in rng.sample(candidates, rng.randint(1, 3)):
                if c not in group:
                    group.append(c)
            arg = rng.choice([tuple, list])(group)
            app.add_error_handler(arg, handler)
            reg.register(group, spec)
        else:
            c = rng.choice(candidates)
            app.add_error_handler(c, handler)
            reg.register([c], spec)

    raisable = classes * 3 + [ValueError, LookupError, RuntimeError, Exception]

    # ---- direct calls ----
    for _ in range(DIRECT_PER_HIERARCHY):
        cls = rng.choice(raisable)
        ex, fields = raise_instance(rng, cls)
        accept, akind, act = rng.choice(ACCEPTS)
        spec = reg.find(type(ex))
        assert spec is not None
        params = {'p': rtoken(rng)}
        del calls[:]
        mode = rng.random()
        if mode < 0.75:
            headers = {} if accept is None else {'Accept': accept}
            req = ft.create_asgi_req(headers=headers)
            resp = falcon.asgi.Response(options=app.resp_options)
            dirty(rng, resp)
            result = await app._handle_exception(req, resp, ex, params)
            assert result is True
            exp = expected_for(spec, fields, akind, act)
            where = ('direct', cls.__mro__, spec[0], accept)
            if spec[0] not in ('default_python', 'default_error', 'default_status'):
                assert len(calls) == 1 and calls[0][0] is spec, where
                assert calls[0][1] is ex and calls[0][2] is params
                assert calls[0][3] is None
            else:
                assert not calls, where
            assert resp.status_code == exp['status_code'], (where, resp.status)
            for k, v in exp['headers'].items():
                assert resp.get_header(k) == v, (where, k, v, resp.headers)
            if exp['kind'] == 'error':
                if exp['repr'] == 'none':
                    assert resp.text is None and resp.data is None, where
                    assert resp.media is None, where
                    assert 'accept' in resp.get_header('vary').lower()
                else:
                    assert resp.text is None and resp.media is None, where
                    check_error_body(
                        exp,
                        resp.data,
                        resp.content_type,
                        resp.get_header('vary'),
                        where,
                    )
            elif exp['kind'] == 'status':
                assert resp.text == exp['text'], (where, resp.text)
                assert resp.data is None and resp.media is None, where
            else:
                assert resp.text == exp['text'], (where, resp.text)
                assert resp.media == exp['media'], (where, resp.media)
                assert resp.data is None, where
            stats['direct'] += 1
        else:
            # WebSocket form: no response object, a ws instead
            ws = FakeWS()
            req = ft.create_asgi_req()
            result = await app._handle_exception(req, None, ex, params, ws=ws)
            assert result is True
            kind = spec[0]
            where = ('ws', cls.__mro__, kind)
            if kind == 'default_python':
                assert ws.closed == [app.ws_options.error_close_code], where
            elif kind == 'default_error':
                assert ws.closed == [3000 + fields['status_code']], where
            elif kind == 'default_status':
                assert ws.closed == [3000 + fields['status_code']], where
            else:
                assert len(calls) == 1 and calls[0][0] is spec, where
                # the ws is passed on only to handlers declaring a ``ws``
                # argument (handlers without it would fail with a TypeError)
                wants_ws = calls[0][3] is not None
                assert calls[0][3] in (None, ws)
                stats['ws_passed' if wants_ws else 'ws_not_passed'] += 1
                if kind == 'set':
                    assert ws.closed == [], where
                else:
                    assert ws.closed == [3000 + spec[2]['status_code']], where
            stats['ws'] += 1

    # ---- no handler at all: must report False and leave ex to the caller ----
    class Stray(BaseException):
        pass

    req = ft.create_asgi_req()
    resp = falcon.asgi.Response(options=app.resp_options)
    dirty(rng, resp)
    del calls[:]
    assert await app._handle_exception(req, resp, Stray(), {}) is False
    assert not calls
    assert resp.text is None and resp.data is None and resp.media is None
    ws = FakeWS()
    assert await app._handle_exception(req, None, Stray(), {}, ws=ws) is False
    assert ws.closed == [] and not calls
    stats['unhandled'] += 2

    # ---- whole stack ----
    plan = {}

    def trigger(site, req, resp=None):
        case = plan.get(req.get_header('X-Case'))
        if case is not None and case['site'] == site:
            if resp is not None:
                dirty(case['rng'], resp)
            raise case['ex']

    class MW:
        async def process_request(self, req, resp):
            trigger('mw_request', req, resp)

        async def process_resource(self, req, resp, resource, params):
            trigger('mw_resource', req, resp)

        async def process_response(self, req, resp, resource, ok):
            trigger('mw_response', req, resp)

    async def before(req, resp, resource, params):
        trigger('before', req, resp)

    async def after(req, resp, resource):
        trigger('after', req, resp)

    class Res:
        @falcon.before(before)
        @falcon.after(after)
        async def on_get(self, req, resp, **params):
            resp.text = 'JUNK-ok'
            trigger('responder', req, resp)

    app.add_middleware(MW())
    app.add_route('/r/{p}', Res())

    async with ft.ASGIConductor(app) as conductor:
        for n in range(STACK_PER_HIERARCHY):
            cls = rng.choice(raisable)
            ex, fields = raise_instance(rng, cls)
            accept, akind, act = rng.choice(ACCEPTS)
            site = rng.choice(
                ['mw_request', 'mw_resource', 'mw_response', 'before', 'responder',
                 'after']
            )
            plan.clear()
            plan[str(n)] = {'site': site, 'ex': ex, 'rng': random.Random(n)}
            spec = reg.find(type(ex))
            exp = expected_for(spec, fields, akind, act)
            headers = {'X-Case': str(n)}
            if accept is not None:
                headers['Accept'] = accept
            del calls[:]
            result = await conductor.simulate_get('/r/v', headers=headers)
            where = ('stack', site, cls.__mro__, spec[0], accept)
            assert result.status_code == exp['status_code'], (where, result.status)
            for k, v in exp['headers'].items():
                assert result.headers.get(k) == v, (where, k, v, result.headers)
            if spec[0] not in ('default_python', 'default_error', 'default_status'):
                assert len(calls) == 1 and calls[0][1] is ex, where
            assert b'JUNK' not in result.content, (where, result.content)
            if exp['kind'] == 'error':
                ct = result.headers.get('content-type')
                if exp['repr'] == 'none':
                    assert result.content == b'', where
                    assert 'accept' in result.headers.get('vary').lower()
                else:
                    check_error_body(
                        exp, result.content, ct, result.headers.get('vary'), where
                    )
            elif exp['kind'] == 'status':
                assert result.content == (exp['text'] or '').encode('utf-8'), where
            else:
                if exp['text'] is not None:
                    assert result.content == exp['text'].encode('utf-8'), where
                elif exp['media'] is not None:
                    assert json.loads(result.content) == exp['media'], where
                else:
                    assert result.content == b'', where
            stats['stack'] += 1


async def main():
    rng = random.Random(SEED)
    stats = dict.fromkeys(
        ['direct', 'ws', 'stack', 'unhandled', 'ws_passed', 'ws_not_passed'], 0
    )
    for _ in range(N_HIERARCHIES):
        await run_hierarchy(rng, stats)
    total = stats['direct'] + stats['ws'] + stats['stack'] + stats['unhandled']
    assert total >= 3000, stats
    assert stats['ws_passed'] > 20 and stats['ws_not_passed'] > 20, stats
    return stats, total


if __name__ == '__main__':
    stats, total = asyncio.run(main())
    print('cases: %d %r' % (total, stats))
    print('PASS')
    sys.exit(0)
