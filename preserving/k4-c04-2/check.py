"""Generated check for C04 on the default HTTPError rendering path
(``falcon.app_helpers.default_serialize_error`` and what it delegates to).

For random response configurations (XML error serialization on/off, JSON
handler present / replaced / removed, extra media handlers registered in a
random order), random HTTPError (sub)class instances with arbitrary unicode
title / description / code / href / headers and random Accept headers
(q-values, wildcards, vendor ``+json`` / ``+xml`` suffixes, upper case,
malformed values), the rendered error is compared with an explicit reference
model written from the property text and RFC 9110 content negotiation:

* the most specific matching media range decides the quality of each
  representation the app can produce; the best quality wins, JSON wins ties,
  then XML, then the configured media types in registration order;
* if nothing is acceptable, a ``+json`` / ``+xml`` suffix still selects JSON /
  XML; otherwise there is no body;
* the body is a faithful encoding of title/description/code/link, the status
  and headers are those of the error, and ``Vary: Accept`` is always present.

The serializer is exercised directly (WSGI and ASGI request/response types),
through ``App._compose_error_response`` and through the whole WSGI and ASGI
stacks.

Run as:  PYTHONPATH=<falcon tree> python check.py      (prints PASS)
"""

import asyncio
import functools
import json
import logging
import random
import sys
from urllib.parse import quote
from urllib.parse import urlencode
import xml.etree.ElementTree as ET

import falcon
import falcon.app_helpers
import falcon.asgi
import falcon.media
import falcon.testing as ft

SEED = 4042
N_CONFIGS = 150
DIRECT_PER_CONFIG = 22
WSGI_STACK_PER_CONFIG = 6
ASGI_STACK_PER_CONFIG = 4

logging.disable(logging.CRITICAL)

JSON = 'application/json'
XML = 'application/xml'
TEXT_XML = 'text/xml'
TAG = 'application/x-tag'
URLENC = 'application/x-www-form-urlencoded'
MULTIPART = 'multipart/form-data'

ERROR_CODES = {
    400: '400 Bad Request',
    403: '403 Forbidden',
    404: '404 Not Found',
    409: '409 Conflict',
    410: '410 Gone',
    429: '429 Too Many Requests',
    500: '500 Internal Server Error',
    503: '503 Service Unavailable',
}
SPECIFIC = [
    (falcon.HTTPBadRequest, 400),
    (falcon.HTTPForbidden, 403),
    (falcon.HTTPNotFound, 404),
    (falcon.HTTPConflict, 409),
    (falcon.HTTPGone, 410),
    (falcon.HTTPInternalServerError, 500),
]
ALPHABET = list('abcXYZ 019<>&"\'/\\;:,=+%{}[]') + [
    'é',
    'ß',
    '日',
    '本',
    '😀',
    '‮',
    '\n',
    '\t',
    'Ω',
    ' ',
]
URL_ALPHABET = list('abc/?#&=._~-:@ %<>"') + ['é', '日', '😀']
TOKEN = 'abcdefghijklmnopqrstuvwxyz0123456789'

RANGE_TYPES = [
    JSON,
    JSON,
    XML,
    XML,
    TEXT_XML,
    TAG,
    URLENC,
    'text/html',
    'text/plain',
    'image/png',
    'application/vnd.acme+json',
    'application/vnd.acme+xml',
    'application/VND.ACME+JSON',
    'Application/Vnd.Acme+XML',
    'application/*',
    'text/*',
    'image/*',
    '*/*',
    '*/*',
]
QVALUES = [None, None, None, '0', '0.0', '0.1', '0.3', '0.5', '0.8', '0.9', '1', '1.0']
MALFORMED = [
    'garbage',
    'vnd.acme+json',
    'vnd.acme+xml',
    'application/json;q=2',
    'application/json;q=-1',
    'text/xml;q=abc',
    'application/xml;q=nan',
    'nothing, application/json',
    'application/json, +xml',
]


def rtext(rng, alphabet=ALPHABET, lo=0, hi=12):
    return ''.join(rng.choice(alphabet) for _ in range(rng.randint(lo, hi)))


def rtoken(rng):
    return ''.join(rng.choice(TOKEN) for _ in range(rng.randint(1, 8)))


# --------------------------------------------------------------------------
# Accept headers and the negotiation model
# --------------------------------------------------------------------------


def gen_accept(rng):
    """Return (header value or None, parsed ranges or None if malformed)."""
    r = rng.random()
    if r < 0.07:
        return None, [('*', '*', 1.0)]
    if r < 0.17:
        return rng.choice(MALFORMED), None
    parts = []
    ranges = []
    for _ in range(rng.randint(1, 4)):
        mt = rng.choice(RANGE_TYPES)
        q = rng.choice(QVALUES)
        if q is None:
            parts.append(mt)
        else:
            parts.append(mt + rng.choice([';q=', '; q=', ' ;q=', ';Q=']) + q)
        t, s = mt.split('/')
        ranges.append((t, s, 1.0 if q is None else float(q)))
    sep = rng.choice([',', ', ', ' , '])
    return sep.join(parts), ranges


def model_quality(media_type, ranges):
    t, s = media_type.split('/')
    best = None
    for rt, rs, q in ranges:
        if rt == '*':
            spec = 0
        elif rt != t:
            continue
        elif rs == '*':
            spec = 1
        elif rs != s:
            continue
        else:
            spec = 2
        if best is None or (spec, q) > best:
            best = (spec, q)
    return 0.0 if best is None else best[1]


def model_preferred(accept, ranges, xml_on, handler_types):
    offered = [JSON, TEXT_XML, XML] if xml_on else [JSON]
    offered = offered + [mt for mt in handler_types if mt not in offered]
    chosen = None
    if ranges is not None:
        best_q = 0.0
        for mt in offered:
            q = model_quality(mt, ranges)
            if q > best_q:
                best_q = q
                chosen = mt
    if chosen is None:
        text = (accept or '*/*').lower()
        if '+json' in text:
            chosen = JSON
        elif '+xml' in text:
            chosen = XML
    return chosen


# --------------------------------------------------------------------------
# Errors and their model
# --------------------------------------------------------------------------


def gen_error(rng):
    f = {
        'title': rng.choice([None, '', rtext(rng, lo=1)]),
        'description': rng.choice([None, '', rtext(rng), rtext(rng, hi=40)]),
        'code': rng.choice([None, 0, rng.randint(-5, 10**6)]),
        'href': rng.choice([None, '', rtext(rng, URL_ALPHABET, 1, 15)]),
        'href_text': rng.choice([None, '', rtext(rng, lo=1)]),
        'headers': None,
    }
    hk = rng.choice(['none', 'dict', 'list'])
    if hk != 'none':
        items = [('X-' + rtoken(rng), rtoken(rng)) for _ in range(rng.randint(0, 3))]
        items = list({k.lower(): (k, v) for k, v in items}.values())
        f['headers'] = dict(items) if hk == 'dict' else items
    kwargs = dict(f)
    if rng.random() < 0.5:
        code = rng.choice(list(ERROR_CODES))
        status = code if rng.random() < 0.5 else ERROR_CODES[code]
        base = falcon.HTTPError
        if rng.random() < 0.4:
            base = type('MyError', (falcon.HTTPError,), {})
        err = base(status, **kwargs)
    else:
        cls, code = rng.choice(SPECIFIC)
        if rng.random() < 0.4:
            cls = type('My' + cls.__name__, (cls,), {})
        err = cls(**kwargs)
    f['status_code'] = code
    return err, f


def model_error_dict(f):
    d = {'title': f['title'] or ERROR_CODES[f['status_code']]}
    if f['description'] is not None:
        d['description'] = f['description']
    if f['code'] is not None:
        d['code'] = f['code']
    if f['href']:
        d['link'] = {
            'text': f['href_text'] or 'Documentation related to this error',
            'href': quote(f['href'], safe="-._~:/?#[]@!$&'()*+,;="),
            'rel': 'help',
        }
    return d


def model_headers(h):
    if h is None:
        return {}
    items = h.items() if isinstance(h, dict) else h
    return {k.lower(): v for k, v in items}


def xml_to_dict(data):
    assert data.startswith(b'<?xml version="1.0" encoding="UTF-8"?>'), data
    root = ET.fromstring(data)
    assert root.tag == 'error', root.tag
    out = {}
    for child in root:
        if child.tag == 'link':
            assert [c.tag for c in child] == ['text', 'href', 'rel']
            out['link'] = {c.tag: (c.text or '') for c in child}
        elif child.tag == 'code':
            out['code'] = int(child.text)
        else:
            out[child.tag] = child.text or ''
    return out


# --------------------------------------------------------------------------
# Configurations
# --------------------------------------------------------------------------


class PrefixHandler(falcon.media.BaseHandler):
    """A media handler with a recognisable, reversible output."""

    def __init__(self, prefix):
        self.prefix = prefix

    def serialize(self, media, content_type=None):
        return self.prefix + json.dumps(media, sort_keys=True).encode('utf-8')

    def deserialize(self, stream, content_type, content_length):  # pragma: no cover
        raise NotImplementedError


def gen_config(rng):
    cfg = {
        'xml_on': rng.random() < 0.6,
        'json': rng.choice(['default', 'default', 'custom', 'dropped']),
        'extra': [],
    }
    extra = []
    if rng.random() < 0.5:
        extra.append((TAG, b'TAG:'))
    if rng.random() < 0.35:
        extra.append((XML, b'XH:'))
    if rng.random() < 0.25:
        extra.append((TEXT_XML, b'TXH:'))
    rng.shuffle(extra)
    cfg['extra'] = extra
    return cfg


def apply_config(app, cfg):
    app.resp_options.xml_error_serialization = cfg['xml_on']
    handlers = app.resp_options.media_handlers
    if cfg['json'] == 'custom':
        handlers[JSON] = falcon.media.JSONHandler(
            dumps=functools.partial(json.dumps, sort_keys=True, ensure_ascii=True)
        )
    elif cfg['json'] == 'dropped':
        handlers.pop(JSON)
    for mt, prefix in cfg['extra']:
        handlers[mt] = PrefixHandler(prefix)
    return list(handlers)


def expected_outcome(cfg, handler_types, accept, ranges, f):
    """Return the model of what the serializer must leave on the response."""
    preferred = model_preferred(accept, ranges, cfg['xml_on'], handler_types)
    d = model_error_dict(f)
    prefixes = dict(cfg['extra'])
    if preferred is None:
        return {'how': 'none', 'content_type': None, 'dict': d}
    if preferred == JSON:
        return {'how': 'json', 'content_type': JSON, 'dict': d}
    if preferred in handler_types:
        return {
            'how': 'media',
            'content_type': preferred,
            'dict': d,
            'prefix': prefixes.get(preferred),
        }
    if cfg['xml_on']:
        return {'how': 'xml', 'content_type': preferred, 'dict': d}
    # e.g. a ``+xml`` vendor type, XML rendering disabled and no XML handler
    return {'how': 'empty', 'content_type': preferred, 'dict': d}


def check_response_object(exp, resp, where):
    vary = resp.get_header('vary')
    assert vary is not None and 'accept' in vary.lower().split(', '), (where, vary)
    how = exp['how']
    assert resp.text is None, where
    if how == 'none':
        assert resp.data is None and resp.media is None, where
        assert resp.get_header('content-type') is None, where
    elif how == 'json':
        assert resp.media is None, where
        assert json.loads(resp.data.decode('utf-8')) == exp['dict'], (where, resp.data)
        assert resp.content_type == exp['content_type'], where
    elif how == 'media':
        assert resp.data is None, where
        assert resp.media == exp['dict'], (where, resp.media)
        assert type(resp.media) is dict, where
        assert resp.content_type == exp['content_type'], where
    elif how == 'xml':
        assert resp.media is None, where
        assert xml_to_dict(resp.data) == exp['dict'], (where, resp.data)
        assert resp.content_type == exp['content_type'], where
    else:
        assert resp.data is None and resp.media is None, where
        assert resp.content_type == exp['content_type'], where


def check_wire(exp, f, result, where):
    assert result.status_code == f['status_code'], (where, result.status)
    for k, v in model_headers(f['headers']).items():
        assert result.headers.get(k) == v, (where, k, v)
    vary = result.headers.get('vary')
    assert vary is not None and 'accept' in vary.lower(), (where, vary)
    how = exp['how']
    body = result.content
    ct = result.headers.get('content-type')
    if how in ('none', 'empty'):
        assert body == b'', (where, body)
        if how == 'empty':
            assert ct == exp['content_type'], (where, ct)
    elif how == 'json':
        assert ct == JSON, (where, ct)
        assert json.loads(body.decode('utf-8')) == exp['dict'], (where, body)
    elif how == 'xml':
        assert ct == exp['content_type'], (where, ct)
        assert xml_to_dict(body) == exp['dict'], (where, body)
    else:
        assert ct == exp['content_type'], (where, ct)
        if exp['prefix'] is not None:
            assert body.startswith(exp['prefix']), (where, body)
            got = json.loads(body[len(exp['prefix']):].decode('utf-8'))
            assert got == exp['dict'], (where, body)
        elif exp['content_type'] == URLENC:
            assert body == urlencode(exp['dict'], doseq=True).encode(), (where, body)
        else:  # pragma: no cover
            raise AssertionError(('unexpected media type', where))


async def run_config(rng, stats):
    cfg = gen_config(rng)
    wsgi_app = falcon.App()
    asgi_app = falcon.asgi.App()
    handler_types = apply_config(wsgi_app, cfg)
    assert apply_config(asgi_app, cfg) == handler_types

    # ---- direct ----
    for n in range(DIRECT_PER_CONFIG):
        err, f = gen_error(rng)
        accept, ranges = gen_accept(rng)
        exp = expected_outcome(cfg, handler_types, accept, ranges, f)
        headers = {} if accept is None else {'Accept': accept}
        flavour = rng.choice(['wsgi', 'asgi'])
        if flavour == 'wsgi':
            app = wsgi_app
            req = ft.create_req(headers=headers)
            resp = falcon.Response(options=app.resp_options)
        else:
            app = asgi_app
            req = ft.create_asgi_req(headers=headers)
            resp = falcon.asgi.Response(options=app.resp_options)
        where = ('direct', flavour, cfg, accept, exp['how'])
        if rng.random() < 0.5:
            assert falcon.app_helpers.default_serialize_error(req, resp, err) is None
        else:
            app._compose_error_response(req, resp, err)
            assert resp.status_code == f['status_code'], where
            for k, v in model_headers(f['headers']).items():
                assert resp.get_header(k) == v, (where, k, v)
        check_response_object(exp, resp, where)
        stats['direct'] += 1
        stats['how_' + exp['how']] += 1

    # ---- whole stack ----
    plan = {}

    class WsgiRes:
        def on_get(self, req, resp):
            resp.text = 'JUNK'
            raise plan['err']

    class AsgiRes:
        async def on_get(self, req, resp):
            resp.media = {'JUNK': 1}
            raise plan['err']

    wsgi_app.add_route('/e', WsgiRes())
    asgi_app.add_route('/e', AsgiRes())
    client = ft.TestClient(wsgi_app)

    def next_case():
        while True:
            err, f = gen_error(rng)
            accept, ranges = gen_accept(rng)
            exp = expected_outcome(cfg, handler_types, accept, ranges, f)
            if exp['how'] == 'media' and exp['content_type'] == MULTIPART:
                # the multipart handler cannot serialize; out of scope here
                continue
            headers = {} if accept is None else {'Accept': accept}
            plan['err'] = err
            return f, accept, exp, headers

    for n in range(WSGI_STACK_PER_CONFIG):
        f, accept, exp, headers = next_case()
        result = client.simulate_get('/e', headers=headers)
        check_wire(exp, f, result, ('wsgi-stack', cfg, accept, exp['how']))
        stats['wsgi_stack'] += 1

    async with ft.ASGIConductor(asgi_app) as conductor:
        for n in range(ASGI_STACK_PER_CONFIG):
            f, accept, exp, headers = next_case()
            result = await conductor.simulate_get('/e', headers=headers)
            check_wire(exp, f, result, ('asgi-stack', cfg, accept, exp['how']))
            stats['asgi_stack'] += 1


async def main():
    rng = random.Random(SEED)
    keys = ['direct', 'wsgi_stack', 'asgi_stack']
    keys += ['how_' + h for h in ('none', 'json', 'media', 'xml', 'empty')]
    stats = dict.fromkeys(keys, 0)
    for _ in range(N_CONFIGS):
        await run_config(rng, stats)
    total = stats['direct'] + stats['wsgi_stack'] + stats['asgi_stack']
    assert total >= 3000, stats
    for h in ('none', 'json', 'media', 'xml', 'empty'):
        assert stats['how_' + h] >= 15, stats
    return stats, total


if __name__ == '__main__':
    stats, total = asyncio.run(main())
    print('cases: %d %r' % (total, stats))
    print('PASS')
    sys.exit(0)
