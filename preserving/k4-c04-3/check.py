"""Generated check for C04 on the WSGI ``App.add_error_handler`` path.

Random exception class hierarchies are combined with random registration
histories.  Every registration uses a freshly generated handler whose
*signature* is random (argument names drawn from pools around the documented
``(req, resp, ex, params)`` order and the deprecated ``(ex, req, resp,
params)`` order, ``*args`` forms, bound methods, callable objects, ``handle``
static methods picked up from the exception class) and whose exception
argument is a class, a tuple/list/generator of classes, or an invalid value.

The reference model, written from the documentation of ``add_error_handler``:

* a handler whose first argument is named e/err/error/ex/exception, or whose
  2nd and 3rd arguments are named req,resp or request,response, is an
  old-style handler: it is still accepted, a DeprecatedWarning is emitted and
  it receives ``(ex, req, resp, params)``; every other handler receives
  ``(req, resp, ex, params)`` and no warning is emitted;
* the latest registration per class wins, registrations made before an
  invalid member of an iterable was met persist, invalid members raise
  TypeError, a missing handler raises AttributeError;
* a raised exception goes to the handler registered for the nearest class in
  its MRO, with the body set so far discarded; HTTPError / HTTPStatus raised by
  the handler are rendered in turn; the defaults render HTTPError, HTTPStatus
  and turn any other Exception into a 500.

Run as:  PYTHONPATH=<falcon tree> python check.py      (prints PASS)
"""

import io
import json
import logging
import random
import sys
import warnings

import falcon
import falcon.testing as ft
from falcon.util.deprecation import DeprecatedWarning

SEED = 30303
N_HIERARCHIES = 320
RAISES_PER_HIERARCHY = 10

logging.disable(logging.CRITICAL)

OLD_FIRST = ('e', 'err', 'error', 'ex', 'exception')
OLD_PAIRS = (('req', 'resp'), ('request', 'response'))

FIRST_POOL = list(OLD_FIRST) + [
    'req',
    'request',
    'r',
    'a',
    'E',
    'Ex',
    'EX',
    'exc',
    '_ex',
    'ex_',
    'errors',
    'éx',
    'х',  # cyrillic
    'exception_',
    'resp',
]
MID_POOL = [
    'req',
    'resp',
    'request',
    'response',
    'Req',
    'Resp',
    'rq',
    'rs',
    'ex',
    'b',
    'c',
    'reqq',
    'respönse',
    'params',
]
LAST_POOL = ['params', 'p', 'kw', 'ex', 'exception', 'd', 'resp']

ROOTS = [Exception, ValueError, LookupError, RuntimeError, falcon.HTTPError,
         falcon.HTTPStatus]
TOKEN = 'abcdefghijklmnopqrstuvwxyz0123456789'


def rtoken(rng):
    return ''.join(rng.choice(TOKEN) for _ in range(rng.randint(1, 8)))


def _error_init(self, *args, **kwargs):
    falcon.HTTPError.__init__(self, *args, **kwargs)


def _status_init(self, *args, **kwargs):
    falcon.HTTPStatus.__init__(self, *args, **kwargs)


def _plain_init(self, *args):
    Exception.__init__(self, *args)


def family(cls):
    if issubclass(cls, falcon.HTTPError):
        return 'error'
    if issubclass(cls, falcon.HTTPStatus):
        return 'status'
    return 'plain'


def gen_hierarchy(rng):
    classes = []
    for i in range(rng.randint(2, 7)):
        pool = ROOTS + classes * 2
        bases = []
        for b in rng.sample(pool, rng.choice([1, 1, 1, 2, 2, 3])):
            if b not in bases:
                bases.append(b)
        fams = {family(b) for b in bases}
        if 'error' in fams and 'status' in fams:
            continue
        init = (
            _error_init
            if 'error' in fams
            else _status_init
            if 'status' in fams
            else _plain_init
        )
        try:
            cls = type('E%d' % i, tuple(bases), {'__init__': init})
        except TypeError:
            continue
        classes.append(cls)
    return classes


# --------------------------------------------------------------------------
# Handlers with generated signatures
# --------------------------------------------------------------------------


def model_is_old_style(names):
    """``names``: the handler's named arguments (no *args/**kwargs, no self)."""
    if len(names) >= 1 and names[0] in OLD_FIRST:
        return True
    if len(names) >= 3 and (names[1], names[2]) in OLD_PAIRS:
        return True
    return False


def gen_names(rng):
    while True:
        n = rng.choice([0, 1, 2, 3, 4, 4, 4, 4, 4])
        names = []
        if n >= 1:
            names.append(rng.choice(FIRST_POOL))
        if n >= 2:
            names.append(rng.choice(MID_POOL))
        if n >= 3:
            names.append(rng.choice(MID_POOL))
        if n >= 4:
            names.append(rng.choice(LAST_POOL))
        if rng.random() < 0.25 and n == 4:
            # the canonical orders, so that they are well represented
            names = list(
                rng.choice(
                    [
                        ('req', 'resp', 'ex', 'params'),
                        ('ex', 'req', 'resp', 'params'),
                        ('request', 'response', 'exception', 'params'),
                        ('exception', 'request', 'response', 'params'),
                        ('a', 'req', 'resp', 'params'),
                        ('a', 'request', 'response', 'd'),
                        ('a', 'req', 'response', 'd'),
                        ('a', 'request', 'resp', 'd'),
                        ('req', 'ex', 'resp', 'params'),
                    ]
                )
            )
        if len(set(names)) == len(names):
            return names


def build_handler(rng, names, sink, spec):
    """Create a callable with the given named args (+ *rest if fewer than 4).

    ``sink(received_tuple)`` is called with the four positional values and
    then behaves as told by ``spec``.
    """
    shape = rng.choice(['function', 'function', 'method', 'callable', 'kwonly'])
    params = list(names)
    args_expr = '(' + ''.join(n + ', ' for n in names) + ')'
    if len(names) < 4:
        params.append('*rest')
        args_expr += ' + rest'
    if shape == 'kwonly' and len(names) == 4:
        params.append('*')
        params.append('extra_=None')
    elif shape == 'kwonly':
        shape = 'function'
    ns = {'sink': sink}
    if shape in ('function', 'kwonly'):
        src = 'def handler(%s):\n    sink(%s)\n' % (', '.join(params), args_expr)
        exec(src, ns)
        return ns['handler'], shape
    if shape == 'method':
        src = (
            'class Holder:\n'
            '    def handler(self, %s):\n'
            '        sink(%s)\n' % (', '.join(params), args_expr)
        )
        exec(src, ns)
        return ns['Holder']().handler, shape
    src = (
        'class Holder:\n'
        '    def __call__(self, %s):\n'
        '        sink(%s)\n' % (', '.join(params), args_expr)
    )
    exec(src, ns)
    obj = ns['Holder']()
    # functools.wraps() in the shim wants these on old-style handlers
    obj.__name__ = 'holder'
    obj.__qualname__ = 'Holder.holder'
    return obj, shape


def gen_spec(rng, hid):
    k = rng.choice(['set', 'set', 'raise_error', 'raise_status'])
    if k == 'set':
        return ('set', hid, rng.choice([200, 202, 400, 404, 409, 500, 503]),
                'handled-by-%d-%s' % (hid, rtoken(rng)))
    if k == 'raise_error':
        return ('raise_error', hid, rng.choice([400, 403, 404, 409, 410, 503]),
                'T' + rtoken(rng) + 'é日', rng.choice([None, 'D<&>' + rtoken(rng)]))
    return ('raise_status', hid, rng.choice([200, 201, 202, 302]),
            rng.choice([None, 'S' + rtoken(rng) + 'ß']))


class Registry:
    def __init__(self):
        self.table = {
            Exception: ('default_python',),
            falcon.HTTPError: ('default_error',),
            falcon.HTTPStatus: ('default_status',),
        }

    def find(self, cls):
        best = None
        mro = cls.__mro__
        for c, spec in self.table.items():
            if c in mro:
                idx = mro.index(c)
                if best is None or idx < best[0]:
                    best = (idx, spec)
        return None if best is None else best[1]


def run_hierarchy(rng, stats):
    classes = gen_hierarchy(rng)
    if not classes:
        return
    app = falcon.App()
    reg = Registry()
    calls = []

    def make_sink(spec, old_style):
        def sink(received):
            assert len(received) == 4, received
            if old_style:
                ex, req, resp, params = received
            else:
                req, resp, ex, params = received
            # each value must have arrived in the position the handler's
            # signature style promises
            assert isinstance(req, falcon.Request), received
            assert isinstance(resp, falcon.Response), received
            assert isinstance(ex, BaseException), received
            assert isinstance(params, dict), received
            assert resp.text is None and resp.data is None and resp.media is None
            calls.append((spec, ex, params))
            kind = spec[0]
            if kind == 'set':
                resp.status = spec[2]
                resp.text = spec[3]
            elif kind == 'raise_error':
                raise falcon.HTTPError(spec[2], title=spec[3], description=spec[4])
            else:
                raise falcon.HTTPStatus(spec[2], {'X-Via': str(spec[1])}, spec[3])

        return sink

    candidates = classes * 2 + [Exception, falcon.HTTPError, falcon.HTTPStatus,
                                ValueError, LookupError]

    for hid in range(rng.randint(1, 9)):
        spec = gen_spec(rng, hid)
        names = gen_names(rng)
        old = model_is_old_style(names)
        handler, shape = build_handler(rng, names, make_sink(spec, old), spec)
        mode = rng.random()
        if mode < 0.55:
            target = rng.choice(candidates)
            arg, valid_prefix, fails = target, [target], None
        elif mode < 0.85:
            group = []
            for c in rng.sample(candidates, rng.randint(1, 4)):
                if c not in group:
                    group.append(c)
            form = rng.choice(['tuple', 'list', 'gen'])
            arg = (
                tuple(group)
                if form == 'tuple'
                else list(group)
                if form == 'list'
                else (c for c in group)
            )
            valid_prefix, fails = group, None
        elif mode < 0.95:
            # an iterable with an invalid member somewhere
            group = []
            for c in rng.sample(candidates, rng.randint(0, 3)):
                if c not in group:
                    group.append(c)
            bad = rng.choice([int, str, dict, object])
            pos = rng.randint(0, len(group))
            arg = group[:pos] + [bad] + group[pos:]
            valid_prefix, fails = group[:pos], TypeError
        else:
            arg, valid_prefix, fails = rng.choice([int, object]), [], TypeError

        with warnings.catch_warnings(record=True) as caught:
            warnings.simplefilter('always')
            try:
                app.add_error_handler(arg, handler)
            except Exception as e:
                assert fails is not None and type(e) is fails, (names, arg, e)
            else:
                assert fails is None, (names, arg)
        deprecations = [w for w in caught if issubclass(w.category, DeprecatedWarning)]
        assert len(deprecations) == (1 if old else 0), (names, shape, old, caught)
        for c in valid_prefix:
            reg.table[c] = spec
        stats['registrations'] += 1
        stats['old' if old else 'new'] += 1

    # a handler taken from the exception class' ``handle`` static method
    if rng.random() < 0.5:
        hid = 100
        spec = gen_spec(rng, hid)
        names = gen_names(rng)
        old = model_is_old_style(names)
        fn, _ = build_handler(rng, names, make_sink(spec, old), spec)
        holder = rng.choice(classes)
        owner = type('WithHandle', (holder,), {'handle': staticmethod(fn)})
        classes.append(owner)
        with warnings.catch_warnings(record=True) as caught:
            warnings.simplefilter('always')
            app.add_error_handler(owner)
        deprecations = [w for w in caught if issubclass(w.category, DeprecatedWarning)]
        assert len(deprecations) == (1 if old else 0), (names, old)
        reg.table[owner] = spec
        stats['registrations'] += 1
        stats['handle_attr'] += 1
    else:
        try:
            app.add_error_handler(rng.choice([ValueError] + classes[:1]))
        except AttributeError:
            stats['registrations'] += 1
        else:
            raise AssertionError('a missing handler must be rejected')

    # ---- the implementation's table must agree with the model's ----
    assert set(app._error_handlers) == set(reg.table), (
        app._error_handlers.keys(),
        reg.table.keys(),
    )

    # ---- raise and compare ----
    plan = {}

    class Res:
        def on_get(self, req, resp, p):
            resp.text = 'JUNK'
            raise plan['ex']

    app.add_route('/r/{p}', Res())
    client = ft.TestClient(app)
    raisable = classes * 3 + [ValueError, LookupError, RuntimeError, Exception]
    for _ in range(RAISES_PER_HIERARCHY):
        cls = rng.choice(raisable)
        fam = family(cls)
        if fam == 'error':
            fields = (rng.choice([400, 404, 409, 503]), 'RT' + rtoken(rng))
            ex = cls(fields[0], title=fields[1])
        elif fam == 'status':
            fields = (rng.choice([200, 201, 202]), 'RS' + rtoken(rng))
            ex = cls(fields[0], None, fields[1])
        else:
            fields = None
            ex = cls(rtoken(rng))
        plan['ex'] = ex
        spec = reg.find(type(ex))
        del calls[:]
        result = client.simulate_get('/r/v', wsgierrors=io.StringIO())
        where = (cls.__mro__, spec)
        kind = spec[0]
        assert b'JUNK' not in result.content, where
        if kind.startswith('default_'):
            assert not calls, where
        else:
            assert len(calls) == 1 and calls[0][0] is spec, where
            assert calls[0][1] is ex and calls[0][2] == {'p': 'v'}, where
        if kind == 'default_python':
            assert result.status_code == 500, where
            assert result.json == {'title': '500 Internal Server Error'}, where
        elif kind == 'default_error':
            assert result.status_code == fields[0], where
            assert result.json == {'title': fields[1]}, where
            assert 'accept' in result.headers['vary'].lower(), where
        elif kind == 'default_status':
            assert result.status_code == fields[0], where
            assert result.text == fields[1], where
        elif kind == 'set':
            assert result.status_code == spec[2], where
            assert result.text == spec[3], where
        elif kind == 'raise_error':
            want = {'title': spec[3]}
            if spec[4] is not None:
                want['description'] = spec[4]
            assert result.status_code == spec[2], where
            assert json.loads(result.content.decode('utf-8')) == want, where
            assert 'accept' in result.headers['vary'].lower(), where
        else:
            assert result.status_code == spec[2], where
            assert result.headers['x-via'] == str(spec[1]), where
            assert result.content == (spec[3] or '').encode('utf-8'), where
        stats['raises'] += 1


def main():
    rng = random.Random(SEED)
    stats = dict.fromkeys(
        ['registrations', 'old', 'new', 'handle_attr', 'raises'], 0
    )
    for _ in range(N_HIERARCHIES):
        run_hierarchy(rng, stats)
    assert stats['registrations'] + stats['raises'] >= 3000, stats
    assert stats['old'] >= 200 and stats['new'] >= 200, stats
    return stats


if __name__ == '__main__':
    stats = main()
    print('cases: %d %r' % (stats['registrations'] + stats['raises'], stats))
    print('PASS')
    sys.exit(0)
