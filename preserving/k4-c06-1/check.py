"""Generated check for falcon.asgi.Request.netloc (C06: WSGI/ASGI equivalence).

Builds several thousand ASGI connection scopes (with/without Host header,
with/without/None 'server', every scheme incl. absent, http + websocket
scope types) and compares ``req.netloc`` (and the properties derived from it:
``forwarded_host``, ``prefix``, ``uri``) with

  * an explicit reference model written from the documented behaviour, and
  * the WSGI ``falcon.Request`` built from the equivalent PEP-3333 environ.

Additionally the scopes/environs produced by ``falcon.testing.create_scope``
and ``falcon.testing.create_environ`` for the same simulated request must
yield the same netloc on both sides.
"""

import random
import sys

import falcon
import falcon.asgi
from falcon import testing

SEED = 0xC06_0001
N_RAW = 6000
N_SIM = 2500

HOSTS = [
    'example.com',
    'localhost',
    '127.0.0.1',
    '[::1]',
    '[2001:db8::1]',
    'falconframework.org',
    'a.b-c.d',
    'xn--bcher-kva.example',
    'h\xf6st.example',  # latin-1 only
]
PORTS = [80, 443, 8000, 8080, 8443, 1, 65535, 0, 81, 444]


async def _receive():  # pragma: no cover - never awaited
    return {'type': 'http.disconnect'}


def model_netloc(scheme, is_ws, host_header, server):
    """Reference: Host header verbatim, else server addr minus default port."""
    if host_header is not None:
        return host_header
    if scheme is None:
        scheme = 'ws' if is_ws else 'http'
    secure = scheme in ('https', 'wss')
    default_port = 443 if secure else 80
    if server is None:
        return 'localhost'  # ('localhost', default_port) -> port elided
    name, port = server
    if port == default_port:
        return name
    return '{}:{}'.format(name, port)


def gen_host_header(rng):
    host = rng.choice(HOSTS)
    r = rng.random()
    if r < 0.4:
        return host
    if r < 0.9:
        return '{}:{}'.format(host, rng.choice(PORTS))
    return rng.choice(['', ':', 'weird host', host + ':', host + ':abc'])


def raw_cases(rng):
    failures = 0
    for i in range(N_RAW):
        is_ws = rng.random() < 0.25
        if is_ws:
            scheme = rng.choice(['ws', 'wss', None])
        else:
            scheme = rng.choice(['http', 'https', None])

        host_header = gen_host_header(rng) if rng.random() < 0.5 else None
        server_mode = rng.choice(['tuple', 'list', 'iter', 'none', 'absent'])
        server = None
        if server_mode in ('tuple', 'list', 'iter'):
            server = (rng.choice(HOSTS[:7]), rng.choice(PORTS))

        headers = []
        if rng.random() < 0.5:
            headers.append((b'accept', b'*/*'))
        if host_header is not None:
            headers.append((b'host', host_header.encode('latin1')))
        if rng.random() < 0.3:
            headers.append((b'x-other', b'1'))

        path = rng.choice(['/', '/a', '/a/b', '/x%20y'])
        qs = rng.choice([b'', b'a=1', b'a=1&b=2'])
        root_path = rng.choice(['', '/api', '/v1/x'])
        scope = {
            'type': 'websocket' if is_ws else 'http',
            'asgi': {'version': '3.0', 'spec_version': '2.1'},
            'http_version': '1.1',
            'path': path,
            'raw_path': path.encode(),
            'query_string': qs,
            'root_path': root_path,
            'headers': iter(headers) if rng.random() < 0.5 else headers,
        }
        if not is_ws:
            scope['method'] = rng.choice(['GET', 'POST', 'PUT'])
        if scheme is not None:
            scope['scheme'] = scheme
        if server_mode == 'tuple':
            scope['server'] = server
        elif server_mode == 'list':
            scope['server'] = list(server)
        elif server_mode == 'iter':
            scope['server'] = iter(server)
        elif server_mode == 'none':
            scope['server'] = None

        req = falcon.asgi.Request(scope, _receive)
        expected = model_netloc(scheme, is_ws, host_header, server)

        got = req.netloc
        got_again = req.netloc  # cached server tuple, forward-only iterables
        eff_scheme = scheme or ('ws' if is_ws else 'http')
        ok = (
            got == expected
            and got_again == expected
            and type(got) is str
            and req.forwarded_host == expected
            and req.prefix == '{}://{}{}'.format(eff_scheme, expected, root_path)
            and req.uri
            == '{}://{}{}{}{}'.format(
                eff_scheme,
                expected,
                root_path,
                path,
                ('?' + qs.decode()) if qs else '',
            )
        )

        # WSGI twin (only where PEP-3333 can express the same connection)
        if ok and not is_ws and server is not None and scheme is not None:
            env = {
                'REQUEST_METHOD': scope['method'],
                'SCRIPT_NAME': root_path,
                'PATH_INFO': path,
                'QUERY_STRING': qs.decode(),
                'SERVER_NAME': server[0],
                'SERVER_PORT': str(server[1]),
                'SERVER_PROTOCOL': 'HTTP/1.1',
                'wsgi.url_scheme': scheme,
                'wsgi.input': None,
                'wsgi.errors': sys.stderr,
            }
            if host_header is not None:
                env['HTTP_HOST'] = host_header
            wreq = falcon.Request(env)
            ok = (
                wreq.netloc == got
                and wreq.forwarded_host == req.forwarded_host
                and wreq.prefix == req.prefix
                and wreq.uri == req.uri
            )

        if not ok:
            failures += 1
            if failures <= 5:
                print(
                    'MISMATCH raw #{}: scheme={!r} ws={} host={!r} server={!r}/{} '
                    'got={!r} expected={!r}'.format(
                        i, scheme, is_ws, host_header, server, server_mode, got, expected
                    )
                )
    return failures


def sim_cases(rng):
    """Same simulated request through create_scope() and create_environ()."""
    failures = 0
    for i in range(N_SIM):
        scheme = rng.choice(['http', 'https'])
        host = rng.choice(HOSTS[:8])
        port = rng.choice([None] + PORTS[:7] + PORTS[8:])
        http_version = rng.choice(['1.0', '1.1', '2'])
        # NOTE: an explicit Host header in ``headers`` is deliberately not
        #   generated here: create_scope() appends its own host header after
        #   the caller's, which is outside the code under test.
        extra = {}
        if rng.random() < 0.3:
            extra['X-Forwarded-Host'] = gen_host_header(rng).strip() or 'fwd.example'
        kwargs = dict(
            path=rng.choice(['/', '/things', '/a/b/']),
            query_string=rng.choice(['', 'x=1']),
            scheme=scheme,
            host=host,
            port=port,
            http_version=http_version,
            root_path=rng.choice(['', '/app']),
            headers=dict(extra) or None,
        )
        env = testing.create_environ(**kwargs)
        scope = testing.create_scope(**kwargs)
        wreq = falcon.Request(env)
        areq = falcon.asgi.Request(scope, _receive)

        eff_port = port if port is not None else (443 if scheme == 'https' else 80)
        default = 443 if scheme == 'https' else 80
        if eff_port == default:
            expected = host
        else:
            expected = '{}:{}'.format(host, eff_port)

        ok = (
            areq.netloc == expected
            and wreq.netloc == expected
            and areq.uri == wreq.uri
            and areq.prefix == wreq.prefix
            and areq.forwarded_host == wreq.forwarded_host
            and areq.forwarded_host == extra.get('X-Forwarded-Host', expected)
            and areq.port == wreq.port
            and areq.host == wreq.host
        )
        if not ok:
            failures += 1
            if failures <= 5:
                print(
                    'MISMATCH sim #{}: {!r} asgi={!r} wsgi={!r} expected={!r}'.format(
                        i, kwargs, areq.netloc, wreq.netloc, expected
                    )
                )
    return failures


def main():
    rng = random.Random(SEED)
    failures = raw_cases(rng) + sim_cases(rng)
    if failures:
        print('FAIL ({} mismatches)'.format(failures))
        return 1
    print('PASS')
    return 0


if __name__ == '__main__':
    sys.exit(main())
