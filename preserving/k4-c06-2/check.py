"""Generated check for falcon.Request.access_route / remote_addr (WSGI side).

C06: the same request must yield the same access route on the WSGI request,
on the ASGI request, and through falcon.testing's simulated requests.

For several thousand generated combinations of Forwarded / X-Forwarded-For /
X-Real-IP headers (well-formed, malformed, IPv6, with ports, bad ports that
make parse_host() raise) and remote addresses (present / absent) the check
compares

  * falcon.Request(env).access_route with an explicit reference model,
  * the whole access HISTORY (first access, second access, object identity of
    the cached list, the state left behind after a ValueError) with the
    model and with falcon.asgi.Request on the twin connection scope,
  * WSGI app vs ASGI app driven by falcon.testing.simulate_get().
"""

import json
import random
import sys

import falcon
import falcon.asgi
from falcon import testing

SEED = 0xC06_0002
N_DIRECT = 8000
N_SIM = 250

ADDRS = [
    '10.0.0.1',
    '192.0.2.43',
    '198.51.100.17',
    '203.0.113.60',
    '127.0.0.1',
    'unknown',
    '_hidden',
    '_SEVKISEK',
    'proxy.example',
]
ADDRS6 = ['2001:db8:cafe::17', '::1', 'fe80::1']


async def _receive():  # pragma: no cover - never awaited
    return {'type': 'http.disconnect'}


# ---------------------------------------------------------------------------
# Generators (every value comes with the model's view of it)
# ---------------------------------------------------------------------------


def gen_forwarded(rng):
    """Return (header value, list of per-hop model results).

    A per-hop model result is the host string expected in the route, None if
    the hop contributes nothing (no for=), or the ValueError class if parsing
    that hop's node must fail.
    """
    n_hops = rng.choice([0, 1, 1, 2, 3, 4])
    elements = []
    model = []
    for _ in range(n_hops):
        pairs = []
        kind = rng.random()
        if kind < 0.12:
            # no for= at all
            model.append(None)
        elif kind < 0.55:
            addr = rng.choice(ADDRS)
            if rng.random() < 0.3:
                port = rng.choice(['80', '4711', '65535'])
                pairs.append('for="{}:{}"'.format(addr, port))
            elif rng.random() < 0.5:
                pairs.append('for={}'.format(addr))
            else:
                pairs.append('For="{}"'.format(addr))
            model.append(addr)
        elif kind < 0.85:
            addr = rng.choice(ADDRS6)
            if rng.random() < 0.5:
                pairs.append('for="[{}]:{}"'.format(addr, rng.choice(['1', '8080'])))
            else:
                pairs.append('for="[{}]"'.format(addr))
            model.append(addr)
        else:
            # node with a non-numeric port: parse_host() raises ValueError
            addr = rng.choice(ADDRS[:5])
            if rng.random() < 0.5:
                pairs.append('for="{}:{}"'.format(addr, rng.choice(['abc', '', '8o'])))
            else:
                pairs.append('for="[::1]:{}"'.format(rng.choice(['x', '', '1 2'])))
            model.append(ValueError)

        if rng.random() < 0.4:
            pairs.append('proto={}'.format(rng.choice(['http', 'https'])))
        if rng.random() < 0.3:
            pairs.append('by=203.0.113.43')
        if rng.random() < 0.3:
            pairs.append('host=example.com')
        rng.shuffle(pairs)
        elements.append(rng.choice([';', '; ']).join(pairs))

    # a hop without any pair does not produce a Forwarded element at all
    value_parts = []
    model_out = []
    for element, m in zip(elements, model):
        if not element:
            continue
        value_parts.append(element)
        model_out.append(m)
    return rng.choice([',', ', ']).join(value_parts), model_out


def gen_xff(rng):
    n = rng.choice([0, 1, 1, 2, 3, 5])
    parts = []
    for _ in range(n):
        addr = rng.choice(ADDRS + ADDRS6 + ['', 'h\xf6st'])
        pad_l = rng.choice(['', ' ', '  '])
        pad_r = rng.choice(['', ' '])
        parts.append(pad_l + addr + pad_r)
    value = ','.join(parts)
    return value, [p.strip() for p in value.split(',')]


def model_history(fwd_model, xff_model, real_ip, remote_addr):
    """Model of two consecutive reads of req.access_route.

    Returns (first, second) where each is a list or the ValueError class.
    """
    remote = remote_addr if remote_addr is not None else '127.0.0.1'

    if fwd_model is not None:
        route = []
        for m in fwd_model:
            if m is ValueError:
                # The list being cached is published before the hops are
                # parsed, so a failing hop leaves the partial list behind.
                return ValueError, list(route)
            if m is not None:
                route.append(m)
    elif xff_model is not None:
        route = list(xff_model)
    elif real_ip is not None:
        route = [real_ip]
    else:
        route = []

    if route:
        if route[-1] != remote:
            route.append(remote)
    else:
        route = [remote]
    return route, route


def observe(req):
    out = []
    objs = []
    for _ in range(2):
        try:
            r = req.access_route
        except ValueError:
            out.append(ValueError)
            objs.append(None)
        else:
            out.append(list(r))
            objs.append(r)
    same_obj = objs[0] is objs[1] if objs[0] is not None else None
    return out[0], out[1], same_obj


def gen_case(rng):
    fwd = xff = real_ip = None
    fwd_model = xff_model = None
    r = rng.random()
    if r < 0.45:
        fwd, fwd_model = gen_forwarded(rng)
    if rng.random() < 0.45:
        xff, xff_model = gen_xff(rng)
    if rng.random() < 0.35:
        real_ip = rng.choice(ADDRS + ADDRS6)
    remote_addr = rng.choice(ADDRS[:5] + ADDRS6[:1] + [None, None])
    # make "last element equals the remote address" a common event
    if remote_addr is not None and rng.random() < 0.3:
        if xff is not None and fwd is None:
            xff = xff + (',' if xff else '') + remote_addr
            xff_model = [p.strip() for p in xff.split(',')]
        elif real_ip is not None and fwd is None and xff is None:
            real_ip = remote_addr
    return fwd, fwd_model, xff, xff_model, real_ip, remote_addr


def direct_cases(rng):
    failures = 0
    for i in range(N_DIRECT):
        fwd, fwd_model, xff, xff_model, real_ip, remote_addr = gen_case(rng)
        expected = model_history(fwd_model, xff_model, real_ip, remote_addr)

        env = {
            'REQUEST_METHOD': 'GET',
            'SCRIPT_NAME': '',
            'PATH_INFO': '/',
            'QUERY_STRING': '',
            'SERVER_NAME': 'localhost',
            'SERVER_PORT': '80',
            'SERVER_PROTOCOL': 'HTTP/1.1',
            'HTTP_HOST': 'localhost',
            'wsgi.url_scheme': 'http',
            'wsgi.input': None,
            'wsgi.errors': sys.stderr,
        }
        headers = [(b'host', b'localhost')]
        if fwd is not None:
            env['HTTP_FORWARDED'] = fwd
            headers.append((b'forwarded', fwd.encode('latin1')))
        if xff is not None:
            env['HTTP_X_FORWARDED_FOR'] = xff
            headers.append((b'x-forwarded-for', xff.encode('latin1')))
        if real_ip is not None:
            env['HTTP_X_REAL_IP'] = real_ip
            headers.append((b'x-real-ip', real_ip.encode('latin1')))
        if remote_addr is not None:
            env['REMOTE_ADDR'] = remote_addr
        rng.shuffle(headers)

        scope = {
            'type': 'http',
            'asgi': {'version': '3.0'},
            'http_version': '1.1',
            'method': 'GET',
            'scheme': 'http',
            'path': '/',
            'query_string': b'',
            'root_path': '',
            'headers': headers,
            'server': ('localhost', 80),
        }
        if remote_addr is not None:
            scope['client'] = (remote_addr, 50000)

        wreq = falcon.Request(env)
        areq = falcon.asgi.Request(scope, _receive)
        w1, w2, w_same = observe(wreq)
        a1, a2, a_same = observe(areq)

        ok = (w1, w2) == expected and (a1, a2) == (w1, w2) and w_same == a_same
        if ok and w1 is not ValueError:
            ok = (
                w_same is True
                and wreq.remote_addr == (remote_addr or '127.0.0.1')
                and wreq.access_route[-1] == wreq.remote_addr
                and areq.remote_addr == wreq.remote_addr
            )
        # a fresh request reading remote_addr first must not change the route
        if ok:
            wreq2 = falcon.Request(dict(env))
            ra = wreq2.remote_addr
            ok = observe(wreq2)[:2] == expected and ra == (remote_addr or '127.0.0.1')

        if not ok:
            failures += 1
            if failures <= 5:
                print(
                    'MISMATCH direct #{}: fwd={!r} xff={!r} real={!r} remote={!r}\n'
                    '   wsgi={!r}\n   asgi={!r}\n  model={!r}'.format(
                        i, fwd, xff, real_ip, remote_addr, (w1, w2), (a1, a2), expected
                    )
                )
    return failures


class RouteResource:
    def on_get(self, req, resp):
        resp.media = {'route': req.access_route, 'remote': req.remote_addr}


class RouteResourceAsync:
    async def on_get(self, req, resp):
        resp.media = {'route': req.access_route, 'remote': req.remote_addr}


def sim_cases(rng):
    wsgi_app = falcon.App()
    wsgi_app.add_route('/', RouteResource())
    asgi_app = falcon.asgi.App()
    asgi_app.add_route('/', RouteResourceAsync())

    failures = 0
    done = 0
    while done < N_SIM:
        fwd, fwd_model, xff, xff_model, real_ip, remote_addr = gen_case(rng)
        expected, _ = model_history(fwd_model, xff_model, real_ip, remote_addr)
        if expected is ValueError:
            continue  # error histories are covered by direct_cases()
        # the simulated header values are stripped by the test helpers
        if xff is not None and xff != xff.strip():
            continue
        if (xff is not None and 'h\xf6st' in xff) or fwd == '' or xff == '':
            continue
        done += 1
        headers = {}
        if fwd is not None:
            headers['Forwarded'] = fwd
        if xff is not None:
            headers['X-Forwarded-For'] = xff
        if real_ip is not None:
            headers['X-Real-IP'] = real_ip

        results = []
        for app in (wsgi_app, asgi_app):
            res = testing.simulate_get(
                app, '/', headers=dict(headers), remote_addr=remote_addr
            )
            results.append((res.status_code, json.loads(res.text)))

        want = (200, {'route': expected, 'remote': expected[-1]})
        if results[0] != want or results[1] != want:
            failures += 1
            if failures <= 5:
                print(
                    'MISMATCH sim: headers={!r} remote={!r}\n  wsgi={!r}\n  asgi={!r}\n'
                    '  want={!r}'.format(headers, remote_addr, results[0], results[1], want)
                )
    return failures


def main():
    rng = random.Random(SEED)
    failures = direct_cases(rng) + sim_cases(rng)
    if failures:
        print('FAIL ({} mismatches)'.format(failures))
        return 1
    print('PASS')
    return 0


if __name__ == '__main__':
    sys.exit(main())
