"""Generated check for falcon.testing's WSGI header injection.

C06: driving a WSGI app through falcon.testing must show the application the
same request headers as the ASGI app sees for the same simulated request
(repeated and differently-cased names folded into one comma-joined value,
singleton headers replaced, values stripped, None -> '').

The code under test is falcon.testing.helpers._add_headers_to_environ(),
reached through the public create_environ() / simulate_request().  For several
thousand generated header collections (dicts and lists of pairs) the check
compares

  * the CGI variables of the produced environ with an explicit reference model,
  * falcon.Request(env).headers_lower with falcon.asgi.Request(scope).headers
    for the scope that create_scope() builds from the same arguments,
  * the headers echoed by a WSGI app and an ASGI app under simulate_request().
"""

import json
import random
import sys

import falcon
import falcon.asgi
from falcon import testing

SEED = 0xC06_0003
N_ENV = 6000
N_PAIR = 4000
N_SIM = 200

SINGLETONS = {
    'content-length',
    'content-type',
    'cookie',
    'expect',
    'from',
    'host',
    'max-forwards',
    'referer',
    'user-agent',
}

BASE_NAMES = [
    'Accept',
    'Accept-Language',
    'X-Custom',
    'X-Custom-Two',
    'Forwarded',
    'X-Forwarded-For',
    'If-None-Match',
    'Range',
    'Content-Type',
    'Content-Length',
    'Content-Encoding',
    'Content-Typ',
    'Cookie',
    'Expect',
    'From',
    'Host',
    'Max-Forwards',
    'Referer',
    'User-Agent',
    'Authorization',
]
VALUES = [
    'a',
    'b, c',
    'text/plain',
    'application/json; charset=utf-8',
    '42',
    '0',
    '',
    '   ',
    'W/"abc", "def"',
    'bytes=0-5',
    'for=1.2.3.4;proto=https',
    'x=1; y=2',
    'caf\xe9',
    'None',
]


async def _receive():  # pragma: no cover - never awaited
    return {'type': 'http.disconnect'}


def recase(rng, name):
    r = rng.random()
    if r < 0.4:
        return name
    if r < 0.6:
        return name.lower()
    if r < 0.8:
        return name.upper()
    return ''.join(c.upper() if rng.random() < 0.5 else c.lower() for c in name)


def gen_headers(rng, with_underscores, avoid=()):
    """Return a list of (name, value) pairs (names may repeat)."""
    n = rng.choice([0, 1, 2, 3, 4, 6, 9])
    pairs = []
    pool = [b for b in BASE_NAMES if b.lower() not in avoid]
    hot = rng.sample(pool, k=min(len(pool), rng.choice([1, 2, 3, 5])))
    for _ in range(n):
        name = rng.choice(hot) if rng.random() < 0.7 else rng.choice(pool)
        name = recase(rng, name)
        if with_underscores and rng.random() < 0.15:
            name = name.replace('-', '_')
        r = rng.random()
        if r < 0.1:
            value = None
        else:
            value = rng.choice(VALUES)
            if rng.random() < 0.3:
                value = rng.choice([' ', '\t', '  ']) + value + rng.choice(['', ' ', '\t '])
        pairs.append((name, value))
    return pairs


def cgi_name(name):
    key = name.upper().replace('-', '_')
    if key == 'CONTENT_TYPE' or key == 'CONTENT_LENGTH':
        return key
    return 'HTTP_' + key


def model_environ_headers(base, pairs):
    """Reference: group per CGI variable, then fold each group left to right."""
    groups = {}
    order = []
    for key, value in base.items():
        groups[key] = [(None, value)]
        order.append(key)
    for name, value in pairs:
        key = cgi_name(name)
        if key not in groups:
            groups[key] = []
            order.append(key)
        groups[key].append((name.lower(), '' if value is None else value.strip()))

    out = {}
    for key in order:
        items = groups[key]
        acc = items[0][1]
        for lname, value in items[1:]:
            if lname in SINGLETONS:
                acc = value  # a singleton replaces whatever was there
            else:
                acc = acc + ',' + value
        out[key] = acc
    if 'HTTP_USER_AGENT' not in out:
        out['HTTP_USER_AGENT'] = 'falcon-client/' + falcon.__version__
    return out


def header_vars(env):
    return {
        k: v
        for k, v in env.items()
        if k.startswith('HTTP_') or k in ('CONTENT_TYPE', 'CONTENT_LENGTH')
    }


def env_cases(rng):
    failures = 0
    for i in range(N_ENV):
        pairs = gen_headers(rng, with_underscores=True)
        as_dict = rng.random() < 0.3
        if as_dict:
            headers = dict(pairs)  # distinct spellings may still collide
            pairs = list(headers.items())
        else:
            headers = list(pairs) if rng.random() < 0.7 else tuple(pairs)
        if not pairs and rng.random() < 0.5:
            headers = None

        http_version = rng.choice(['1.0', '1.1', '2'])
        scheme = rng.choice(['http', 'https'])
        port = rng.choice([None, 80, 443, 8080])
        host = rng.choice(['falconframework.org', 'example.com'])
        body = rng.choice(['', '', 'x', 'hello world', '{"a": 1}'])
        method = rng.choice(['GET', 'POST', 'OPTIONS'])
        cookies = rng.choice([None, None, {'a': '1'}, {'a': '1', 'b': 'two'}])

        base = {}
        if http_version != '1.0':
            eff_port = port if port is not None else (443 if scheme == 'https' else 80)
            default = 443 if scheme == 'https' else 80
            base['HTTP_HOST'] = host if eff_port == default else '{}:{}'.format(host, eff_port)
        if body:
            base['CONTENT_LENGTH'] = str(len(body.encode()))
        if cookies is not None and method != 'OPTIONS':
            base['HTTP_COOKIE'] = '; '.join('{}={}'.format(k, v) for k, v in cookies.items())

        expected = model_environ_headers(base, pairs)
        env = testing.create_environ(
            path='/',
            headers=headers,
            http_version=http_version,
            scheme=scheme,
            host=host,
            port=port,
            body=body,
            method=method,
            cookies=cookies,
        )
        got = header_vars(env)
        ok = got == expected and all(type(v) is str for v in got.values())
        if ok:
            # what the application sees
            req = falcon.Request(env)
            ok = req.headers_lower == {
                (k[5:] if k.startswith('HTTP_') else k).replace('_', '-').lower(): v
                for k, v in expected.items()
            }
        if not ok:
            failures += 1
            if failures <= 5:
                print(
                    'MISMATCH env #{}: headers={!r} base={!r}\n   got={!r}\n  want={!r}'.format(
                        i, headers, base, got, expected
                    )
                )
    return failures


# Headers that create_scope() itself appends after the caller's (so that the
# caller's copy loses there); they are outside the code under test.
SCOPE_OWNED = ('host', 'content-length', 'cookie')


def pair_cases(rng):
    """create_environ() vs create_scope() for the same arguments."""
    failures = 0
    for i in range(N_PAIR):
        pairs = gen_headers(rng, with_underscores=False, avoid=SCOPE_OWNED)
        # latin-1 only survives on both sides; keep it, it must round-trip
        headers = list(pairs) if rng.random() < 0.7 else dict(pairs)
        kwargs = dict(
            path='/',
            headers=headers or None,
            http_version=rng.choice(['1.0', '1.1', '2']),
            scheme=rng.choice(['http', 'https']),
            port=rng.choice([None, 80, 443, 8080]),
            method=rng.choice(['GET', 'POST', 'OPTIONS']),
        )
        env = testing.create_environ(**kwargs)
        scope = testing.create_scope(**kwargs)
        wreq = falcon.Request(env)
        areq = falcon.asgi.Request(scope, _receive)
        w = dict(wreq.headers_lower)
        a = dict(areq.headers)
        ok = w == a and wreq.content_type == areq.content_type
        if ok:
            for name, _ in pairs:
                if wreq.get_header(name) != areq.get_header(name):
                    ok = False
        if not ok:
            failures += 1
            if failures <= 5:
                print(
                    'MISMATCH pair #{}: headers={!r}\n  wsgi={!r}\n  asgi={!r}'.format(
                        i, headers, w, a
                    )
                )
    return failures


class Echo:
    def on_get(self, req, resp):
        resp.media = {'headers': dict(req.headers_lower), 'ct': req.content_type}

    on_post = on_get


class EchoAsync:
    async def on_get(self, req, resp):
        resp.media = {'headers': dict(req.headers_lower), 'ct': req.content_type}

    on_post = on_get


def sim_cases(rng):
    wsgi_app = falcon.App()
    wsgi_app.add_route('/', Echo())
    asgi_app = falcon.asgi.App()
    asgi_app.add_route('/', EchoAsync())

    failures = 0
    for i in range(N_SIM):
        pairs = gen_headers(rng, with_underscores=False, avoid=SCOPE_OWNED)
        pairs = [(n, v) for n, v in pairs if v is None or 'caf' not in v]
        headers = list(pairs) if rng.random() < 0.7 else dict(pairs)
        method = rng.choice(['GET', 'POST'])
        results = []
        for app in (wsgi_app, asgi_app):
            res = testing.simulate_request(
                app, method, '/', headers=(type(headers)(headers) or None)
            )
            results.append((res.status_code, json.loads(res.text)))

        base = {'HTTP_HOST': 'falconframework.org'}
        expected_env = model_environ_headers(
            base, pairs if isinstance(headers, list) else list(headers.items())
        )
        expected = {
            (k[5:] if k.startswith('HTTP_') else k).replace('_', '-').lower(): v
            for k, v in expected_env.items()
        }
        want = (200, {'headers': expected, 'ct': expected.get('content-type')})
        if results[0] != want or results[1] != want:
            failures += 1
            if failures <= 5:
                print(
                    'MISMATCH sim #{}: headers={!r}\n  wsgi={!r}\n  asgi={!r}\n  want={!r}'.format(
                        i, headers, results[0], results[1], want
                    )
                )
    return failures


def main():
    rng = random.Random(SEED)
    failures = env_cases(rng) + pair_cases(rng) + sim_cases(rng)
    if failures:
        print('FAIL ({} mismatches)'.format(failures))
        return 1
    print('PASS')
    return 0


if __name__ == '__main__':
    sys.exit(main())
