"""Generated check for C08 (query-string parsing), focused on falcon.util.uri.decode.

Compares falcon.util.uri.decode, falcon.util.uri.parse_query_string and the
``params`` mapping of WSGI and ASGI requests against an independent
byte-scanning reference model of the form-urlencoded reading.

Run as: PYTHONPATH=<falcon tree> python check.py   (cwd does not matter)
"""

import itertools
import random
import sys
import urllib.parse

import falcon
import falcon.asgi
from falcon import testing
from falcon.util import uri as furi

SEED = 80801
HEX = '0123456789abcdefABCDEF'


# --------------------------------------------------------------------------
# Reference model
# --------------------------------------------------------------------------
def ref_decode(s, plus=True):
    """Percent/plus decoding, malformed escapes kept literally, UTF-8/replace."""
    if plus:
        s = s.replace('+', ' ')
    raw = s.encode('utf-8')
    out = bytearray()
    i = 0
    n = len(raw)
    while i < n:
        c = raw[i]
        if c == 0x25:  # '%'
            pair = raw[i + 1 : i + 3]
            if len(pair) == 2 and chr(pair[0]) in HEX and chr(pair[1]) in HEX:
                out.append(int(pair.decode('ascii'), 16))
                i += 3
                continue
        out.append(c)
        i += 1
    return out.decode('utf-8', 'replace')


def ref_parse(qs, keep_blank, csv):
    """Reference reading of a query string -> {name: str | [str, ...]}."""
    order = []
    values = {}
    as_list = {}
    for field in qs.split('&'):
        eq = field.find('=')
        if eq < 0:
            k, v = field, ''
        else:
            k, v = field[:eq], field[eq + 1 :]
        if v == '' and not (keep_blank and k != ''):
            continue
        k = ref_decode(k)
        if k not in values:
            order.append(k)
            values[k] = []
            as_list[k] = False
        else:
            as_list[k] = True
        if csv and ',' in v:
            as_list[k] = True
            for element in v.split(','):
                if element == '' and not keep_blank:
                    continue
                values[k].append(ref_decode(element))
        else:
            values[k].append(ref_decode(v))
    result = {}
    for k in order:
        if as_list[k]:
            result[k] = values[k]
        else:
            assert len(values[k]) == 1
            result[k] = values[k][0]
    return result


# --------------------------------------------------------------------------
# Harness
# --------------------------------------------------------------------------
failures = []
counts = {'decode': 0, 'parse': 0, 'wsgi': 0, 'asgi': 0}


def fail(kind, *info):
    failures.append((kind,) + info)
    if len(failures) > 20:
        report()


def report():
    for f in failures[:20]:
        print('FAIL', f)
    print('FAIL (%d mismatches)' % len(failures))
    sys.exit(1)


def same_mapping(a, b):
    # equal as mappings, same key order, and same str/list typing
    if list(a.keys()) != list(b.keys()):
        return False
    for k in a:
        if type(a[k]) is not type(b[k]) or a[k] != b[k]:
            return False
    return True


def check_decode(s):
    counts['decode'] += 1
    for plus in (True, False):
        got = furi.decode(s, unquote_plus=plus)
        exp = ref_decode(s, plus)
        if got != exp or type(got) is not str:
            fail('decode', s, plus, got, exp)
    if s.isascii():
        exp = urllib.parse.unquote_plus(s, errors='replace')
        got = furi.decode(s)
        if got != exp:
            fail('decode-vs-urllib', s, got, exp)


def check_parse(qs):
    for keep_blank in (False, True):
        for csv in (False, True):
            counts['parse'] += 1
            try:
                got = furi.parse_query_string(qs, keep_blank=keep_blank, csv=csv)
            except Exception as ex:  # parsing never fails
                fail('parse-raised', qs, keep_blank, csv, repr(ex))
                continue
            exp = ref_parse(qs, keep_blank, csv)
            if not same_mapping(got, exp):
                fail('parse', qs, keep_blank, csv, got, exp)


_OPTIONS = {}
for _kb in (False, True):
    for _csv in (False, True):
        _o = falcon.RequestOptions()
        _o.keep_blank_qs_values = _kb
        _o.auto_parse_qs_csv = _csv
        _OPTIONS[(_kb, _csv)] = _o


async def _receive():  # pragma: no cover - never awaited
    return {'type': 'http.request', 'body': b'', 'more_body': False}


def check_requests(qs):
    for (keep_blank, csv), options in _OPTIONS.items():
        exp = ref_parse(qs, keep_blank, csv) if qs else {}

        env = testing.create_environ()
        env['QUERY_STRING'] = qs
        counts['wsgi'] += 1
        try:
            req = falcon.Request(env, options=options)
            got = req.params
        except Exception as ex:
            fail('wsgi-raised', qs, keep_blank, csv, repr(ex))
        else:
            if not same_mapping(got, exp) or req.query_string != qs:
                fail('wsgi', qs, keep_blank, csv, got, exp)
            for k in exp:
                if not req.has_param(k):
                    fail('wsgi-has_param', qs, k)

        try:
            raw = qs.encode('utf-8')
        except UnicodeEncodeError:
            continue
        scope = testing.create_scope()
        scope['query_string'] = raw
        counts['asgi'] += 1
        try:
            areq = falcon.asgi.Request(scope, _receive, options=options)
            got = areq.params
        except Exception as ex:
            fail('asgi-raised', qs, keep_blank, csv, repr(ex))
        else:
            if not same_mapping(got, exp) or areq.query_string != qs:
                fail('asgi', qs, keep_blank, csv, got, exp)


def main():
    rng = random.Random(SEED)

    # 1. decode(): every string up to length 5 over an alphabet that produces
    #    valid escapes, malformed escapes, multi-byte UTF-8 sequences (%C3%A9),
    #    truncated sequences, NUL and raw non-ASCII text.
    dec_alphabet = ['%', '+', 'C', '3', 'A', '9', 'g', '\x00', 'é', '=']
    for n in range(0, 6):
        for tup in itertools.product(dec_alphabet, repeat=n):
            check_decode(''.join(tup))

    # 2. decode(): random longer strings on both sides of the 8-token
    #    threshold between the in-place path and _join_tokens().
    pieces = [
        '%', '%', '%%', '%4', '%41', '%c3%a9', '%C3', '%A9', '%e2%82%ac', '%E2%82',
        '%f0%9f%98%80', '%00', '%2C', '%2c', '%26', '%3D', '%25', '%2', '%g1', '%1g',
        '+', 'a', 'Z', '9', 'é', '€', '\x00', ',', '=', '&', ' ', '%+1',
        '%ff', '%FE', '%80', '%bf',
    ]
    for _ in range(30000):
        k = rng.randint(1, 14)
        check_decode(''.join(rng.choice(pieces) for _ in range(k)))

    # 3. parse_query_string(): every string up to length 4 over the
    #    property's alphabet, for all four option combinations.
    qs_alphabet = ['&', '=', ',', '+', '%', '4', '1', 'a', 'g', '\x00', 'é']
    small = []
    for n in range(0, 5):
        for tup in itertools.product(qs_alphabet, repeat=n):
            small.append(''.join(tup))
    for qs in small:
        check_parse(qs)

    # 4. parse_query_string(): random longer strings built from fields.
    names = ['a', 'b', '%61', 'a+b', 'a%20b', '', '%', '%zz', 'é', '%c3%a9', 'x%00']
    vals = pieces + ['1,2', ',', ',,', 'x,%2C,y', '1%2c2', '', '', 'true', '+,+']
    longer = []
    for _ in range(12000):
        fields = []
        for _ in range(rng.randint(1, 7)):
            name = rng.choice(names)
            shape = rng.random()
            if shape < 0.12:
                fields.append(name)
            elif shape < 0.2:
                fields.append(name + '=')
            else:
                v = ''.join(rng.choice(vals) for _ in range(rng.randint(1, 9)))
                fields.append(name + '=' + v)
            if rng.random() < 0.08:
                fields.append('')
        longer.append('&'.join(fields))
    for qs in longer:
        check_parse(qs)

    # 5. The same mapping is observed through WSGI and ASGI requests.
    sample = rng.sample(small, 2500) + rng.sample(longer, 2500)
    sample += ['', '&', '=', '%', 'a=%', 'a=%4', 'a=%41%', 'a=1&a=2', 'a=1,2&a=3']
    for qs in sample:
        check_requests(qs)

    if failures:
        report()
    total = sum(counts.values())
    assert total > 5000, counts
    print('cases:', counts)
    print('PASS')


if __name__ == '__main__':
    main()
