"""Generated check for C08 (query strings), focused on falcon.to_query_str.

* compares falcon.to_query_str with an explicit reference renderer for
  generated parameter dictionaries (scalars of many types, booleans, lists,
  empty lists, list subclasses, both list encodings, with/without prefix);
* checks the property "a mapping rendered with to_query_str parses back to
  itself" through falcon.uri.parse_query_string and through WSGI/ASGI
  requests.

Run as: PYTHONPATH=<falcon tree> python check.py   (cwd does not matter)
"""

import random
import sys

import falcon
import falcon.asgi
from falcon import testing
from falcon.util import misc as fmisc
from falcon.util import uri as furi

SEED = 80802
UNRESERVED = 'ABCDEFGHIJKLMNOPQRSTUVWXYZabcdefghijklmnopqrstuvwxyz0123456789-._~'


# --------------------------------------------------------------------------
# Reference model
# --------------------------------------------------------------------------
def ref_enc(s):
    assert isinstance(s, str)
    out = []
    for b in s.encode('utf-8'):
        ch = chr(b)
        out.append(ch if ch in UNRESERVED else '%' + format(b, '02X'))
    return ''.join(out)


def ref_scalar(v):
    if v is True:
        return 'true'
    if v is False:
        return 'false'
    return ref_enc(str(v))


def ref_to_query_str(params, comma_delimited_lists=True, prefix=True):
    if not params:
        return ''
    fields = []
    for k, v in params.items():
        name = ref_enc(k)
        if isinstance(v, list):
            if comma_delimited_lists:
                # NOTE: elements of a comma-delimited list are plainly
                # stringified (str(True) == 'True').
                fields.append(name + '=' + ','.join(ref_enc(str(x)) for x in v))
            else:
                for x in v:
                    fields.append(name + '=' + ref_scalar(x))
        else:
            fields.append(name + '=' + ref_scalar(v))
    if not fields:
        return ''
    return ('?' if prefix else '') + '&'.join(fields)


# --------------------------------------------------------------------------
# Harness
# --------------------------------------------------------------------------
failures = []
counts = {'render': 0, 'roundtrip': 0, 'roundtrip-req': 0}


def report():
    for f in failures[:20]:
        print('FAIL', f)
    print('FAIL (%d mismatches)' % len(failures))
    sys.exit(1)


def fail(*info):
    failures.append(info)
    if len(failures) > 20:
        report()


class MyList(list):
    pass


class Thing:
    def __init__(self, text):
        self.text = text

    def __str__(self):
        return self.text

    def __repr__(self):
        return 'Thing(%r)' % self.text


CHARS = [
    'a', 'b', 'Z', '0', '9', '-', '.', '_', '~', ' ', '+', '%', '&', '=', ',', '?',
    '#', '/', ';', ':', '"', "'", '\x00', '\n', '\x7f', 'é', 'ß', '€', '\U0001f600',
    '%41', '%2C', '%zz', 'true', 'True',
]


def gen_text(rng, lo=0, hi=6):
    return ''.join(rng.choice(CHARS) for _ in range(rng.randint(lo, hi)))


def gen_scalar(rng):
    r = rng.random()
    if r < 0.14:
        return rng.choice([True, False])
    if r < 0.28:
        return rng.choice([0, 1, -1, 42, 10**20, -7])
    if r < 0.36:
        return rng.choice([0.0, 1.0, -2.5, 1e100, float('inf'), float('nan')])
    if r < 0.42:
        return None
    if r < 0.47:
        return Thing(gen_text(rng))
    if r < 0.51:
        return tuple(gen_text(rng, 0, 2) for _ in range(rng.randint(0, 2)))
    if r < 0.54:
        return b'by,tes'
    return gen_text(rng)


def gen_value(rng):
    r = rng.random()
    if r < 0.35:
        n = rng.choice([0, 1, 1, 2, 2, 3, 5])
        items = [gen_scalar(rng) for _ in range(n)]
        if rng.random() < 0.1:
            items.append([gen_scalar(rng)])  # nested list -> stringified
        return MyList(items) if rng.random() < 0.15 else items
    return gen_scalar(rng)


def gen_params(rng):
    n = rng.choice([0, 1, 1, 2, 3, 4, 6])
    params = {}
    for _ in range(n):
        key = gen_text(rng, 0, 4) if rng.random() < 0.6 else rng.choice('abcxyz')
        params[key] = gen_value(rng)
    return params


def check_render(params):
    for comma in (True, False):
        for prefix in (True, False):
            counts['render'] += 1
            exp = ref_to_query_str(params, comma, prefix)
            try:
                got = falcon.to_query_str(
                    params, comma_delimited_lists=comma, prefix=prefix
                )
            except Exception as ex:
                fail('render-raised', params, comma, prefix, repr(ex))
                continue
            if got != exp or type(got) is not str:
                fail('render', params, comma, prefix, got, exp)
    # defaults: comma-delimited lists, with prefix
    if falcon.to_query_str(params) != ref_to_query_str(params, True, True):
        fail('render-defaults', params)


# -- round trip ------------------------------------------------------------
def gen_str_params(rng):
    """Mappings that a query string can represent: str -> str | [str, str, ...]."""
    params = {}
    for _ in range(rng.choice([1, 1, 2, 3, 4, 6])):
        key = gen_text(rng, 0, 4) if rng.random() < 0.6 else rng.choice('abcxyz')
        if rng.random() < 0.4:
            value = [gen_text(rng, 0, 4) for _ in range(rng.randint(2, 5))]
            blank = any(x == '' for x in value)
        else:
            value = gen_text(rng, 0, 6)
            blank = value == ''
        if key == '' and blank:
            # a nameless field without a value is not representable
            key = 'k'
        params[key] = value
    return params


def same_mapping(a, b):
    if list(a.keys()) != list(b.keys()):
        return False
    for k in a:
        if type(a[k]) is not type(b[k]) or a[k] != b[k]:
            return False
    return True


_OPTIONS = {}
for _kb in (False, True):
    for _csv in (False, True):
        _o = falcon.RequestOptions()
        _o.keep_blank_qs_values = _kb
        _o.auto_parse_qs_csv = _csv
        _OPTIONS[(_kb, _csv)] = _o


async def _receive():  # pragma: no cover - never awaited
    return {'type': 'http.request', 'body': b'', 'more_body': False}


def check_roundtrip(params, through_requests):
    has_blank = any(
        (v == '' if isinstance(v, str) else any(x == '' for x in v))
        for v in params.values()
    )
    for comma in (True, False):
        # comma-delimited rendering needs CSV parsing to be read back; the
        # repeated-field rendering reads back with either setting because
        # every literal comma inside a value is percent-encoded.
        csv_settings = (True,) if comma else (False, True)
        keep_settings = (True,) if has_blank else (True, False)
        rendered = falcon.to_query_str(params, comma_delimited_lists=comma)
        if not rendered.startswith('?'):
            fail('roundtrip-prefix', params, rendered)
            continue
        qs = falcon.to_query_str(params, comma_delimited_lists=comma, prefix=False)
        if '?' + qs != rendered:
            fail('roundtrip-prefix-mismatch', params, rendered, qs)
        for csv in csv_settings:
            for keep_blank in keep_settings:
                counts['roundtrip'] += 1
                got = furi.parse_query_string(qs, keep_blank=keep_blank, csv=csv)
                if not same_mapping(got, params):
                    fail('roundtrip', params, comma, csv, keep_blank, qs, got)
                if not through_requests:
                    continue
                counts['roundtrip-req'] += 1
                options = _OPTIONS[(keep_blank, csv)]
                env = testing.create_environ()
                env['QUERY_STRING'] = qs
                req = falcon.Request(env, options=options)
                scope = testing.create_scope()
                scope['query_string'] = qs.encode('ascii')  # fully escaped
                areq = falcon.asgi.Request(scope, _receive, options=options)
                if not same_mapping(req.params, params):
                    fail('roundtrip-wsgi', params, comma, csv, keep_blank, qs)
                if not same_mapping(areq.params, params):
                    fail('roundtrip-asgi', params, comma, csv, keep_blank, qs)
                for k, v in params.items():
                    last = v if isinstance(v, str) else v[-1]
                    aslist = [v] if isinstance(v, str) else v
                    if req.get_param(k) != last or areq.get_param(k) != last:
                        fail('roundtrip-get_param', params, k)
                    if req.get_param_as_list(k) != aslist:
                        fail('roundtrip-get_param_as_list', params, k)


def main():
    rng = random.Random(SEED)

    # fixed expectations straight from the documentation / property
    fixed = [
        (({}, True, True), ''),
        ((None, True, True), ''),
        (({'a': []}, False, True), ''),
        (({'a': []}, True, True), '?a='),
        (({'thing': [1, 2, 3]}, True, True), '?thing=1,2,3'),
        (({'thing': [1, 2, 3]}, False, True), '?thing=1&thing=2&thing=3'),
        (({'b': True, 'c': False}, True, False), 'b=true&c=false'),
        (({'b': [True, False]}, False, False), 'b=true&b=false'),
        (({'b': [True, False]}, True, False), 'b=True,False'),
        (({'b': 1, 'c': 0}, True, False), 'b=1&c=0'),
        (({'x y': 'a,b&c=d'}, True, True), '?x%20y=a%2Cb%26c%3Dd'),
        (({'q': 'é', 'n': None}, True, True), '?q=%C3%A9&n=None'),
    ]
    for (params, comma, prefix), exp in fixed:
        got = falcon.to_query_str(params, comma_delimited_lists=comma, prefix=prefix)
        if got != exp:
            fail('fixed', params, comma, prefix, got, exp)
        if ref_to_query_str(params, comma, prefix) != exp:
            fail('fixed-reference-model', params, comma, prefix, exp)
    assert fmisc.to_query_str is falcon.to_query_str

    for _ in range(12000):
        check_render(gen_params(rng))

    for i in range(8000):
        check_roundtrip(gen_str_params(rng), through_requests=(i % 4 == 0))

    if failures:
        report()
    assert sum(counts.values()) > 5000, counts
    print('cases:', counts)
    print('PASS')


if __name__ == '__main__':
    main()
