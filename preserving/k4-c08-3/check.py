"""Generated check for C08 (typed query-parameter getters), focused on
Request.get_param_as_bool (WSGI and ASGI).

For generated query strings and every keep_blank_qs_values/auto_parse_qs_csv
combination the request mapping is compared with a reference reading, and the
typed getters are compared with the reference conversion of the LAST
occurrence of the parameter, for all combinations of required / default /
store / blank_as_true (bool) and min/max (int, float).

Run as: PYTHONPATH=<falcon tree> python check.py   (cwd does not matter)
"""

import datetime
import itertools
import json
import random
import sys
import uuid

import falcon
import falcon.asgi
from falcon import testing

SEED = 80803
HEX = '0123456789abcdefABCDEF'
TRUE_STRINGS = ('true', 'True', 't', 'yes', 'y', '1', 'on')
FALSE_STRINGS = ('false', 'False', 'f', 'no', 'n', '0', 'off')


# --------------------------------------------------------------------------
# Reference model
# --------------------------------------------------------------------------
def ref_decode(s):
    raw = s.replace('+', ' ').encode('utf-8')
    out = bytearray()
    i = 0
    while i < len(raw):
        if raw[i] == 0x25:
            pair = raw[i + 1 : i + 3]
            if len(pair) == 2 and chr(pair[0]) in HEX and chr(pair[1]) in HEX:
                out.append(int(pair.decode('ascii'), 16))
                i += 3
                continue
        out.append(raw[i])
        i += 1
    return out.decode('utf-8', 'replace')


def ref_parse(qs, keep_blank, csv):
    if not qs:
        return {}
    order, values, as_list = [], {}, {}
    for field in qs.split('&'):
        eq = field.find('=')
        k, v = (field, '') if eq < 0 else (field[:eq], field[eq + 1 :])
        if v == '' and not (keep_blank and k != ''):
            continue
        k = ref_decode(k)
        if k in values:
            as_list[k] = True
        else:
            order.append(k)
            values[k] = []
            as_list[k] = False
        if csv and ',' in v:
            as_list[k] = True
            values[k].extend(
                ref_decode(e) for e in v.split(',') if e != '' or keep_blank
            )
        else:
            values[k].append(ref_decode(v))
    return {k: (values[k] if as_list[k] else values[k][0]) for k in order}


class Invalid(Exception):
    """The reference conversion rejects the value -> HTTPInvalidParam."""


def ref_bool(text, blank_as_true):
    if text in TRUE_STRINGS:
        return True
    if text in FALSE_STRINGS:
        return False
    if text == '':
        return blank_as_true
    raise Invalid()


def ref_number(conv, text, lo, hi):
    try:
        val = conv(text)
    except ValueError:
        raise Invalid()
    if lo is not None and val < lo:
        raise Invalid()
    if hi is not None and hi < val:
        raise Invalid()
    return val


def ref_uuid(text):
    try:
        return uuid.UUID(text)
    except ValueError:
        raise Invalid()


def ref_datetime(text, fmt):
    try:
        return datetime.datetime.strptime(text, fmt)
    except ValueError:
        raise Invalid()


def ref_json(text):
    try:
        return json.loads(text)
    except ValueError:
        raise Invalid()


# --------------------------------------------------------------------------
# Harness
# --------------------------------------------------------------------------
failures = []
counts = {'mapping': 0, 'bool': 0, 'other': 0}
MISSING_NAME = 'absent'
SENTINEL = object()


def report():
    for f in failures[:20]:
        print('FAIL', f)
    print('FAIL (%d mismatches)' % len(failures))
    sys.exit(1)


def fail(*info):
    failures.append(info)
    if len(failures) > 20:
        report()


def same_mapping(a, b):
    if list(a.keys()) != list(b.keys()):
        return False
    return all(type(a[k]) is type(b[k]) and a[k] == b[k] for k in a)


def same_value(a, b):
    return type(a) is type(b) and repr(a) == repr(b)


_OPTIONS = {}
for _kb in (False, True):
    for _csv in (False, True):
        _o = falcon.RequestOptions()
        _o.keep_blank_qs_values = _kb
        _o.auto_parse_qs_csv = _csv
        _OPTIONS[(_kb, _csv)] = _o


async def _receive():  # pragma: no cover - never awaited
    return {'type': 'http.request', 'body': b'', 'more_body': False}


def make_requests(qs, key):
    env = testing.create_environ()
    env['QUERY_STRING'] = qs
    scope = testing.create_scope()
    scope['query_string'] = qs.encode('utf-8')
    return (
        ('wsgi', falcon.Request(env, options=_OPTIONS[key])),
        ('asgi', falcon.asgi.Request(scope, _receive, options=_OPTIONS[key])),
    )


def run_getter(tag, ctx, getter, name, present, reference, required, default, use_store):
    """Call one typed getter and compare with the reference outcome.

    present   -- whether the reference mapping has the parameter
    reference -- zero-argument callable giving the reference conversion of
                 the last occurrence (may raise Invalid)
    """
    store = {'untouched': 1} if use_store else None
    kwargs = {}
    if required is not None:
        kwargs['required'] = required
    if default is not SENTINEL:
        kwargs['default'] = default
    if use_store:
        kwargs['store'] = store
    eff_required = bool(required)
    eff_default = None if default is SENTINEL else default

    try:
        got = getter(name, **kwargs)
        outcome = ('value', got)
    except falcon.HTTPMissingParam as ex:
        outcome = ('missing', ex)
    except falcon.HTTPInvalidParam as ex:
        outcome = ('invalid', ex)
    except Exception as ex:
        fail(tag, 'unexpected-exception', ctx, name, kwargs, repr(ex))
        return

    if outcome[0] != 'value':
        ex = outcome[1]
        if not isinstance(ex, falcon.HTTPBadRequest) or ex.status != falcon.HTTP_400:
            fail(tag, 'not-a-400', ctx, name, repr(ex))
        if name not in (ex.description or ''):
            fail(tag, 'description-lacks-name', ctx, name, ex.description)

    if not present:
        if eff_required:
            if outcome[0] != 'missing':
                fail(tag, 'expected-missing', ctx, name, kwargs, outcome)
        elif outcome[0] != 'value' or outcome[1] is not eff_default:
            fail(tag, 'expected-default', ctx, name, kwargs, outcome)
        if use_store and store != {'untouched': 1}:
            fail(tag, 'store-touched-when-missing', ctx, name, kwargs, store)
        return

    try:
        exp = reference()
    except Invalid:
        if outcome[0] != 'invalid':
            fail(tag, 'expected-invalid', ctx, name, kwargs, outcome)
        if use_store and store != {'untouched': 1}:
            fail(tag, 'store-touched-when-invalid', ctx, name, kwargs, store)
        return

    if outcome[0] != 'value' or not same_value(outcome[1], exp):
        fail(tag, 'wrong-value', ctx, name, kwargs, outcome, exp)
        return
    if use_store:
        if set(store) != {'untouched', name} or not same_value(store[name], exp):
            fail(tag, 'wrong-store', ctx, name, kwargs, store, exp)


BOOL_COMBOS = list(
    itertools.product(
        (None, False, True),  # required (None: not passed)
        (SENTINEL, None, True, False, 'dflt'),  # default (SENTINEL: not passed)
        (False, True),  # store
        (None, True, False),  # blank_as_true (None: not passed)
    )
)


def check_bool(kind, req, ctx, exp_map, names, rng, exhaustive):
    combos = BOOL_COMBOS if exhaustive else rng.sample(BOOL_COMBOS, 8)
    for name in names:
        present = name in exp_map
        last = None
        if present:
            v = exp_map[name]
            if isinstance(v, list):
                if not v:
                    continue  # 'a=,' without blanks: no occurrence to report
                last = v[-1]
            else:
                last = v
        for required, default, use_store, blank in combos:
            counts['bool'] += 1
            if blank is None:
                getter = req.get_param_as_bool
                eff_blank = True
            else:

                def getter(n, _b=blank, **kw):
                    return req.get_param_as_bool(n, blank_as_true=_b, **kw)

                eff_blank = blank
            run_getter(
                kind + '-bool',
                ctx,
                getter,
                name,
                present,
                lambda: ref_bool(last, eff_blank),
                required,
                default,
                use_store,
            )
        if present:
            # positional form: (name, required, store, blank_as_true, default)
            store = {}
            try:
                got = req.get_param_as_bool(name, True, store, False, None)
            except falcon.HTTPInvalidParam:
                got = Invalid
            try:
                exp = ref_bool(last, False)
            except Invalid:
                exp = Invalid
            if got is not exp or (exp is not Invalid and store != {name: exp}):
                fail(kind + '-bool', 'positional', ctx, name, got, exp, store)


def check_others(kind, req, ctx, exp_map, names, rng):
    for name in names:
        present = name in exp_map
        last = None
        if present:
            v = exp_map[name]
            if isinstance(v, list):
                if not v:
                    continue
                last = v[-1]
            else:
                last = v
        required = rng.choice((None, False, True))
        default = rng.choice((SENTINEL, None, 'dflt'))
        use_store = rng.random() < 0.5
        lo = rng.choice((None, None, -5, 0, 2))
        hi = rng.choice((None, None, 1, 7, 100))
        counts['other'] += 7

        run_getter(kind + '-str', ctx, req.get_param, name, present,
                   lambda: last, required, default, use_store)
        run_getter(kind + '-int', ctx,
                   lambda n, **kw: req.get_param_as_int(n, min_value=lo, max_value=hi, **kw),
                   name, present, lambda: ref_number(int, last, lo, hi),
                   required, default, use_store)
        run_getter(kind + '-float', ctx,
                   lambda n, **kw: req.get_param_as_float(n, min_value=lo, max_value=hi, **kw),
                   name, present, lambda: ref_number(float, last, lo, hi),
                   required, default, use_store)
        run_getter(kind + '-uuid', ctx, req.get_param_as_uuid, name, present,
                   lambda: ref_uuid(last), required, default, use_store)
        run_getter(kind + '-datetime', ctx,
                   lambda n, **kw: req.get_param_as_datetime(n, '%Y-%m-%dT%H:%M:%S', **kw),
                   name, present, lambda: ref_datetime(last, '%Y-%m-%dT%H:%M:%S'),
                   required, default, use_store)
        run_getter(kind + '-date', ctx, req.get_param_as_date, name, present,
                   lambda: ref_datetime(last, '%Y-%m-%d').date(),
                   required, default, use_store)
        run_getter(kind + '-json', ctx, req.get_param_as_json, name, present,
                   lambda: ref_json(last), required, default, use_store)

        if present:
            as_list = exp_map[name] if isinstance(exp_map[name], list) else [last]
            if req.get_param_as_list(name) != as_list:
                fail(kind + '-list', ctx, name, req.get_param_as_list(name), as_list)
        elif req.get_param_as_list(name, default=SENTINEL) is not SENTINEL:
            fail(kind + '-list-default', ctx, name)


def check_query_string(qs, rng, exhaustive, others):
    for key in _OPTIONS:
        exp_map = ref_parse(qs, *key)
        names = list(exp_map) + [MISSING_NAME]
        for kind, req in make_requests(qs, key):
            counts['mapping'] += 1
            ctx = (qs, key)
            if not same_mapping(req.params, exp_map):
                fail(kind + '-mapping', ctx, req.params, exp_map)
                continue
            check_bool(kind, req, ctx, exp_map, names, rng, exhaustive)
            if others:
                check_others(kind, req, ctx, exp_map, names, rng)


def main():
    rng = random.Random(SEED)

    # 1. every string up to length 3 over a small alphabet (every combination
    #    of required/default/store/blank_as_true for each parameter)
    alphabet = ['&', '=', ',', '+', '%', '1', 't', 'a', '\x00', 'é']
    for n in range(0, 4):
        for tup in itertools.product(alphabet, repeat=n):
            check_query_string(''.join(tup), rng, exhaustive=True, others=False)

    # 2. random multi-field strings built around the boolean vocabulary
    names = ['a', 'b', 'flag', '%61', 'a+b', 'é', '%c3%a9', 'absent%', '']
    bool_vals = list(TRUE_STRINGS + FALSE_STRINGS) + [
        'TRUE', 'FALSE', 'tRue', 'T', 'F', 'Y', 'N', 'ON', 'Off', 'yes+', '+true',
        '%74rue', 'tru%65', 'fals%65', '%31', '%30', 'o%6e', 'true%', 'true%2', '%true',
        '2', '00', '01', '10', '-1', '1.0', 'nope', 'null', 'None', ' ', '+', '%20', '%00',
        't%00', 'é', '%c3%a9', '%ff', 'true,false', 'false,true', 'x,true', 'true,x',
        'true,', ',true', ',', ',,', '%2Ctrue', 'true%2C', 'true%2Cfalse', '1,0', 'y,n',
        'true=false', '=', '=true', '',
    ]
    other_vals = [
        '42', '-7', '+5', '007', '1e3', '3.5', '-0.0', 'inf', 'nan', '1_0', ' 12 ', '0x10',
        '12,13', '5%2C6', '6ba7b810-9dad-11d1-80b4-00c04fd430c8',
        '6BA7B8109DAD11D180B400C04FD430C8', '%7B6ba7b810-9dad-11d1-80b4-00c04fd430c8%7D',
        '6ba7b810-9dad-11d1-80b4', '2024-02-29', '2023-02-29', '2024-02-29T10:11:12',
        '2024-13-01', '%7B%22a%22%3A1%7D', '%5B1%2C2%5D', '[1,2]', '{"a":1,"b":[true]}',
        '%22x%22', 'NaN', '{', 'true',
    ]

    def gen_qs(pool):
        fields = []
        for _ in range(rng.randint(1, 6)):
            name = rng.choice(names)
            shape = rng.random()
            if shape < 0.12:
                fields.append(name)
            elif shape < 0.2:
                fields.append(name + '=')
            else:
                fields.append(name + '=' + rng.choice(pool))
            if rng.random() < 0.05:
                fields.append('')
        return '&'.join(fields)

    for _ in range(1500):
        check_query_string(gen_qs(bool_vals), rng, exhaustive=False, others=False)
    for _ in range(600):
        check_query_string(
            gen_qs(bool_vals + other_vals), rng, exhaustive=False, others=True
        )

    if failures:
        report()
    assert counts['bool'] > 5000, counts
    print('cases:', counts)
    print('PASS')


if __name__ == '__main__':
    main()
