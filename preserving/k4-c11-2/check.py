"""Generated check for patch 2 (Handlers: cache invalidation extracted into a
private helper shared by __setitem__ / __delitem__).

Random *histories* of set / delete / update / |= / setdefault / pop / popitem /
clear / copy() / copy.copy() on falcon.media.Handlers mappings are interleaved
with resolutions of arbitrary content types.  Every resolution is compared
with a reference model: a plain dict that mirrors the history, plus the
documented matching rule (exact type over wildcard, exact subtype over
wildcard, exact parameter match, number of matching parameters, then q;
falling back to the default type for a missing or */* type; 415 otherwise).
A stale (cached) handler would show up as a mismatch with the model.

Run:  PYTHONPATH=<falcon tree> python check.py      (prints PASS, exit 0)
"""

import copy
import random
import sys

import falcon
import falcon.asgi
from falcon import errors
from falcon import media
from falcon import testing

SEED = 0xC1102
N_HISTORIES = 150
STEPS = 90

rng = random.Random(SEED)


class StubHandler(media.BaseHandler):
    def __init__(self, ident):
        self.ident = ident

    def deserialize(self, stream, content_type, content_length):
        stream.read()
        return {'handler': self.ident}

    def serialize(self, obj, content_type):  # pragma: no cover
        return repr(obj).encode()

    def __repr__(self):
        return 'StubHandler(%d)' % self.ident


class StubHandlerWithSync(StubHandler):
    """Exposes the optional fast-path attributes returned by the resolver."""

    def _serialize_sync(self, obj):  # pragma: no cover
        return b''

    def _deserialize_sync(self, data):
        # NOTE: The ASGI request uses this fast path when it is available.
        return {'handler': self.ident}


_ident = [0]


def new_handler():
    _ident[0] += 1
    cls = StubHandlerWithSync if rng.random() < 0.3 else StubHandler
    return cls(_ident[0])


# --------------------------------------------------------------------------
# Structured media types: text -> structure registries
# --------------------------------------------------------------------------

MAIN = ['text', 'application', 'image']
SUB = ['html', 'json', 'v1+json']
PARAM_CHOICES = [
    (),
    (),
    (('version', '1'),),
    (('version', '2'),),
    (('charset', 'utf-8'),),
    (('version', '1'), ('charset', 'utf-8')),
]


def canon(main, sub, params):
    return main + '/' + sub + ''.join(';%s=%s' % item for item in params)


# Keys of the handler mapping: candidates (main, sub, params dict).
KEYS = {}
for _main in MAIN:
    for _sub in SUB + ['*']:
        for _params in set(PARAM_CHOICES):
            KEYS[canon(_main, _sub, _params)] = (_main, _sub, dict(_params))
KEY_TEXTS = sorted(KEYS)

# Content types / defaults: a list of ranges [(main, sub, params dict, q)] or
# None when the text is not a valid media range list.
CONTENT_TYPES = {}


def _register(text, ranges):
    CONTENT_TYPES[text] = ranges


for _main in MAIN + ['*']:
    for _sub in SUB + ['*']:
        if _main == '*' and _sub != '*':
            continue
        for _params in set(PARAM_CHOICES):
            _text = canon(_main, _sub, _params)
            if _text == '*/*':
                continue  # handled separately: falls back to the default
            _register(_text, [(_main, _sub, dict(_params), 1.0)])
            # Decorated spellings of the same thing: never an exact dict hit.
            _register(
                _main + '/' + _sub + ''.join('; %s="%s"' % i for i in _params) + ' ',
                [(_main, _sub, dict(_params), 1.0)],
            )
        _register(canon(_main, _sub, ()) + ';q=0', [(_main, _sub, {}, 0.0)])
        _register(canon(_main, _sub, ()) + ';q=0.5', [(_main, _sub, {}, 0.5)])
_register('*/*;q=0.1', [('*', '*', {}, 0.1)])
_register('*/*;version=1', [('*', '*', {'version': '1'}, 1.0)])
_register(
    'text/html;q=0.2, application/json',
    [('text', 'html', {}, 0.2), ('application', 'json', {}, 1.0)],
)
_register(
    'text/*;q=0.9, text/html;q=0',
    [('text', '*', {}, 0.9), ('text', 'html', {}, 0.0)],
)
_register('image/v1+json;version=3', [('image', 'v1+json', {'version': '3'}, 1.0)])
_register('audio/ogg', [('audio', 'ogg', {}, 1.0)])
for _bad in ('nonsense', 'text', 'text/html;q=7', 'text/html;q=x', 'text/html,', ','):
    _register(_bad, None)
CONTENT_TYPE_TEXTS = sorted(CONTENT_TYPES)
DEFAULT_TEXTS = [t for t in CONTENT_TYPE_TEXTS if ';q=' not in t] + ['*/*']


# --------------------------------------------------------------------------
# Reference model
# --------------------------------------------------------------------------


def specificity(cand, range_):
    cmain, csub, cparams = cand
    rmain, rsub, rparams, _q = range_
    wild_main = rmain == '*' or cmain == '*'
    if not wild_main and rmain != cmain:
        return None
    wild_sub = rsub == '*' or csub == '*'
    if not wild_sub and rsub != csub:
        return None
    shared = [name for name in rparams if name in cparams]
    for name in shared:
        if rparams[name] != cparams[name]:
            return None
    identical = sorted(rparams) == sorted(cparams)
    return (
        0 if wild_main else 1,
        0 if wild_sub else 1,
        1 if identical else 0,
        len(shared),
    )


def model_quality(cand, ranges):
    best_key, best_q = None, 0.0
    for range_ in ranges:
        key = specificity(cand, range_)
        if key is None:
            continue
        if best_key is None or key > best_key:
            best_key, best_q = key, range_[3]
        elif key == best_key and range_[3] > best_q:
            best_q = range_[3]
    return best_q


def model_resolve(mapping, media_type, default):
    """Return the designated handler, or None for 'unsupported' (415)."""
    if not media_type or media_type == '*/*':
        media_type = default
    if media_type in mapping:
        return mapping[media_type]
    if media_type == '*/*':
        ranges = [('*', '*', {}, 1.0)]
    else:
        ranges = CONTENT_TYPES[media_type]
    if ranges is None or not mapping:
        return None
    best_key, best_q = None, 0.0
    for key in mapping:  # insertion order; the first of the best ones wins
        q = model_quality(KEYS[key], ranges)
        if q > best_q:
            best_key, best_q = key, q
    return mapping[best_key] if best_key is not None else None


# --------------------------------------------------------------------------
# Histories
# --------------------------------------------------------------------------

failures = []
stats = {'resolutions': 0, 'mutations': 0, 'exact': 0, 'matched': 0, 'unsupported': 0,
         'copies': 0, 'e2e': 0}


def fail(*args):
    failures.append(args)
    if len(failures) <= 10:
        print('MISMATCH', *args)


def check_resolution(handlers, model, trace):
    if model and rng.random() < 0.2:
        media_type = rng.choice(list(model))  # exact hit on a current key
    else:
        media_type = rng.choice(CONTENT_TYPE_TEXTS + [None, '', '*/*'] + KEY_TEXTS[:12])
    if media_type in KEYS and media_type not in CONTENT_TYPES:
        # Wildcard keys such as text/* with parameters are also valid ranges.
        main, sub, params = KEYS[media_type]
        CONTENT_TYPES[media_type] = [(main, sub, params, 1.0)]
    default = rng.choice(DEFAULT_TEXTS)
    if default in KEYS and default not in CONTENT_TYPES:
        main, sub, params = KEYS[default]
        CONTENT_TYPES[default] = [(main, sub, params, 1.0)]
    raise_not_found = rng.random() < 0.6

    expected = model_resolve(model, media_type, default)
    stats['resolutions'] += 1

    try:
        if raise_not_found and rng.random() < 0.5:
            result = handlers._resolve(media_type, default)
        else:
            result = handlers._resolve(media_type, default, raise_not_found)
    except errors.HTTPUnsupportedMediaType as ex:
        if not raise_not_found:
            fail('415 raised although raise_not_found=False', media_type, default)
        if ex.status_code != 415:
            fail('wrong status', ex.status)
        result = 'unsupported'
    except Exception as ex:  # noqa: BLE001
        fail('unexpected exception', repr(ex), media_type, default, trace[-5:])
        return

    if expected is None:
        stats['unsupported'] += 1
        if raise_not_found:
            if result != 'unsupported':
                fail('expected 415', media_type, default, result, trace[-5:])
        elif result != (None, None, None):
            fail('expected (None, None, None)', media_type, default, result, trace[-5:])
        return

    effective = media_type if media_type and media_type != '*/*' else default
    stats['exact' if effective in model else 'matched'] += 1
    if result == 'unsupported' or result[0] is not expected:
        fail('wrong/stale handler', media_type, default, result, expected, list(model), trace[-5:])
        return
    handler, ser, deser = result
    if ser != getattr(expected, '_serialize_sync', None):
        fail('wrong _serialize_sync', media_type, result)
    if deser != getattr(expected, '_deserialize_sync', None):
        fail('wrong _deserialize_sync', media_type, result)


def mutate(live, index, trace):
    handlers, model = live[index]
    op = rng.choice(
        ['set', 'set', 'set', 'replace', 'replace', 'del', 'del', 'update', 'ior',
         'setdefault', 'pop', 'pop_missing', 'popitem', 'clear', 'copy', 'copycopy',
         'drop']
    )
    trace.append(op)
    stats['mutations'] += 1

    if op == 'set':
        key, value = rng.choice(KEY_TEXTS), new_handler()
        handlers[key] = value
        model[key] = value
    elif op == 'replace' and model:
        key, value = rng.choice(list(model)), new_handler()
        handlers[key] = value
        model[key] = value
    elif op == 'del' and model:
        key = rng.choice(list(model))
        del handlers[key]
        del model[key]
    elif op in ('update', 'ior'):
        pairs = [
            (rng.choice(list(model) + KEY_TEXTS), new_handler())
            for _ in range(rng.randrange(0, 4))
        ]
        if op == 'ior':
            handlers |= dict(pairs)
            if handlers is not live[index][0]:
                fail('|= did not return self')
        elif rng.random() < 0.5:
            handlers.update(dict(pairs))
        else:
            handlers.update(pairs)
        model.update(dict(pairs) if op == 'ior' else pairs)
    elif op == 'setdefault':
        key, value = rng.choice(list(model) + KEY_TEXTS), new_handler()
        got = handlers.setdefault(key, value)
        if got is not model.setdefault(key, value):
            fail('setdefault result differs', key)
    elif op == 'pop' and model:
        key = rng.choice(list(model))
        if handlers.pop(key) is not model.pop(key):
            fail('pop result differs', key)
    elif op == 'pop_missing':
        key = rng.choice(KEY_TEXTS)
        if key not in model:
            if handlers.pop(key, None) is not None:
                fail('pop(missing, None) returned something', key)
            try:
                handlers.pop(key)
            except KeyError:
                pass
            else:
                fail('pop(missing) did not raise', key)
            try:
                del handlers[key]
            except KeyError:
                pass
            else:
                fail('del missing did not raise', key)
    elif op == 'popitem' and model:
        # NOTE: MutableMapping.popitem() (which UserDict inherits) removes the
        #   *first* item, unlike dict.popitem().
        first = next(iter(model))
        if handlers.popitem() != (first, model.pop(first)):
            fail('popitem result differs')
    elif op == 'clear':
        if rng.random() < 0.3:
            handlers.clear()
            model.clear()
    elif op in ('copy', 'copycopy') and len(live) < 4:
        clone = handlers.copy() if op == 'copy' else copy.copy(handlers)
        if type(clone) is not type(handlers) or clone is handlers:
            fail('copy has the wrong type/identity')
        live.append((clone, dict(model)))
        stats['copies'] += 1
    elif op == 'drop' and len(live) > 1:
        del live[rng.randrange(len(live))]

    for hnd, mdl in live:
        if list(hnd.items()) != list(mdl.items()) or len(hnd) != len(mdl):
            fail('mapping content diverged from the model', trace[-5:])


def run_history(number):
    trace = []
    if number % 3 == 0:
        handlers = media.Handlers()
        model = dict(handlers.data)
    elif number % 3 == 1:
        initial = {key: new_handler() for key in rng.sample(KEY_TEXTS, rng.randrange(0, 6))}
        handlers = media.Handlers(initial)
        model = dict(initial)
    else:
        handlers = media.Handlers({})
        model = {}
    for key in list(model):
        if key not in KEYS:
            # Default handlers (json / multipart / urlencoded)
            main, _, sub = key.partition('/')
            KEYS[key] = (main, sub, {})
    live = [(handlers, model)]

    for _ in range(STEPS):
        if rng.random() < 0.35:
            mutate(live, rng.randrange(len(live)), trace)
        # Resolve on every live mapping so that each of their caches is warm
        # (and would be stale, were it not invalidated) before the next change.
        for hnd, mdl in live:
            for _ in range(rng.choice([1, 2, 3])):
                check_resolution(hnd, mdl, trace)


# --------------------------------------------------------------------------
# End to end: request media resolution through WSGI and ASGI apps
# --------------------------------------------------------------------------


class WSGIResource:
    def on_post(self, req, resp):
        resp.media = req.get_media()


class ASGIResource:
    async def on_post(self, req, resp):
        resp.media = await req.get_media()


def run_end_to_end(app, resource, steps):
    handlers = media.Handlers({})
    model = {}
    app.req_options.media_handlers = handlers
    app.add_route('/', resource)
    client = testing.TestClient(app)
    plain_types = [
        t for t in CONTENT_TYPE_TEXTS if CONTENT_TYPES[t] is not None and t == t.strip()
    ]

    for _ in range(steps):
        roll = rng.random()
        if roll < 0.25 or not model:
            key, value = rng.choice(KEY_TEXTS[:20]), new_handler()
            handlers[key] = value
            model[key] = value
        elif roll < 0.35:
            key = rng.choice(list(model))
            if rng.random() < 0.5:
                del handlers[key]
            else:
                handlers.pop(key)
            del model[key]
        elif roll < 0.40:
            pairs = {rng.choice(list(model)): new_handler()}
            handlers.update(pairs)
            model.update(pairs)

        content_type = rng.choice(plain_types)
        expected = model_resolve(model, content_type, app.req_options.default_media_type)
        result = client.simulate_post('/', body=b'x', headers={'Content-Type': content_type})
        stats['e2e'] += 1
        if expected is None:
            if result.status_code != 415:
                fail('e2e expected 415', content_type, result.status, list(model))
        elif result.status_code != 200 or result.json != {'handler': expected.ident}:
            fail('e2e wrong/stale handler', content_type, result.status, result.text, expected)


def main():
    for number in range(N_HISTORIES):
        run_history(number)

    run_end_to_end(falcon.App(), WSGIResource(), 500)
    run_end_to_end(falcon.asgi.App(), ASGIResource(), 200)

    # Fixed expectations.
    h1, h2, h3 = new_handler(), new_handler(), new_handler()
    handlers = media.Handlers({'application/json': h1})
    assert handlers._resolve('application/json', 'x/y')[0] is h1
    assert handlers._resolve('application/json;version=1', 'x/y')[0] is h1
    handlers['application/json;version=1'] = h2
    assert handlers._resolve('application/json;version=1', 'x/y')[0] is h2
    assert handlers._resolve(None, 'application/json')[0] is h1
    assert handlers._resolve('*/*', 'application/json')[0] is h1
    del handlers['application/json']
    assert handlers._resolve('application/json', 'x/y')[0] is h2
    handlers.pop('application/json;version=1')
    assert handlers._resolve('application/json', 'x/y', False) == (None, None, None)
    handlers.update({'application/*': h3})
    assert handlers._resolve('application/json', 'x/y')[0] is h3
    handlers.clear()
    try:
        handlers._resolve('application/json', 'x/y')
    except errors.HTTPUnsupportedMediaType:
        pass
    else:
        fail('expected 415 after clear()')

    if stats['resolutions'] < 5000 or stats['matched'] < 1000 or stats['unsupported'] < 300:
        fail('generator drifted', stats)

    if failures:
        print('FAIL', len(failures), stats)
        return 1
    print('cases:', stats)
    print('PASS')
    return 0


if __name__ == '__main__':
    sys.exit(main())
