"""Generated check for patch 3 (_MediaRange.match_score: reshaped control flow).

Media ranges are generated from a *structured* description (type, subtype,
ordered parameter list, q spelling), rendered to header text with random
whitespace / case / quoting, and the results of falcon.util.mediatypes are
compared with a reference model that works on the structure (it never parses
the rendered text).  Emphasis of this file: specificity -- many wildcard
ranges and wildcard candidates, many (shared, conflicting, extraneous,
repeated) parameters on both sides, few distinct values so that ties on every
criterion are frequent.  Besides quality()/best_match(), the raw 5-tuple
returned by _MediaRange.match_score() is compared with the model's sort key.

Run:  PYTHONPATH=<falcon tree> python check.py      (prints PASS, exit 0)
"""

import random
import sys

from falcon import errors
from falcon.util import mediatypes

SEED = 0xC1103
N_CASES = 9000

rng = random.Random(SEED)

MAIN = ['text', 'application', 'image']
SUB = ['html', 'json', 'v1+json']
PNAMES = ['charset', 'version', 'level', 'a']
PVALUES = ['1', '2', 'utf-8', 'UTF-8']
QUOTED_EXTRA = ['a,b', 'a;b', 'say "hi"', '', '1', '2']

Q_VALID = [
    '0', '0.', '0.0', '0.1', '0.5', '0.25', '0.333', '0.999', '0.001', '0.000',
    '1', '1.', '1.0', '1.00', '1.000', '0.1234', '0.50000', '1.0000', '.5',
    '00.5', '5e-1', '1e0', '0.7', '0.8', '0.9', '0.2',
]
Q_INVALID = [
    '1.1', '2', '-0.1', '-1', 'abc', '', 'nan', 'inf', '-inf', '1,5', '0.5x',
    '1.0.0', '0x1', 'NaN', 'Infinity', '1e1',
]


def ows():
    return rng.choice(['', '', '', ' ', '  ', '\t'])


def rand_case(name):
    return ''.join(c.upper() if rng.random() < 0.3 else c for c in name)


def quote(value):
    return '"' + value.replace('"', '\\"') + '"'


def gen_params(max_n=3):
    """Ordered list of (name, value, force_quote) -- names may repeat."""
    params = []
    for _ in range(rng.choice([0, 0, 1, 1, 2, 2, max_n, max_n + 1])):
        name = rng.choice(PNAMES)
        if rng.random() < 0.12:
            params.append((name, rng.choice(QUOTED_EXTRA), True))
        else:
            params.append((name, rng.choice(PVALUES), rng.random() < 0.15))
    return params


def render_params(params):
    out = []
    for name, value, quoted in params:
        if name is None:
            # A parameter without '=' (or an empty one): ignored by the parser.
            out.append(ows() + ';' + ows() + value)
            continue
        text = quote(value) if quoted else value
        out.append(
            ows() + ';' + ows() + rand_case(name) + ows() + '=' + ows() + text
        )
    return ''.join(out)


def gen_range():
    """Return (text, model) where model is None for an invalid member, else
    (main, sub, params_dict, q)."""
    roll = rng.random()
    if roll < 0.015:
        # Structurally invalid members: no type/subtype separator.
        text = rng.choice(['', ' ', 'text', 'nonsense', 'text;q=0.5', ';q=1'])
        return text, None

    if roll < 0.17:
        main, sub, type_text = '*', '*', rng.choice(['*/*', '*', '* / *'])
    elif roll < 0.40:
        main, sub = rng.choice(MAIN), '*'
        type_text = main + ows() + '/' + ows() + '*'
    else:
        main, sub = rng.choice(MAIN), rng.choice(SUB)
        type_text = main + ows() + '/' + ows() + sub

    params = gen_params()
    # Flag parameters / empty parameters are dropped by the parser.
    if rng.random() < 0.1:
        params.insert(
            rng.randrange(len(params) + 1), (None, rng.choice(['flag', '']), False)
        )

    # q: absent, or 1-2 occurrences at arbitrary positions (the last one wins,
    # just like any other repeated parameter name).
    n_q = rng.choice([0, 0, 1, 1, 1, 1, 2])
    valid = True
    for _ in range(n_q):
        if rng.random() < 0.02:
            qtext = rng.choice(Q_INVALID)
        else:
            qtext = rng.choice(Q_VALID)
        # '1,5' can only be written quoted (the comma would split the range);
        # an empty value can be written either way.
        force = (',' in qtext) or rng.random() < 0.1
        params.insert(rng.randrange(len(params) + 1), ('q', qtext, force))

    pdict = {}
    for name, value, _quoted in params:
        if name is not None:
            pdict[name] = value

    q = 1.0
    if 'q' in pdict:
        qtext = pdict.pop('q')
        try:
            q = float(qtext)
        except ValueError:
            valid = False
        else:
            # Documented: a real number in the range 0 through 1.
            if q != q or q < 0.0 or q > 1.0:
                valid = False

    text = ows() + type_text + render_params(params) + ows()
    if not valid:
        return text, None
    return text, (main, sub, pdict, q)


def gen_candidate():
    """Return (text, model) where model is None for an invalid media type,
    else (main, sub, params_dict)."""
    roll = rng.random()
    if roll < 0.02:
        return rng.choice(['', 'text', 'nonsense;a=1']), None
    if roll < 0.08:
        main, sub, type_text = '*', '*', rng.choice(['*/*', '*'])
    elif roll < 0.20:
        main, sub = rng.choice(MAIN), '*'
        type_text = main + '/*'
    else:
        main, sub = rng.choice(MAIN), rng.choice(SUB)
        type_text = main + '/' + sub
    params = gen_params(3)
    if rng.random() < 0.05:
        # For a media type (not a range) q is an ordinary parameter.
        params.append(('q', rng.choice(Q_VALID + Q_INVALID[:4]), False))
    pdict = {}
    for name, value, _quoted in params:
        pdict[name] = value
    # NOTE: no leading/trailing whitespace on candidates, they are returned
    #   verbatim by best_match() and compared by identity of the text.
    return type_text + render_params(params), (main, sub, pdict)


# --------------------------------------------------------------------------
# Reference model (documented specificity order)
# --------------------------------------------------------------------------


def specificity(cand, rng_model):
    """None when the range does not match; else the documented sort key."""
    cmain, csub, cparams = cand
    rmain, rsub, rparams, _q = rng_model

    wild_main = rmain == '*' or cmain == '*'
    if not wild_main and rmain != cmain:
        return None
    wild_sub = rsub == '*' or csub == '*'
    if not wild_sub and rsub != csub:
        return None

    shared = [name for name in rparams if name in cparams]
    for name in shared:
        if rparams[name] != cparams[name]:
            return None

    identical = sorted(rparams) == sorted(cparams)
    return (
        0 if wild_main else 1,  # 1. exact type over wildcard
        0 if wild_sub else 1,  # 2. exact subtype over wildcard
        1 if identical else 0,  # 3. exact parameter match
        len(shared),  # 4. number of matching parameters
    )


def model_quality(cand, ranges):
    best_key = None
    best_q = 0.0
    for r in ranges:
        key = specificity(cand, r)
        if key is None:
            continue
        if best_key is None or key > best_key:
            best_key, best_q = key, r[3]
        elif key == best_key and r[3] > best_q:
            best_q = r[3]  # 5. finally, the highest q among equally specific
    return best_q


def model_best_match(cands, ranges_ok, ranges):
    """Return ('value', text) or ('raises', exception class)."""
    if not cands:
        return ('value', '')
    first_text, first_model = cands[0]
    if first_model is None:
        return ('raises', errors.InvalidMediaType)
    if not ranges_ok:
        return ('raises', errors.InvalidMediaRange)
    for _text, model in cands:
        if model is None:
            return ('raises', errors.InvalidMediaType)
    best_text, best_q = '', 0.0
    for text, model in cands:
        q = model_quality(model, ranges)
        if q > best_q:  # strict: the first of equally good candidates wins
            best_text, best_q = text, q
    return ('value', best_text)


def observe(func, *args):
    try:
        return ('value', func(*args))
    except ValueError as ex:
        return ('raises', type(ex))


def main():
    failures = 0
    stats = {'invalid_header': 0, 'q0_only': 0, 'quality': 0, 'best': 0,
             'score': 0, 'score_nomatch': 0, 'score_exact': 0, 'score_shared': 0}

    for case in range(N_CASES):
        members = [gen_range() for _ in range(rng.choice([1, 1, 2, 3, 4, 6]))]
        if rng.random() < 0.15:
            members.append(rng.choice(members))  # duplicates
        header = ','.join(text for text, _ in members)
        ranges_ok = all(model is not None for _, model in members)
        ranges = [model for _, model in members if model is not None]
        if not ranges_ok:
            stats['invalid_header'] += 1

        cands = [gen_candidate() for _ in range(rng.choice([0, 1, 2, 3, 5]))]

        # --- quality() for every candidate
        for text, model in cands:
            stats['quality'] += 1
            if model is None:
                expected = ('raises', errors.InvalidMediaType)
            elif not ranges_ok:
                expected = ('raises', errors.InvalidMediaRange)
            else:
                expected = ('value', model_quality(model, ranges))
            actual = observe(mediatypes.quality, text, header)
            if actual != expected:
                failures += 1
                if failures <= 10:
                    print('quality mismatch', repr(text), repr(header), actual, expected)

        # --- match_score(): the raw sort key of every (range, candidate) pair
        if ranges_ok:
            parsed_ranges = mediatypes._parse_media_ranges(header)
            if len(parsed_ranges) != len(ranges):
                failures += 1
                print('wrong number of ranges', repr(header))
            else:
                for text, model in cands:
                    if model is None:
                        continue
                    parsed_type = mediatypes._parse_media_type(text)
                    for parsed, range_model in zip(parsed_ranges, ranges):
                        stats['score'] += 1
                        key = specificity(model, range_model)
                        if key is None:
                            stats['score_nomatch'] += 1
                            expected_score = (-1, -1, -1, -1, 0.0)
                        else:
                            expected_score = key + (range_model[3],)
                            if key[2]:
                                stats['score_exact'] += 1
                            if key[3]:
                                stats['score_shared'] += 1
                        score = parsed.match_score(parsed_type)
                        if tuple(score) != expected_score or len(score) != 5:
                            failures += 1
                            if failures <= 10:
                                print('match_score mismatch', repr(text),
                                      repr(header), score, expected_score)

        # --- best_match()
        stats['best'] += 1
        expected = model_best_match(cands, ranges_ok, ranges)
        cand_texts = [text for text, _ in cands]
        container = rng.choice([list, tuple, iter])
        actual = observe(mediatypes.best_match, container(cand_texts), header)
        if actual != expected:
            failures += 1
            if failures <= 10:
                print('best_match mismatch', cand_texts, repr(header), actual, expected)

        # --- property, stated directly: a candidate whose best range has q=0
        #     (or that has no matching range) is never chosen.
        if actual[0] == 'value' and actual[1]:
            chosen = dict(cands)[actual[1]]
            if not model_quality(chosen, ranges) > 0.0:
                failures += 1
                print('chose a q=0 / non-matching candidate', cand_texts, repr(header))
        if ranges and all(r[3] == 0.0 for r in ranges):
            stats['q0_only'] += 1
            if actual[0] == 'value' and actual[1] != '':
                failures += 1
                print('q=0 only header produced a match', cand_texts, repr(header))

        # --- the only errors that surface are the documented value errors
        if actual[0] == 'raises' and actual[1] not in (
            errors.InvalidMediaType,
            errors.InvalidMediaRange,
        ):
            failures += 1
            print('undocumented error', actual, repr(header))

    # Fixed expectations straight from the documentation / RFC 9110 examples.
    fixed = [
        ('text/html', 'text/*;q=0.3, text/html;q=0.7, text/html;level=1', 0.7),
        ('text/html;level=1', 'text/*;q=0.3, text/html;q=0.7, text/html;level=1', 1.0),
        ('text/plain', 'text/*;q=0.3, text/html;q=0.7, */*;q=0.5', 0.3),
        ('image/jpeg', 'text/*;q=0.3, text/html;q=0.7, */*;q=0.5', 0.5),
        ('text/html', 'text/html;q=0, */*;q=1', 0.0),
        ('text/html', 'text/html;q=0.3;q=0.7', 0.7),
        ('text/html', 'text/html;Q="0.25"', 0.25),
        ('text/html;q=1', 'text/html;q=1', 1.0),
        ('text/html', 'application/json', 0.0),
    ]
    for media_type, header, expected_q in fixed:
        if mediatypes.quality(media_type, header) != expected_q:
            failures += 1
            print('fixed expectation failed', media_type, header)
    for header in ('text/html;q=1.5', 'text/html;q=', 'text/html;q=nan', 'text', ''):
        try:
            mediatypes.quality('text/html', header)
        except errors.InvalidMediaRange:
            pass
        else:
            failures += 1
            print('expected InvalidMediaRange for', repr(header))

    if (
        stats['invalid_header'] < 100
        or stats['score'] < 20000
        or stats['score_nomatch'] < 3000
        or stats['score_exact'] < 1000
        or stats['score_shared'] < 500
    ):
        print('generator drifted', stats)
        failures += 1

    if failures:
        print('FAIL', failures, stats)
        return 1
    print('cases:', stats)
    print('PASS')
    return 0


if __name__ == '__main__':
    sys.exit(main())
