"""Generated check for falcon.asgi.Request.get_media (C12, parse-at-most-once).

Drives falcon.asgi.Request directly with a hand-written ASGI ``receive``
callable that delivers the body in a random chunking and counts how often it
is awaited.  Every case is a random *history* of get_media() /
get_media(default_when_empty=...) / ``await req.media`` calls, judged against
an explicit reference model derived from the property:

* the first call that reaches the handler parses the body (expected value is
  computed independently with the stdlib: json.loads / the generated form
  mapping);
* an empty JSON body -> MediaNotFoundError, or the caller's default if given;
* an undecodable body -> MediaMalformedError (a 400, never a 5xx);
* every later call returns the *same object* or raises the *same exception
  object* (or the caller's default for the not-found error) and does not
  await ``receive`` again, nor call the handler again.

Run: PYTHONPATH=<falcon tree> python check.py   (prints PASS, exit code 0)
"""

import asyncio
import json
import random
import sys
from urllib.parse import urlencode

import falcon
import falcon.asgi
from falcon import errors
from falcon import media
from falcon import testing

SEED = 0xC12A
N_CASES = 6000

ALPHABET = [
    'a', 'B', 'z', '0', '9', ' ', '_', '-', '"', '\\', '/', '\n', '\t', '\r',
    '\x00', '\x1f', '\x7f', 'é', 'ß', 'Ж', '中', ' ',
    ' ', '﻿', '￿', '\U0001f600', '\U00010348', '\U0010ffff',
    '&', '=', '+', '%', ';', ',', '<', '>', "'", '{', '}', '[', ']', ':',
]


def rand_text(rng, max_len=8):
    return ''.join(rng.choice(ALPHABET) for _ in range(rng.randint(0, max_len)))


def rand_scalar(rng):
    k = rng.randrange(9)
    if k == 0:
        return None
    if k == 1:
        return rng.random() < 0.5
    if k == 2:
        return rng.randint(-1000, 1000)
    if k == 3:
        return rng.choice([-1, 1]) * rng.getrandbits(rng.randint(64, 200))
    if k == 4:
        return rng.uniform(-1e6, 1e6)
    if k == 5:
        return rng.choice([0.0, -0.0, 1e-300, 1.7976931348623157e308, 5e-324, 0.1])
    return rand_text(rng)


def rand_doc(rng, depth=0):
    if depth >= 3 or rng.random() < 0.35:
        return rand_scalar(rng)
    if rng.random() < 0.5:
        return [rand_doc(rng, depth + 1) for _ in range(rng.randint(0, 4))]
    return {rand_text(rng, 5): rand_doc(rng, depth + 1) for _ in range(rng.randint(0, 4))}


def rand_form(rng):
    form = {}
    for _ in range(rng.randint(0, 5)):
        key = rand_text(rng, 5).replace(',', '')
        if not key:
            continue
        if rng.random() < 0.3:
            form[key] = [rand_text(rng, 5) for _ in range(rng.randint(2, 4))]
        else:
            form[key] = rand_text(rng, 6)
    return form


def chunkings(rng, body):
    """Split body into a random list of chunks (may contain empty chunks)."""
    if not body:
        return [b''] if rng.random() < 0.7 else [b'', b'']
    style = rng.randrange(4)
    if style == 0:
        return [body]
    if style == 1:
        return [body[i:i + 1] for i in range(len(body))]
    n = rng.randint(1, min(6, len(body)))
    cuts = sorted(rng.randint(0, len(body)) for _ in range(n))
    out = []
    prev = 0
    for c in cuts:
        out.append(body[prev:c])
        prev = c
    out.append(body[prev:])
    return out


class Receiver:
    def __init__(self, chunks, omit_more_body_on_last):
        self.events = []
        for i, chunk in enumerate(chunks):
            last = i == len(chunks) - 1
            event = {'type': 'http.request', 'body': chunk}
            if not last:
                event['more_body'] = True
            elif not omit_more_body_on_last:
                event['more_body'] = False
            self.events.append(event)
        self.calls = 0

    async def __call__(self):
        self.calls += 1
        if self.events:
            return self.events.pop(0)
        return {'type': 'http.disconnect'}


class ScriptedHandler(media.BaseHandler):
    """Asynchronous-only handler (no _deserialize_sync shortcut)."""

    def __init__(self, outcome, exhaust):
        self.outcome = outcome
        self.exhaust_stream = exhaust
        self.calls = 0
        self.seen = None

    async def deserialize_async(self, stream, content_type, content_length):
        self.calls += 1
        self.seen = await stream.read()
        kind, value = self.outcome
        if kind == 'ok':
            return value
        raise value

    def serialize(self, media, content_type):  # pragma: no cover
        raise AssertionError('not used')


class Unique:
    pass


JSON_TYPES = [
    None,
    '*/*',
    'application/json',
    'application/json; charset=utf-8',
    'application/json;charset=UTF-8',
    'application/json; charset="utf-8"; x=1',
    'application/vnd.api+json',
    'application/vnd.falcon.v2+json; charset=utf-8',
]
FORM_TYPES = [
    'application/x-www-form-urlencoded',
    'application/x-www-form-urlencoded; charset=UTF-8',
    'application/x-www-form-urlencoded;x="a,b"',
]
UNSUPPORTED_TYPES = ['text/plain', 'application/xml; charset=utf-8', 'garbage']


def make_options(extra=None):
    options = falcon.RequestOptions()
    json_handler = media.JSONHandler()
    options.media_handlers['application/vnd.api+json'] = json_handler
    options.media_handlers['application/vnd.falcon.v2+json'] = json_handler
    for key, value in (extra or {}).items():
        options.media_handlers[key] = value
    return options


def make_case(rng):
    """Return (content_type, body, expected, options, scripted_handler)."""
    family = rng.randrange(10)
    scripted = None
    options = None

    if family <= 3:
        # valid JSON document
        content_type = rng.choice(JSON_TYPES)
        doc = rand_doc(rng)
        text = json.dumps(
            doc,
            ensure_ascii=rng.random() < 0.5,
            separators=rng.choice([(',', ':'), (', ', ': ')]),
        )
        body = text.encode()
        expected = ('ok', json.loads(text))
        assert expected[1] == doc or doc != doc
    elif family == 4:
        # empty JSON body
        content_type = rng.choice(JSON_TYPES)
        body = b''
        expected = ('err', errors.MediaNotFoundError)
    elif family == 5:
        # undecodable JSON body: truncated, wrong encoding, random bytes
        content_type = rng.choice(JSON_TYPES)
        mode = rng.randrange(3)
        if mode == 0:
            full = json.dumps({'k': rand_doc(rng), 'pad': [1, 'x']}).encode()
            body = full[: rng.randint(1, len(full) - 1)]
        elif mode == 1:
            text = json.dumps(rand_text(rng) + 'é中', ensure_ascii=False)
            body = text.encode(rng.choice(['utf-16', 'latin-1', 'utf-32', 'cp1252']), 'replace')
        else:
            body = bytes(rng.randrange(256) for _ in range(rng.randint(1, 12)))
        try:
            value = json.loads(body.decode())
        except ValueError:
            expected = ('err', errors.MediaMalformedError)
        else:
            expected = ('ok', value)
    elif family == 6:
        # valid form
        content_type = rng.choice(FORM_TYPES)
        form = rand_form(rng)
        body = urlencode(form, doseq=True).encode()
        expected = ('ok', form)
    elif family == 7:
        # form that is not ASCII
        content_type = rng.choice(FORM_TYPES)
        body = urlencode(rand_form(rng), doseq=True).encode() + rng.choice(
            [b'&k=\xff', '&é=1'.encode(), b'\x80']
        )
        expected = ('err', errors.MediaMalformedError)
    elif family == 8:
        # unsupported media type: the handler is never reached
        content_type = rng.choice(UNSUPPORTED_TYPES)
        body = json.dumps(rand_doc(rng)).encode()
        expected = ('unsupported', None)
    else:
        # scripted asynchronous handler with an arbitrary outcome
        content_type = 'application/x-scripted'
        body = bytes(rng.randrange(256) for _ in range(rng.randint(0, 20)))
        pick = rng.randrange(5)
        if pick == 0:
            outcome = ('ok', rng.choice([None, 0, '', [], {}, Unique()]))
        elif pick == 1:
            outcome = ('err', errors.MediaNotFoundError('Scripted'))
        elif pick == 2:
            outcome = ('err', errors.MediaMalformedError('Scripted'))
        elif pick == 3:
            outcome = ('err', ValueError('scripted'))
        else:
            outcome = ('err', falcon.HTTPForbidden())
        scripted = ScriptedHandler(outcome, exhaust=rng.random() < 0.5)
        options = make_options({content_type: scripted})
        if outcome[0] == 'ok':
            expected = ('same', outcome[1])
        else:
            expected = ('same_err', outcome[1])

    if options is None:
        options = make_options()
    return content_type, body, expected, options, scripted


async def call(req, how, default):
    if how == 'prop':
        return await req.media
    if how == 'plain':
        return await req.get_media()
    if how == 'kw':
        return await req.get_media(default_when_empty=default)
    return await req.get_media(default)


async def run_case(rng, index):
    content_type, body, expected, options, scripted = make_case(rng)

    headers = {}
    if content_type is not None:
        headers['Content-Type'] = content_type
    if rng.random() < 0.6:
        headers['Content-Length'] = str(len(body))

    chunks = chunkings(rng, body)
    receiver = Receiver(chunks, omit_more_body_on_last=rng.random() < 0.3)
    scope = testing.create_scope(method=rng.choice(['POST', 'PUT', 'PATCH']), headers=headers)
    if rng.random() < 0.5:
        req = falcon.asgi.Request(scope, receiver, options=options)
    else:
        # like the real server: the first event is received up front
        first = await receiver()
        receiver.calls = 0
        req = falcon.asgi.Request(scope, receiver, first_event=first, options=options)

    history = [
        (rng.choice(['prop', 'plain', 'kw', 'pos']), rng.choice([None, 0, {}, 'dflt', Unique()]))
        for _ in range(rng.randint(1, 6))
    ]

    ctx = 'case %d ct=%r body=%r chunks=%r history=%r' % (
        index, content_type, body, chunks, [h for h, _ in history])

    state = None  # None = not parsed, else ('ok', obj) / ('err', exc)
    calls_after_parse = None

    for how, default in history:
        gives_default = how in ('kw', 'pos')
        try:
            got = ('ok', await call(req, how, default))
        except Exception as exc:  # noqa: BLE001 - judged below
            got = ('err', exc)

        if expected[0] == 'unsupported':
            assert got[0] == 'err' and type(got[1]) is falcon.HTTPUnsupportedMediaType, ctx
            assert got[1].status_code == 415, ctx
            assert receiver.calls == 0, ctx
            continue

        if state is None:
            # ---- first call: this is the one parse ----
            calls_after_parse = receiver.calls
            kind = expected[0]
            if kind == 'ok':
                assert got[0] == 'ok', (ctx, got)
                assert got[1] == expected[1] and type(got[1]) is type(expected[1]), (ctx, got)
                state = got
            elif kind == 'same':
                assert got[0] == 'ok' and got[1] is expected[1], (ctx, got)
                state = got
            elif kind == 'same_err':
                exc = expected[1]
                if isinstance(exc, errors.MediaNotFoundError) and gives_default:
                    assert got[0] == 'ok' and got[1] is default, (ctx, got)
                else:
                    assert got[0] == 'err' and got[1] is exc, (ctx, got)
                state = ('err', exc)
            else:
                exc_type = expected[1]
                if exc_type is errors.MediaNotFoundError and gives_default:
                    assert got[0] == 'ok' and got[1] is default, (ctx, got)
                    # the error itself is observed by a later default-less call
                    state = ('err', None)
                else:
                    assert got[0] == 'err' and type(got[1]) is exc_type, (ctx, got)
                    assert got[1].status_code == 400, ctx
                    assert isinstance(got[1], falcon.HTTPBadRequest), ctx
                    state = got
            if scripted is not None:
                assert scripted.calls == 1 and scripted.seen == body, ctx
                if scripted.exhaust_stream:
                    assert req.stream.eof, ctx
            continue

        # ---- later calls: cached, stream untouched ----
        assert receiver.calls == calls_after_parse, (ctx, 'stream touched again')
        if scripted is not None:
            assert scripted.calls == 1, (ctx, 'handler called again')
        if state[0] == 'ok':
            assert got[0] == 'ok' and got[1] is state[1], (ctx, got)
            continue

        cached = state[1]
        if cached is None:
            # a not-found error hidden so far behind the caller's default
            if gives_default:
                assert got[0] == 'ok' and got[1] is default, (ctx, got)
            else:
                assert got[0] == 'err' and type(got[1]) is errors.MediaNotFoundError, (ctx, got)
                assert got[1].status_code == 400, ctx
                state = got
        elif isinstance(cached, errors.MediaNotFoundError) and gives_default:
            assert got[0] == 'ok' and got[1] is default, (ctx, got)
        else:
            assert got[0] == 'err' and got[1] is cached, (ctx, got)

    return len(history)


async def main():
    rng = random.Random(SEED)
    total_calls = 0
    for index in range(N_CASES):
        total_calls += await run_case(rng, index)
    return total_calls


if __name__ == '__main__':
    n = asyncio.run(main())
    assert n > N_CASES
    print('checked %d cases / %d get_media calls' % (N_CASES, n))
    print('PASS')
    sys.exit(0)
