"""Generated check for falcon.Response.render_body (WSGI) - C12 round trip.

Part A (round trip, through a real falcon.App over WSGI): a generated JSON
document / form mapping is assigned to ``resp.media`` with a generated content
type; the rendered body is POSTed back with the same content type and
``req.get_media()`` must be equal to the document.  The body is additionally
compared with what the stdlib produces for the same handler contract
(``json.loads(body) == doc``; ``parse_qs`` view of the form).

Part B (state machine on falcon.Response): random histories of
``media=``/``text=``/``data=``/``content_type=`` assignments and
``render_body()`` calls are replayed against an explicit reference model of
the documented precedence (text, then data, then the serialized media, else
None), the lazily defaulted content type, the "serialize at most once per
media assignment" cache (a handler may legitimately return ``None``), and
the unsupported-media-type error path.

Run: PYTHONPATH=<falcon tree> python check.py   (prints PASS, exit code 0)
"""

import json
import random
import sys
from urllib.parse import parse_qs
from urllib.parse import urlencode

import falcon
from falcon import media
from falcon import testing

SEED = 0xC12B
N_ROUNDTRIP = 2500
N_HISTORIES = 3000

ALPHABET = [
    'a', 'B', 'z', '0', '9', ' ', '_', '-', '"', '\\', '/', '\n', '\t', '\r',
    '\x00', '\x1f', '\x7f', 'é', 'ß', 'Ж', '中', ' ',
    ' ', '﻿', '￿', '\U0001f600', '\U00010348', '\U0010ffff',
    '&', '=', '+', '%', ';', ',', '<', '>', "'", '{', '}', '[', ']', ':',
]


def rand_text(rng, max_len=8):
    return ''.join(rng.choice(ALPHABET) for _ in range(rng.randint(0, max_len)))


def rand_scalar(rng):
    k = rng.randrange(9)
    if k == 0:
        return None
    if k == 1:
        return rng.random() < 0.5
    if k == 2:
        return rng.randint(-1000, 1000)
    if k == 3:
        return rng.choice([-1, 1]) * rng.getrandbits(rng.randint(64, 200))
    if k == 4:
        return rng.uniform(-1e6, 1e6)
    if k == 5:
        return rng.choice([0.0, 1e-300, 1.7976931348623157e308, 5e-324, 0.1])
    return rand_text(rng)


def rand_doc(rng, depth=0):
    if depth >= 3 or rng.random() < 0.35:
        return rand_scalar(rng)
    if rng.random() < 0.5:
        return [rand_doc(rng, depth + 1) for _ in range(rng.randint(0, 4))]
    return {rand_text(rng, 5): rand_doc(rng, depth + 1) for _ in range(rng.randint(0, 4))}


def rand_form(rng):
    form = {}
    for _ in range(rng.randint(0, 5)):
        key = rand_text(rng, 5)
        if not key:
            continue
        if rng.random() < 0.3:
            form[key] = [rand_text(rng, 5) for _ in range(rng.randint(2, 4))]
        else:
            form[key] = rand_text(rng, 6)
    return form


JSON_TYPES = [
    None,  # falls back to the app's default media type
    'application/json',
    'application/json; charset=utf-8',
    'application/json;charset=UTF-8',
    'application/json; charset="utf-8"; x=1',
    'application/vnd.api+json',
    'application/vnd.falcon.v2+json; charset=utf-8',
]
FORM_TYPES = [
    'application/x-www-form-urlencoded',
    'application/x-www-form-urlencoded; charset=UTF-8',
]


# --------------------------------------------------------------------------
# Part A
# --------------------------------------------------------------------------
class Echo:
    def __init__(self):
        self.outgoing = None
        self.content_type = None
        self.received = []

    def on_get(self, req, resp):
        resp.media = self.outgoing
        if self.content_type is not None:
            resp.content_type = self.content_type

    def on_post(self, req, resp):
        first = req.get_media()
        # parsed at most once: the very same object comes back
        assert req.get_media() is first and req.media is first
        self.received.append(first)
        resp.status = falcon.HTTP_204


def part_a(rng):
    app = falcon.App()
    json_handler = media.JSONHandler()
    for options in (app.req_options, app.resp_options):
        options.media_handlers['application/vnd.api+json'] = json_handler
        options.media_handlers['application/vnd.falcon.v2+json'] = json_handler
    echo = Echo()
    app.add_route('/echo', echo)
    client = testing.TestClient(app)

    for index in range(N_ROUNDTRIP):
        is_form = rng.random() < 0.3
        if is_form:
            doc = rand_form(rng)
            content_type = rng.choice(FORM_TYPES)
        else:
            doc = rand_doc(rng)
            content_type = rng.choice(JSON_TYPES)
            if doc is None:
                # media=None means "no media"; not a document assignment
                doc = [None]

        echo.outgoing = doc
        echo.content_type = content_type
        echo.received.clear()

        result = client.simulate_get('/echo')
        ctx = 'roundtrip %d ct=%r doc=%r' % (index, content_type, doc)
        assert result.status_code == 200, ctx
        body = result.content
        sent_type = result.headers['content-type']
        if content_type is None:
            assert sent_type == falcon.MEDIA_JSON, ctx
        else:
            assert sent_type == content_type, ctx
        assert result.headers['content-length'] == str(len(body)), ctx

        # reference: what the wire format must mean according to the stdlib
        if is_form:
            body.decode('ascii')
            flat = {k: (v if isinstance(v, list) else [v]) for k, v in doc.items()}
            assert parse_qs(body.decode('ascii'), keep_blank_values=True) == flat, ctx
            assert body == urlencode(doc, doseq=True).encode(), ctx
        else:
            assert json.loads(body.decode('utf-8')) == doc, ctx

        back = client.simulate_post(
            '/echo', body=body, headers={'Content-Type': sent_type}
        )
        assert back.status_code == 204, (ctx, back.status, back.text)
        assert len(echo.received) == 1, ctx
        got = echo.received[0]
        assert got == doc and type(got) is type(doc), (ctx, got)


# --------------------------------------------------------------------------
# Part B
# --------------------------------------------------------------------------
class NoneMarker:
    """Media object for which the handler returns None."""


class CountingHandler(media.BaseHandler):
    def __init__(self):
        self.log = []

    def serialize(self, media_obj, content_type):
        self.log.append((media_obj, content_type))
        if isinstance(media_obj, NoneMarker):
            return None
        return b'<' + json.dumps(media_obj, ensure_ascii=False).encode() + b'>'

    def deserialize(self, stream, content_type, content_length):  # pragma: no cover
        raise AssertionError('not used')


_MODEL_UNSET = object()


class Model:
    """Reference model of Response body rendering."""

    def __init__(self, default_media_type, supported):
        self.default = default_media_type
        self.supported = supported  # content type -> 'json' | 'form' | 'count'
        self.text = None
        self.data = None
        self.media = None
        self.content_type = None
        self.rendered = _MODEL_UNSET
        self.serialize_log = []

    def set_media(self, value):
        self.media = value
        self.rendered = _MODEL_UNSET

    def render(self):
        """Returns ('ok', ...) or ('err', 415) or ('err', 'type')."""
        if self.text is not None:
            if isinstance(self.text, str):
                return ('ok', self.text.encode('utf-8'))
            return ('ok', self.text)
        if self.data is not None:
            return ('ok', self.data)
        if self.media is None:
            return ('ok', None)
        if self.rendered is _MODEL_UNSET:
            if not self.content_type:
                self.content_type = self.default
            kind = self.supported.get(self.content_type)
            if kind is None:
                return ('err', 415)
            if kind == 'json':
                if isinstance(self.media, NoneMarker):
                    # json.dumps() cannot serialize it; nothing gets cached
                    return ('err', 'type')
                self.rendered = ('json', self.media)
            elif kind == 'form':
                try:
                    self.rendered = ('bytes', urlencode(self.media, doseq=True).encode())
                except TypeError:
                    # not a mapping / sequence of pairs; nothing gets cached
                    return ('err', 'type')
            else:
                self.serialize_log.append((self.media, self.content_type))
                if isinstance(self.media, NoneMarker):
                    self.rendered = ('bytes', None)
                else:
                    self.rendered = (
                        'bytes',
                        b'<' + json.dumps(self.media, ensure_ascii=False).encode() + b'>',
                    )
        return ('ok', self.rendered)


SUPPORTED = {
    'application/json': 'json',
    'application/json; charset=utf-8': 'json',
    'application/vnd.api+json': 'json',
    'application/x-www-form-urlencoded': 'form',
    'application/x-counting': 'count',
    'application/x-counting; v=2': 'count',
}
UNSUPPORTED = ['text/plain', 'application/xml; charset=utf-8', 'garbage']


def part_b(rng):
    n_render = 0
    for index in range(N_HISTORIES):
        default_media_type = rng.choice(
            ['application/json', 'application/x-counting', 'text/plain']
        )
        options = falcon.ResponseOptions()
        options.default_media_type = default_media_type
        counting = CountingHandler()
        options.media_handlers['application/x-counting'] = counting
        options.media_handlers['application/vnd.api+json'] = media.JSONHandler()

        resp = falcon.Response(options=options)
        model = Model(default_media_type, SUPPORTED)
        trace = []

        for _ in range(rng.randint(1, 12)):
            op = rng.randrange(10)
            if op <= 1:
                kind = rng.randrange(5)
                if kind == 0:
                    value = None
                elif kind == 1:
                    value = NoneMarker()
                elif kind == 2:
                    value = rand_form(rng)
                else:
                    value = rand_doc(rng)
                trace.append(('media', value))
                resp.media = value
                model.set_media(value)
            elif op == 2:
                value = rng.choice([None, None, rand_text(rng), rand_text(rng).encode(), ''])
                trace.append(('text', value))
                resp.text = value
                model.text = value
            elif op == 3:
                value = rng.choice([None, None, rand_text(rng).encode(), b''])
                trace.append(('data', value))
                resp.data = value
                model.data = value
            elif op == 4:
                value = rng.choice(list(SUPPORTED) + UNSUPPORTED + [None])
                trace.append(('content_type', value))
                resp.content_type = value
                model.content_type = value
            else:
                trace.append(('render',))
                n_render += 1
                ctx = 'history %d default=%r trace=%r' % (index, default_media_type, trace)
                expected = model.render()
                try:
                    got = ('ok', resp.render_body())
                except falcon.HTTPUnsupportedMediaType as exc:
                    assert exc.status_code == 415, ctx
                    got = ('err', 415)
                except TypeError:
                    got = ('err', 'type')

                if expected[0] == 'ok' and isinstance(expected[1], tuple):
                    kind, payload = expected[1]
                    if kind == 'json':
                        assert got[0] == 'ok' and isinstance(got[1], bytes), (ctx, got)
                        assert json.loads(got[1].decode('utf-8')) == payload, (ctx, got)
                    else:
                        assert got == ('ok', payload), (ctx, got)
                else:
                    assert got == expected, (ctx, got, expected)

                # observable state after rendering
                assert resp.content_type == model.content_type, ctx
                assert resp.media is model.media, ctx
                assert len(counting.log) == len(model.serialize_log), (
                    ctx, 'serialize called a different number of times')
                for (m1, c1), (m2, c2) in zip(counting.log, model.serialize_log):
                    assert m1 is m2 and c1 == c2, ctx
    return n_render


if __name__ == '__main__':
    rng = random.Random(SEED)
    part_a(rng)
    n = part_b(rng)
    assert n > 3000, n
    print('checked %d round trips and %d histories / %d render_body calls'
          % (N_ROUNDTRIP, N_HISTORIES, n))
    print('PASS')
    sys.exit(0)
