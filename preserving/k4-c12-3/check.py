"""Generated check for falcon.asgi.BoundedStream.readall - C12 "every chunking".

Part A drives ``falcon.asgi.BoundedStream`` directly with generated ASGI event
sequences (random chunk sizes, empty chunks, events without a ``body`` key,
``more_body`` missing / False / 0 / None / True / 1, ``http.disconnect`` in the
middle, chunks longer than the announced Content-Length, an optional
pre-received first event, an optional partial ``read(n)`` before) and compares
``readall()`` / ``read()`` with an explicit reference model of the ASGI body
contract: the body is the concatenation of the ``body`` values up to and
including the first event whose ``more_body`` is not truthy, cut at the
announced length; nothing is received once that point is reached; ``tell()``
counts what was handed out; a second call returns ``b''`` without receiving.

Part B is the property itself: a generated JSON document / form mapping is
serialized by the response side (falcon.asgi.Response.render_body), chopped
into a random chunking, and must deserialize (falcon.asgi.Request.get_media,
which reads the stream through ``read()`` -> ``readall()``) to an equal
document, for every chunking; truncated bodies must give a 400-class error.

Run: PYTHONPATH=<falcon tree> python check.py   (prints PASS, exit code 0)
"""

import asyncio
import json
import random
import sys

import falcon
import falcon.asgi
from falcon import errors
from falcon import media
from falcon import testing
from falcon.asgi.stream import BoundedStream

SEED = 0xC12C
N_STREAMS = 6000
N_ROUNDTRIP = 2500

ALPHABET = [
    'a', 'B', 'z', '0', '9', ' ', '_', '-', '"', '\\', '/', '\n', '\t', '\r',
    '\x00', '\x1f', '\x7f', 'é', 'ß', 'Ж', '中', ' ',
    ' ', '﻿', '￿', '\U0001f600', '\U00010348', '\U0010ffff',
    '&', '=', '+', '%', ';', ',', '<', '>', "'", '{', '}', '[', ']', ':',
]


def rand_text(rng, max_len=8):
    return ''.join(rng.choice(ALPHABET) for _ in range(rng.randint(0, max_len)))


def rand_scalar(rng):
    k = rng.randrange(9)
    if k == 0:
        return None
    if k == 1:
        return rng.random() < 0.5
    if k == 2:
        return rng.randint(-1000, 1000)
    if k == 3:
        return rng.choice([-1, 1]) * rng.getrandbits(rng.randint(64, 200))
    if k == 4:
        return rng.uniform(-1e6, 1e6)
    if k == 5:
        return rng.choice([0.0, 1e-300, 1.7976931348623157e308, 5e-324, 0.1])
    return rand_text(rng)


def rand_doc(rng, depth=0):
    if depth >= 3 or rng.random() < 0.35:
        return rand_scalar(rng)
    if rng.random() < 0.5:
        return [rand_doc(rng, depth + 1) for _ in range(rng.randint(0, 4))]
    return {rand_text(rng, 5): rand_doc(rng, depth + 1) for _ in range(rng.randint(0, 4))}


def rand_form(rng):
    form = {}
    for _ in range(rng.randint(0, 5)):
        key = rand_text(rng, 5)
        if not key:
            continue
        if rng.random() < 0.3:
            form[key] = [rand_text(rng, 5) for _ in range(rng.randint(2, 4))]
        else:
            form[key] = rand_text(rng, 6)
    return form


def split(rng, body, allow_empty=True):
    if not body:
        return [b'']
    style = rng.randrange(4)
    if style == 0:
        return [body]
    if style == 1:
        return [body[i:i + 1] for i in range(len(body))]
    n = rng.randint(1, min(6, len(body)))
    cuts = sorted(rng.randint(0, len(body)) for _ in range(n))
    out = []
    prev = 0
    for c in cuts:
        if c > prev or allow_empty:
            out.append(body[prev:c])
        prev = c
    out.append(body[prev:])
    return out


class Receiver:
    def __init__(self, events):
        self.events = list(events)
        self.calls = 0

    async def __call__(self):
        self.calls += 1
        if self.events:
            return self.events.pop(0)
        return {'type': 'http.disconnect'}


# --------------------------------------------------------------------------
# Part A: reference model of the ASGI request body contract
# --------------------------------------------------------------------------
class StreamModel:
    def __init__(self, events, first_event, content_length):
        self.events = list(events)
        self.received = 0
        self.pos = 0
        first_chunk = b''
        if first_event and 'body' in first_event:
            first_chunk = first_event['body']
        if content_length is None:
            self.buffer = first_chunk
            self.remaining = 2 ** 63
        else:
            self.buffer = first_chunk[:content_length]
            self.remaining = content_length - len(self.buffer)
        if first_event and self.remaining and not first_event.get('more_body'):
            self.remaining = 0

    def _next(self):
        self.received += 1
        if self.events:
            return self.events.pop(0)
        return {'type': 'http.disconnect'}

    def _fill(self, want):
        """Receive until `want` bytes are buffered (None = everything)."""
        while self.remaining > 0 and (want is None or len(self.buffer) < want):
            event = self._next()
            if 'body' in event:
                take = event['body'][: self.remaining]
                self.buffer += take
                self.remaining -= len(take)
            if not event.get('more_body'):
                self.remaining = 0

    def read(self, size):
        if size is None or size == -1:
            self._fill(None)
            data, self.buffer = self.buffer, b''
        elif size <= 0 or (not self.buffer and self.remaining == 0):
            data = b''
        else:
            self._fill(size)
            data, self.buffer = self.buffer[:size], self.buffer[size:]
        self.pos += len(data)
        return data

    @property
    def eof(self):
        return not self.buffer and self.remaining == 0


def rand_events(rng):
    """Return (events, well_formed_body_or_None)."""
    body = bytes(rng.randrange(256) for _ in range(rng.randint(0, 40)))
    chunks = split(rng, body)
    well_formed = rng.random() < 0.5
    events = []
    if well_formed:
        for i, chunk in enumerate(chunks):
            event = {'type': 'http.request', 'body': chunk}
            if i < len(chunks) - 1:
                event['more_body'] = rng.choice([True, 1])
            else:
                pick = rng.randrange(4)
                if pick == 0:
                    event['more_body'] = False
                elif pick == 1:
                    event['more_body'] = 0
                elif pick == 2:
                    event['more_body'] = None
            events.append(event)
        # anything after the final event must never be looked at
        events.append({'type': 'http.request', 'body': b'JUNK', 'more_body': True})
        return events, body

    for chunk in chunks:
        pick = rng.randrange(12)
        if pick == 0:
            events.append({'type': 'http.disconnect'})
        elif pick == 1:
            events.append({'type': 'http.request', 'more_body': True})
        elif pick == 2:
            events.append({'type': 'http.request', 'body': chunk})
        elif pick == 3:
            events.append({'type': 'http.request', 'body': chunk, 'more_body': rng.choice([0, None, False, ''])})
        else:
            events.append({'type': 'http.request', 'body': chunk, 'more_body': rng.choice([True, 1, 'yes'])})
    return events, None


async def part_a(rng):
    n_checked = 0
    for index in range(N_STREAMS):
        events, body = rand_events(rng)
        total = sum(len(e.get('body', b'')) for e in events)

        if body is not None:
            content_length = rng.choice([None, len(body), len(body)])
        else:
            content_length = rng.choice([None, None, total, rng.randint(0, total + 3)])

        use_first = rng.random() < 0.5
        first_event = events.pop(0) if (use_first and events) else None
        ctx = 'stream %d events=%r first=%r cl=%r' % (index, events, first_event, content_length)

        receiver = Receiver(events)
        stream = BoundedStream(receiver, first_event=first_event, content_length=content_length)
        model = StreamModel(events, first_event, content_length)

        got_all = b''
        # optional partial reads first (leaves data in the internal buffer)
        for _ in range(rng.choice([0, 0, 1, 2])):
            size = rng.randint(1, 9)
            got = await stream.read(size)
            assert got == model.read(size), (ctx, size, got)
            got_all += got
            assert receiver.calls == model.received, ctx

        how = rng.randrange(3)
        if how == 0:
            got = await stream.readall()
        elif how == 1:
            got = await stream.read()
        else:
            got = await stream.read(-1)
        expected = model.read(None)
        got_all += got
        n_checked += 1

        assert got == expected, (ctx, got, expected)
        assert type(got) is bytes, ctx
        assert receiver.calls == model.received, (ctx, receiver.calls, model.received)
        assert stream.tell() == model.pos == len(got_all), ctx
        assert stream.eof and model.eof, ctx
        if body is not None:
            # the property: every chunking of a well-formed body gives the body
            assert got_all == body, (ctx, got_all, body)
            assert b'JUNK' not in got_all or b'JUNK' in body, ctx

        # consumed: further reads return nothing and do not receive
        before = receiver.calls
        assert await stream.readall() == b'', ctx
        assert await stream.read() == b'', ctx
        assert await stream.read(5) == b'', ctx
        await stream.exhaust()
        assert receiver.calls == before, ctx
        assert stream.tell() == len(got_all), ctx
    return n_checked


# --------------------------------------------------------------------------
# Part B: round trip for every chunking
# --------------------------------------------------------------------------
JSON_TYPES = [
    None,
    'application/json',
    'application/json; charset=utf-8',
    'application/json; charset="utf-8"; x=1',
    'application/vnd.api+json',
    'application/vnd.falcon.v2+json; charset=utf-8',
]
FORM_TYPES = [
    'application/x-www-form-urlencoded',
    'application/x-www-form-urlencoded; charset=UTF-8',
]


def add_json_suffix_types(options):
    handler = media.JSONHandler()
    options.media_handlers['application/vnd.api+json'] = handler
    options.media_handlers['application/vnd.falcon.v2+json'] = handler
    return options


async def part_b(rng):
    for index in range(N_ROUNDTRIP):
        is_form = rng.random() < 0.3
        if is_form:
            doc = rand_form(rng)
            content_type = rng.choice(FORM_TYPES)
        else:
            doc = rand_doc(rng)
            content_type = rng.choice(JSON_TYPES)
            if doc is None:
                doc = [None]

        resp = falcon.asgi.Response(options=add_json_suffix_types(falcon.ResponseOptions()))
        resp.media = doc
        if content_type is not None:
            resp.content_type = content_type
        body = await resp.render_body()
        sent_type = resp.content_type
        assert sent_type == (content_type or falcon.MEDIA_JSON)

        truncated = (not is_form) and len(body) > 1 and rng.random() < 0.15
        wire = body[: rng.randint(1, len(body) - 1)] if truncated else body

        chunks = split(rng, wire)
        events = []
        for i, chunk in enumerate(chunks):
            event = {'type': 'http.request', 'body': chunk}
            if i < len(chunks) - 1:
                event['more_body'] = True
            elif rng.random() < 0.6:
                event['more_body'] = False
            events.append(event)

        headers = {'Content-Type': sent_type}
        if rng.random() < 0.6:
            headers['Content-Length'] = str(len(wire))
        scope = testing.create_scope(method='POST', headers=headers)
        n_events = len(events)
        first_event = events.pop(0) if rng.random() < 0.5 else None
        receiver = Receiver(events)
        req = falcon.asgi.Request(
            scope, receiver, first_event=first_event,
            options=add_json_suffix_types(falcon.RequestOptions()),
        )
        ctx = 'roundtrip %d ct=%r doc=%r chunks=%r' % (index, sent_type, doc, chunks)

        if truncated:
            try:
                expected = ('ok', json.loads(wire.decode('utf-8')))
            except ValueError:
                expected = ('err', None)
            try:
                got = ('ok', await req.get_media())
            except errors.MediaMalformedError as exc:
                assert exc.status_code == 400, ctx
                got = ('err', None)
            assert got == expected, (ctx, got, expected)
        else:
            got = await req.get_media()
            assert got == doc and type(got) is type(doc), (ctx, got)
            assert await req.get_media() is got, ctx

        assert receiver.calls <= n_events, (ctx, receiver.calls)
        calls = receiver.calls
        try:
            await req.get_media()
        except errors.MediaMalformedError:
            pass
        assert receiver.calls == calls, ctx


async def main():
    rng = random.Random(SEED)
    n = await part_a(rng)
    await part_b(rng)
    return n


if __name__ == '__main__':
    n = asyncio.run(main())
    print('checked %d event sequences and %d chunked round trips' % (n, N_ROUNDTRIP))
    print('PASS')
    sys.exit(0)
