"""Generated check for C13 -- body part header blocks (ASGI form iterator).

Forms are produced by a reference encoder that emits, for every part, a header
block made of arbitrary header lines (allowed headers in any letter case,
foreign headers that must be ignored, lines without the ``': '`` separator,
duplicates, a Content-Transfer-Encoding that is either ``binary`` or a
deprecated value).  An explicit reference model of RFC 7578 sections 4.5/4.8
says what each part must look like, or that the multipart parse error must be
raised when that part is reached.  The body is fed to the ASGI parser through
random transport chunkings (down to 1 byte) with random per-part consumption,
with limits (header block size, part count, buffered part size) set at and
around their thresholds; the WSGI parser is run on the same body and must
agree.

Run as:  PYTHONPATH=<falcon tree> python check.py   -> prints PASS
"""

import asyncio
import random
import sys

import falcon  # noqa: F401
import falcon.asgi  # noqa: F401
from falcon.asgi.multipart import MultipartForm as AsgiForm
from falcon.media.multipart import MultipartForm as WsgiForm
from falcon.media.multipart import MultipartParseError
from falcon.media.multipart import MultipartParseOptions

SEED = 0xC13_0001
CASES = 3000

ALLOWED = (b'content-type', b'content-disposition', b'content-transfer-encoding')
ERR = 'ERR'

BOUNDARY_CHARS = (
    b'abcdefghijklmnopqrstuvwxyzABCDEFGHIJKLMNOPQRSTUVWXYZ0123456789'
    b"'()+_,-./:=?"
)


# ---------------------------------------------------------------------------
# Reference encoder
# ---------------------------------------------------------------------------


def rand_boundary(rng):
    n = rng.choice([1, 2, 3, 5, 8, 16, 27, 40, 69, 70])
    return bytes(rng.choice(BOUNDARY_CHARS) for _ in range(n))


def rand_content(rng, boundary):
    delim = b'\r\n--' + boundary
    atoms = [
        b'\r',
        b'\n',
        b'\r\n',
        b'-',
        b'--',
        b'\r\n--',
        b'\r\n\r\n',
        delim[: max(1, len(delim) - 1)],
        delim[: max(1, len(delim) // 2)],
        b'--' + boundary[:-1],
        boundary,
        b'\x00\xff',
        b'abc',
        b': ',
    ]
    while True:
        n = rng.choice([0, 0, 1, 2, 3, 5, 9, 17, 40])
        out = b''.join(
            rng.choice(atoms) if rng.random() < 0.6 else bytes([rng.randrange(256)])
            for _ in range(n)
        )
        # What a reference encoder guarantees: the delimiter that terminates
        # the part is the first occurrence of the delimiter.
        if (out + delim).find(delim) == len(out):
            return out


def rand_case(rng, name):
    return bytes(
        (c ^ 0x20) if (chr(c).isalpha() and rng.random() < 0.5) else c for c in name
    )


def rand_value(rng):
    atoms = [b'a', b'b', b' ', b': ', b':', b';', b'=', b'x-y', b'/', b'"q"', b'\t']
    return b''.join(rng.choice(atoms) for _ in range(rng.randrange(0, 6))).strip(b' \t')


def rand_header_lines(rng, idx):
    """Return (lines, model) where model is the expected allowed-header dict or ERR."""
    lines = []
    name = 'f%d' % idx
    ctype = rng.choice(
        [None, b'text/plain', b'application/octet-stream', b'text/plain; charset=utf-8']
    )
    lines.append(
        rand_case(rng, b'Content-Disposition')
        + b': form-data; name="'
        + name.encode()
        + b'"'
    )
    if ctype is not None:
        lines.append(rand_case(rng, b'Content-Type') + b': ' + ctype)
    for _ in range(rng.choice([0, 0, 1, 2, 4])):
        kind = rng.randrange(8)
        if kind == 0:
            lines.append(b'X-Custom-%d: ' % rng.randrange(9) + rand_value(rng))
        elif kind == 1:
            lines.append(b'Content-Length: %d' % rng.randrange(100))
        elif kind == 2:
            # no separator at all / colon without the space: ignored lines
            lines.append(rng.choice([b'garbage', b'Content-Type:text/html', b':', b' ']))
        elif kind == 3:
            lines.append(rand_case(rng, b'Content-Transfer-Encoding') + b': binary')
        elif kind == 4:
            if rng.random() < 0.35:
                lines.append(
                    rand_case(rng, b'Content-Transfer-Encoding')
                    + b': '
                    + rng.choice([b'base64', b'8bit', b'Binary', b'binary ', b''])
                )
        elif kind == 5:
            # duplicate of an allowed header: the last one wins
            lines.append(
                rand_case(rng, b'Content-Type')
                + b': '
                + rng.choice([b'text/plain', b'application/x-foo', b'text/plain; charset=utf-8'])
            )
        elif kind == 6:
            lines.append(b'Content-Disposition-X: form-data; name="bogus"')
        else:
            lines.append(b' Content-Type: text/html')  # leading space: another name
    head, tail = lines[:1], lines[1:]
    rng.shuffle(tail)
    if rng.random() < 0.2:
        lines = tail + head
    else:
        lines = head + tail

    # --- reference model (RFC 7578, 4.5 and 4.8) ---
    model = {}
    for line in lines:
        pos = line.find(b': ')
        if pos < 0:
            continue
        hname, hvalue = line[:pos].lower(), line[pos + 2 :]
        if hname == b'content-transfer-encoding' and hvalue != b'binary':
            model = ERR
            break
        if hname in ALLOWED:
            model[hname] = hvalue
    return name, lines, model


def encode(rng):
    boundary = rand_boundary(rng)
    dash = b'--' + boundary
    nparts = rng.choice([0, 1, 1, 2, 3, 4, 6])
    parts = []
    for idx in range(nparts):
        name, lines, model = rand_header_lines(rng, idx)
        parts.append(
            {
                'name': name,
                'block': b'\r\n'.join(lines),
                'model': model,
                'content': rand_content(rng, boundary),
            }
        )
    while True:
        preamble = rng.choice([b'', b'', b'preamble\r\n', b'-', b'\r\n', b'x--\r\n-'])
        if (preamble + dash).find(dash) == len(preamble):
            break
    body = preamble
    first = True
    for part in parts:
        body += (dash if first else b'\r\n' + dash) + b'\r\n'
        first = False
        body += part['block'] + b'\r\n\r\n' + part['content']
    body += (dash if first else b'\r\n' + dash) + b'--'
    if rng.random() < 0.7:
        body += b'\r\n'
    if rng.random() < 0.3:
        body += rng.choice([b'epilogue', b'\r\n--', b'--' + boundary + b'\r\n'])
    return boundary, parts, body


def rand_chunking(rng, total):
    mode = rng.randrange(5)
    if mode == 0:
        return [1] * total
    if mode == 1:
        return [total or 1]
    hi = rng.choice([2, 3, 7, 16, 64])
    sizes, left = [], total
    while left > 0:
        n = min(left, rng.randint(1, hi))
        sizes.append(n)
        left -= n
    return sizes or [1]


# ---------------------------------------------------------------------------
# Expected outcome
# ---------------------------------------------------------------------------


def expected(parts, limits, plan):
    """List of observations, possibly terminated by ERR."""
    out = []
    for idx, part in enumerate(parts):
        if len(part['block']) > limits['headers']:
            return out + [ERR]
        if part['model'] == ERR:
            return out + [ERR]
        if 0 < limits['count'] < idx + 1:
            return out + [ERR]
        model = part['model']
        ctype = model.get(b'content-type', b'text/plain').decode()
        obs = [part['name'] if b'content-disposition' in model else None, ctype]
        content = part['content']
        how, arg = plan[idx]
        if how == 'skip':
            pass
        elif how == 'partial':
            obs.append(content[:arg])
        elif how == 'full':
            obs.append(content)
        elif how == 'iter':
            obs.append(content)
        elif how == 'data':
            if len(content) > limits['buffer']:
                return out + [obs, ERR]
            obs.append(content)
        out.append(obs)
    return out


# ---------------------------------------------------------------------------
# Drivers
# ---------------------------------------------------------------------------


class ChunkedIO:
    def __init__(self, data, sizes):
        self._data = data
        self._sizes = list(sizes)
        self._pos = 0

    def read(self, size=-1):
        if self._pos >= len(self._data):
            return b''
        n = self._sizes.pop(0) if self._sizes else len(self._data)
        if size is not None and size >= 0:
            n = min(n, size)
        chunk = self._data[self._pos : self._pos + n]
        self._pos += len(chunk)
        return chunk


def make_options(limits):
    options = MultipartParseOptions()
    options.max_body_part_headers_size = limits['headers']
    options.max_body_part_count = limits['count']
    options.max_body_part_buffer_size = limits['buffer']
    return options


def run_wsgi(boundary, body, sizes, limits, plan):
    out = []
    form = WsgiForm(ChunkedIO(body, sizes), boundary, len(body), make_options(limits))
    try:
        for idx, part in enumerate(form):
            obs = [part.name, part.content_type]
            out.append(obs)
            how, arg = plan[idx]
            if how == 'partial':
                obs.append(part.stream.read(arg))
            elif how in ('full', 'iter'):
                obs.append(part.stream.read())
            elif how == 'data':
                obs.append(part.get_data())
    except MultipartParseError as err:
        assert err.status_code == 400, err.status_code
        out.append(ERR)
    return out


async def run_asgi(boundary, body, sizes, limits, plan):
    async def source():
        pos = 0
        for n in sizes:
            if pos >= len(body):
                break
            yield body[pos : pos + n]
            pos += n
            await asyncio.sleep(0)
        if pos < len(body):
            yield body[pos:]

    out = []
    form = AsgiForm(source(), boundary, len(body), make_options(limits))
    try:
        idx = 0
        async for part in form:
            obs = [part.name, part.content_type]
            out.append(obs)
            how, arg = plan[idx]
            if how == 'partial':
                obs.append(await part.stream.read(arg))
            elif how == 'full':
                obs.append(await part.stream.read())
            elif how == 'iter':
                chunks = []
                async for chunk in part.stream:
                    chunks.append(chunk)
                obs.append(b''.join(chunks))
            elif how == 'data':
                obs.append(await part.get_data())
            idx += 1
    except MultipartParseError as err:
        assert err.status_code == 400, err.status_code
        out.append(ERR)
    return out


def near(rng, value, lo=1):
    return max(lo, value + rng.choice([-1, 0, 0, 1]))


async def main():
    rng = random.Random(SEED)
    checked = 0
    errors_seen = 0
    for case in range(CASES):
        boundary, parts, body = encode(rng)
        limits = {'headers': 8192, 'count': 64, 'buffer': 1024 * 1024}
        roll = rng.random()
        if parts and roll < 0.25:
            limits['headers'] = near(rng, len(rng.choice(parts)['block']))
        elif roll < 0.45:
            limits['count'] = rng.choice([0, near(rng, len(parts)), near(rng, len(parts))])
        elif parts and roll < 0.6:
            limits['buffer'] = near(rng, len(rng.choice(parts)['content']), lo=0)
        plan = []
        for part in parts:
            how = rng.choice(['skip', 'partial', 'full', 'iter', 'data'])
            arg = rng.randint(1, max(1, len(part['content']) + 2))
            plan.append((how, arg))
        want = expected(parts, limits, plan)
        errors_seen += want[-1:] == [ERR]
        for _ in range(2):
            sizes = rand_chunking(rng, len(body))
            got_a = await asyncio.wait_for(
                run_asgi(boundary, body, sizes, limits, plan), 20
            )
            got_w = run_wsgi(boundary, body, sizes, limits, plan)
            if got_a != want or got_w != want:
                print('FAIL case', case)
                print(' boundary', boundary)
                print(' body    ', body)
                print(' sizes   ', sizes[:40])
                print(' limits  ', limits, 'plan', plan)
                print(' expected', want)
                print(' asgi    ', got_a)
                print(' wsgi    ', got_w)
                return 1
            checked += 1
    assert errors_seen > CASES // 20, errors_seen
    print('checked %d runs (%d forms, %d with an expected parse error)' % (
        checked, CASES, errors_seen))
    print('PASS')
    return 0


if __name__ == '__main__':
    sys.exit(asyncio.run(main()))
