"""Generated check for C13 -- delimiter consumption in the WSGI BufferedReader.

Part A drives ``falcon.util.BufferedReader`` directly (tiny chunk sizes so that
every buffer-border path of ``read_until``/``_finalize_read_until`` is hit)
with random operation sequences -- read, peek, read_until with and without
``consume_delimiter`` and with all kinds of sizes, pipe_until, and delimited
sub-readers as used for body parts -- and compares every result, and every
``DelimiterError``, with an explicit model on a (bytes, position) pair.

Part B encodes multipart forms with a reference encoder, parses them with the
WSGI ``MultipartForm`` over a BufferedReader whose chunk size is barely larger
than the delimiter, through random transport chunkings down to 1 byte, with
random per-part consumption (skip, partial, full, readline, read_until on the
part stream, get_data, get_text, get_media) and limits at their thresholds, and
compares with the encoded parts; the ASGI parser must agree.

Part C applies single-byte edits to valid bodies: the only permitted outcomes
are a normal parse or the multipart parse error (HTTP 400).

Run as:  PYTHONPATH=<falcon tree> python check.py   -> prints PASS
"""

import asyncio
import io
import json
import random
import sys

import falcon  # noqa: F401
import falcon.asgi  # noqa: F401
from falcon.asgi.multipart import MultipartForm as AsgiForm
from falcon.errors import DelimiterError
from falcon.media.multipart import MultipartForm as WsgiForm
from falcon.media.multipart import MultipartParseError
from falcon.media.multipart import MultipartParseOptions
from falcon.util import BufferedReader

SEED = 0xC13_0002
ERR = 'ERR'


class ChunkedIO:
    def __init__(self, data, sizes):
        self._data = data
        self._sizes = list(sizes)
        self._pos = 0

    def read(self, size=-1):
        if self._pos >= len(self._data):
            return b''
        n = self._sizes.pop(0) if self._sizes else len(self._data)
        if size is not None and size >= 0:
            n = min(n, size)
        chunk = self._data[self._pos : self._pos + n]
        self._pos += len(chunk)
        return chunk


def rand_chunking(rng, total):
    mode = rng.randrange(5)
    if mode == 0:
        return [1] * total
    if mode == 1:
        return [total or 1]
    hi = rng.choice([2, 3, 7, 16, 64])
    sizes, left = [], total
    while left > 0:
        n = min(left, rng.randint(1, hi))
        sizes.append(n)
        left -= n
    return sizes or [1]


# ---------------------------------------------------------------------------
# Part A: BufferedReader against a model
# ---------------------------------------------------------------------------


class Model:
    def __init__(self, data, chunk_size):
        self.data = data
        self.pos = 0
        self.chunk_size = chunk_size

    def read(self, size):
        end = len(self.data)
        if size is not None and size >= 0:
            end = min(end, self.pos + size)
        out = self.data[self.pos : end]
        self.pos = end
        return out

    def peek(self, size):
        if size < 0 or size > self.chunk_size:
            size = self.chunk_size
        return self.data[self.pos : self.pos + size]

    def read_until(self, delimiter, size, consume):
        idx = self.data.find(delimiter, self.pos)
        end = idx if idx >= 0 else len(self.data)
        if size is not None and size >= 0:
            end = min(end, self.pos + size)
        out = self.data[self.pos : end]
        self.pos = end
        if consume:
            if self.data[end : end + len(delimiter)] != delimiter:
                return out, ERR
            self.pos += len(delimiter)
        return out, None


def rand_delim(rng, chunk_size, model=None):
    n = rng.randint(1, min(chunk_size, 6))
    if model is not None and rng.random() < 0.7 and model.pos < len(model.data):
        # a delimiter that does occur somewhere ahead
        start = rng.randint(model.pos, min(len(model.data) - 1, model.pos + 40))
        return model.data[start : start + n]
    return bytes(rng.choice(b'ab-\r\n') for _ in range(n))


def rand_size(rng, chunk_size, total):
    return rng.choice(
        [
            -1,
            -1,
            None,
            0,
            1,
            2,
            chunk_size - 1,
            chunk_size,
            chunk_size + 1,
            2 * chunk_size,
            3 * chunk_size + 1,
            rng.randint(0, total + 3),
            total,
            total + 7,
        ]
    )


def drive(rng, reader, model, depth, counters):
    """Run random ops; return False when a DelimiterError ended the sequence."""
    total = len(model.data)
    chunk_size = model.chunk_size
    for _ in range(rng.randint(1, 12)):
        op = rng.choice(
            ['read', 'peek', 'until', 'until', 'until_c', 'until_c', 'pipe', 'sub']
        )
        counters[op] = counters.get(op, 0) + 1
        if op == 'read':
            size = rand_size(rng, chunk_size, total)
            got, want = reader.read(size), model.read(size)
            assert got == want, ('read', size, got, want)
        elif op == 'peek':
            size = rng.choice([-1, 0, 1, 2, chunk_size, chunk_size + 5, 3])
            got, want = reader.peek(size), model.peek(size)
            assert got == want, ('peek', size, got, want)
        elif op in ('until', 'until_c'):
            consume = op == 'until_c'
            delim = rand_delim(rng, chunk_size, model if consume else None)
            size = rand_size(rng, chunk_size, total)
            if size is None or (consume and rng.random() < 0.6):
                size = -1
            want, want_err = model.read_until(delim, size, consume)
            try:
                got = reader.read_until(delim, size, consume_delimiter=consume)
            except DelimiterError:
                assert want_err == ERR, ('unexpected DelimiterError', delim, size)
                counters['delimiter_errors'] = counters.get('delimiter_errors', 0) + 1
                return False
            assert want_err is None, ('missing DelimiterError', delim, size, got)
            assert got == want, ('read_until', delim, size, consume, got, want)
        elif op == 'pipe':
            consume = rng.random() < 0.5
            delim = rand_delim(rng, chunk_size, model if consume else None)
            dest = io.BytesIO() if rng.random() < 0.7 else None
            want, want_err = model.read_until(delim, -1, consume)
            try:
                reader.pipe_until(delim, dest, consume_delimiter=consume)
            except DelimiterError:
                assert want_err == ERR, ('unexpected DelimiterError (pipe)', delim)
                return False
            assert want_err is None, ('missing DelimiterError (pipe)', delim)
            if dest is not None:
                assert dest.getvalue() == want, ('pipe_until', delim, want)
        elif op == 'sub' and depth < 2:
            # The way MultipartForm uses it: a delimited sub-reader for the
            # part, then the parent skips to (and consumes) the delimiter.
            delim = rand_delim(rng, chunk_size, model)
            idx = model.data.find(delim, model.pos)
            end = idx if idx >= 0 else len(model.data)
            sub_model = Model(model.data[model.pos : end], chunk_size)
            sub = reader.delimit(delim)
            drive(rng, sub, sub_model, depth + 1, counters)
            if rng.random() < 0.5:
                assert sub.read() == sub_model.read(-1), 'sub remainder'
            model.pos = end
            try:
                reader.pipe_until(delim, consume_delimiter=True)
            except DelimiterError:
                assert idx < 0, 'unexpected DelimiterError after sub-reader'
                return False
            assert idx >= 0, 'missing DelimiterError after sub-reader'
            model.pos += len(delim)
    return True


def part_a(rng, cases):
    counters = {}
    for case in range(cases):
        chunk_size = rng.choice([1, 2, 3, 4, 5, 7, 8, 13, 16, 32])
        if case % 400 == 399:
            total = rng.randint(2100, 2600)  # larger than chunk_size * 1024 for 1, 2
        else:
            total = rng.choice([0, 1, 2, 5, 9, 17, 33, 64, 120])
        alphabet = rng.choice([b'ab-\r\n', b'ab-\r\n', b'a-', b'\r\n-x', bytes(range(256))])
        data = bytes(rng.choice(alphabet) for _ in range(total))
        sizes = rand_chunking(rng, total)
        extra = rng.choice([0, 0, 0, 1, 100])
        state = rng.getstate()
        try:
            reader = BufferedReader(ChunkedIO(data, sizes).read, total + extra, chunk_size)
            model = Model(data, chunk_size)
            if drive(rng, reader, model, 0, counters):
                assert reader.read() == model.read(-1), 'final remainder'
                assert reader.read(1) == b''
        except AssertionError as err:
            print('FAIL part A case', case, 'chunk_size', chunk_size, 'data', data)
            print(' sizes', sizes[:40], 'extra', extra)
            print(' ', err)
            rng.setstate(state)
            return False, counters
    return True, counters


# ---------------------------------------------------------------------------
# Part B/C: forms
# ---------------------------------------------------------------------------

BOUNDARY_CHARS = (
    b'abcdefghijklmnopqrstuvwxyzABCDEFGHIJKLMNOPQRSTUVWXYZ0123456789'
    b"'()+_,-./:=?"
)


def rand_boundary(rng):
    n = rng.choice([1, 2, 3, 5, 8, 16, 27, 40, 69, 70])
    return bytes(rng.choice(BOUNDARY_CHARS) for _ in range(n))


def rand_binary(rng, boundary):
    delim = b'\r\n--' + boundary
    atoms = [
        b'\r',
        b'\n',
        b'\r\n',
        b'-',
        b'--',
        b'\r\n--',
        b'\r\n\r\n',
        delim[: max(1, len(delim) - 1)],
        delim[: max(1, len(delim) // 2)],
        b'--' + boundary[:-1],
        boundary,
        b'\x00\xff',
        b'abc',
    ]
    while True:
        n = rng.choice([0, 0, 1, 2, 3, 5, 9, 17, 40, 90])
        out = b''.join(
            rng.choice(atoms) if rng.random() < 0.6 else bytes([rng.randrange(256)])
            for _ in range(n)
        )
        if (out + delim).find(delim) == len(out):
            return out


def rand_text(rng):
    atoms = ['a', 'b', ' ', '\r\n', '\n', '-', '--', '€', 'é', '\U0001f600', 'xyz']
    return ''.join(rng.choice(atoms) for _ in range(rng.choice([0, 1, 3, 8, 20])))


def make_part(rng, idx, boundary):
    delim = b'\r\n--' + boundary
    name = 'field-%d' % idx
    kind = rng.choice(['binary', 'binary', 'text', 'text-default', 'json'])
    part = {'name': name, 'kind': kind, 'filename': None}
    disposition = 'form-data; name="%s"' % name
    if kind == 'binary':
        part['ctype'] = 'application/octet-stream'
        part['content'] = rand_binary(rng, boundary)
        if rng.random() < 0.5:
            part['filename'] = 'file%d.bin' % idx
            disposition += '; filename="%s"' % part['filename']
    elif kind == 'json':
        part['ctype'] = 'application/json'
        part['media'] = {'k': [rng.randrange(100), rand_text(rng)], 'i': idx}
        part['content'] = json.dumps(part['media']).encode()
    else:
        while True:
            text = rand_text(rng)
            charset = rng.choice(['utf-8', 'utf-16-le', 'utf-8'])
            content = text.encode(charset)
            if (content + delim).find(delim) == len(content):
                break
        part['text'] = text
        part['content'] = content
        if kind == 'text-default' and charset == 'utf-8':
            part['ctype'] = None
        else:
            part['ctype'] = 'text/plain; charset=' + charset
    lines = [b'Content-Disposition: ' + disposition.encode()]
    if part['ctype'] is not None:
        lines.append(b'Content-Type: ' + part['ctype'].encode())
    if rng.random() < 0.2:
        rng.shuffle(lines)
    part['block'] = b'\r\n'.join(lines)
    return part


def encode(rng):
    boundary = rand_boundary(rng)
    dash = b'--' + boundary
    parts = [make_part(rng, idx, boundary) for idx in range(rng.choice([0, 1, 1, 2, 3, 4, 6]))]
    while True:
        preamble = rng.choice([b'', b'', b'preamble\r\n', b'-', b'\r\n', b'x--\r\n-'])
        if (preamble + dash).find(dash) == len(preamble):
            break
    body = preamble
    first = True
    for part in parts:
        body += (dash if first else b'\r\n' + dash) + b'\r\n'
        first = False
        body += part['block'] + b'\r\n\r\n' + part['content']
    body += (dash if first else b'\r\n' + dash) + b'--'
    if rng.random() < 0.7:
        body += b'\r\n'
    if rng.random() < 0.3:
        body += rng.choice([b'epilogue', b'\r\n--', b'--' + boundary + b'\r\n'])
    return boundary, parts, body


def make_options(limits):
    options = MultipartParseOptions()
    options.max_body_part_headers_size = limits['headers']
    options.max_body_part_count = limits['count']
    options.max_body_part_buffer_size = limits['buffer']
    return options


def model_until(content, delim, size):
    idx = content.find(delim)
    end = idx if idx >= 0 else len(content)
    if size >= 0:
        end = min(end, size)
    return content[:end]


def model_readline(content):
    idx = content.find(b'\n')
    return content if idx < 0 else content[: idx + 1]


def expected(parts, limits, plan):
    out = []
    for idx, part in enumerate(parts):
        if len(part['block']) > limits['headers']:
            return out + [ERR]
        if 0 < limits['count'] < idx + 1:
            return out + [ERR]
        ctype = part['ctype'] or 'text/plain'
        obs = [part['name'], part['filename'], ctype]
        content = part['content']
        how, arg = plan[idx]
        if how == 'partial':
            obs.append(content[:arg])
        elif how == 'full':
            obs.append(content)
        elif how == 'readline':
            obs.append(model_readline(content))
        elif how == 'until':
            obs.append(model_until(content, arg[0], arg[1]))
        elif how in ('data', 'text', 'media'):
            needs_data = how == 'data' or (
                how == 'text' and ctype.startswith('text/plain')
            )
            if needs_data and len(content) > limits['buffer']:
                return out + [obs, ERR]
            if how == 'data':
                obs.append(content)
            elif how == 'text':
                obs.append(part.get('text'))
            else:
                # get_media() is only planned for JSON parts (the default
                # part handlers are JSON and URL-encoded forms)
                obs.append(part['media'])
        out.append(obs)
    return out


def make_plan(rng, parts, safe_only=False):
    plan = []
    for part in parts:
        hows = ['skip', 'partial', 'full', 'data']
        if not safe_only:
            hows += ['readline', 'until', 'text']
            if part['kind'] == 'json':
                hows += ['media', 'media']
        how = rng.choice(hows)
        arg = rng.randint(1, len(part['content']) + 2)
        if how == 'until':
            arg = (
                rng.choice([b'\r\n', b'\n', b'-', b'--', b'a', b'\r\n--']),
                rng.choice([-1, -1, 0, 1, 3, len(part['content'])]),
            )
        plan.append((how, arg))
    return plan


def run_wsgi(boundary, body, sizes, limits, plan, chunk_size):
    out = []
    if chunk_size:
        stream = BufferedReader(ChunkedIO(body, sizes).read, len(body), chunk_size)
    else:
        stream = ChunkedIO(body, sizes)
    form = WsgiForm(stream, boundary, len(body), make_options(limits))
    try:
        for idx, part in enumerate(form):
            obs = [part.name, part.filename, part.content_type]
            out.append(obs)
            how, arg = plan[idx] if idx < len(plan) else ('skip', 0)
            if how == 'partial':
                obs.append(part.stream.read(arg))
            elif how == 'full':
                obs.append(part.stream.read())
            elif how == 'readline':
                obs.append(part.stream.readline())
            elif how == 'until':
                obs.append(part.stream.read_until(arg[0], arg[1]))
            elif how == 'data':
                obs.append(part.get_data())
            elif how == 'text':
                obs.append(part.get_text())
            elif how == 'media':
                obs.append(part.get_media())
    except MultipartParseError as err:
        assert err.status_code == 400, err.status_code
        out.append(ERR)
    return out


async def run_asgi(boundary, body, sizes, limits, plan):
    async def source():
        pos = 0
        for n in sizes:
            if pos >= len(body):
                break
            yield body[pos : pos + n]
            pos += n
        if pos < len(body):
            yield body[pos:]

    out = []
    form = AsgiForm(source(), boundary, len(body), make_options(limits))
    try:
        idx = 0
        async for part in form:
            obs = [part.name, part.filename, part.content_type]
            out.append(obs)
            how, arg = plan[idx] if idx < len(plan) else ('skip', 0)
            if how == 'partial':
                obs.append(await part.stream.read(arg))
            elif how == 'full':
                obs.append(await part.stream.read())
            elif how == 'readline':
                # (no readline on the ASGI reader) same thing via read_until
                line = await part.stream.read_until(b'\n')
                obs.append(line + await part.stream.read(1))
            elif how == 'until':
                obs.append(await part.stream.read_until(arg[0], arg[1]))
            elif how == 'data':
                obs.append(await part.get_data())
            elif how == 'text':
                obs.append(await part.get_text())
            elif how == 'media':
                obs.append(await part.get_media())
            idx += 1
    except MultipartParseError as err:
        assert err.status_code == 400, err.status_code
        out.append(ERR)
    return out


def near(rng, value, lo=1):
    return max(lo, value + rng.choice([-1, 0, 0, 1]))


def rand_reader_chunk(rng, boundary):
    # 0 -> let MultipartForm wrap the raw stream itself (default chunk size)
    floor = len(boundary) + 4
    return rng.choice([0, floor, floor + 1, floor + 2, floor + 5, floor + 17, 2 * floor])


def part_b(rng, cases):
    loop = asyncio.new_event_loop()
    try:
        for case in range(cases):
            boundary, parts, body = encode(rng)
            limits = {'headers': 8192, 'count': 64, 'buffer': 1024 * 1024}
            roll = rng.random()
            if parts and roll < 0.2:
                limits['headers'] = near(rng, len(rng.choice(parts)['block']))
            elif roll < 0.4:
                limits['count'] = rng.choice([0, near(rng, len(parts))])
            elif parts and roll < 0.6:
                limits['buffer'] = near(rng, len(rng.choice(parts)['content']), lo=0)
            plan = make_plan(rng, parts)
            want = expected(parts, limits, plan)
            for _ in range(2):
                sizes = rand_chunking(rng, len(body))
                chunk_size = rand_reader_chunk(rng, boundary)
                got_w = run_wsgi(boundary, body, sizes, limits, plan, chunk_size)
                got_a = loop.run_until_complete(
                    asyncio.wait_for(run_asgi(boundary, body, sizes, limits, plan), 20)
                )
                if got_w != want or got_a != want:
                    print('FAIL part B case', case)
                    print(' boundary', boundary, 'reader chunk', chunk_size)
                    print(' body    ', body)
                    print(' sizes   ', sizes[:40])
                    print(' limits  ', limits, 'plan', plan)
                    print(' expected', want)
                    print(' wsgi    ', got_w)
                    print(' asgi    ', got_a)
                    return False
    finally:
        loop.run_until_complete(loop.shutdown_asyncgens())
        loop.close()
    return True


def part_c(rng, cases):
    outcomes = {'ok': 0, 'err': 0}
    for case in range(cases):
        boundary, parts, body = encode(rng)
        if not body:
            continue
        pos = rng.randrange(len(body))
        edit = rng.randrange(3)
        if edit == 0:
            bad = body[:pos] + body[pos + 1 :]
        elif edit == 1:
            bad = body[:pos] + bytes([rng.choice(b'\r\n-a\x00\xff')]) + body[pos:]
        else:
            bad = body[:pos] + bytes([body[pos] ^ rng.choice([1, 0x20, 0x80])]) + body[pos + 1 :]
        if rng.random() < 0.15:
            bad = body[: rng.randrange(len(body))]  # truncation
        limits = {'headers': 8192, 'count': 64, 'buffer': 1024 * 1024}
        plan = make_plan(rng, parts, safe_only=True)
        sizes = rand_chunking(rng, len(bad))
        chunk_size = rand_reader_chunk(rng, boundary)
        try:
            got = run_wsgi(boundary, bad, sizes, limits, plan, chunk_size)
        except Exception as err:  # noqa: BLE001
            print('FAIL part C case', case, 'raised', type(err).__name__, err)
            print(' boundary', boundary, 'reader chunk', chunk_size)
            print(' body    ', bad)
            return False, outcomes
        outcomes['err' if got[-1:] == [ERR] else 'ok'] += 1
        # whatever was parsed must at least be well-formed observations
        for obs in got:
            assert obs == ERR or isinstance(obs, list)
    return True, outcomes


def main():
    rng = random.Random(SEED)
    ok, counters = part_a(rng, 4000)
    if not ok:
        return 1
    assert counters.get('delimiter_errors', 0) > 200, counters
    assert counters.get('until_c', 0) > 4000, counters
    print('part A: 4000 op sequences', sorted(counters.items()))
    if not part_b(rng, 1500):
        return 1
    print('part B: 1500 forms x 2 chunkings (WSGI + ASGI)')
    ok, outcomes = part_c(rng, 2500)
    if not ok:
        return 1
    assert outcomes['err'] > 200 and outcomes['ok'] > 200, outcomes
    print('part C: 2500 corrupted bodies', outcomes)
    print('PASS')
    return 0


if __name__ == '__main__':
    sys.exit(main())
