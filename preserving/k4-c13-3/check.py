"""Generated check for C13 -- body part names and file names (plain / RFC 5987).

A reference encoder writes Content-Disposition headers in the forms seen in
the wild: no filename, a token, a quoted string (spaces, semicolons, escaped
quotes, raw UTF-8), an RFC 5987 extended ``filename*`` (several charsets, with
and without a language tag, upper/lower-case percent escapes), both at once,
and broken extended values (unknown charset, bytes that are invalid in the
charset, a value that is not ``charset'lang'value`` at all).  The expected
``BodyPart.name`` / ``BodyPart.filename`` (or the multipart parse error) comes
from what was encoded.  Forms are parsed by the WSGI and the ASGI parser
through random transport chunkings, attributes are read in random order and
repeatedly (they are cached), before or after the part's content was read.

Run as:  PYTHONPATH=<falcon tree> python check.py   -> prints PASS
"""

import asyncio
import random
import sys

import falcon  # noqa: F401
import falcon.asgi  # noqa: F401
from falcon.asgi.multipart import MultipartForm as AsgiForm
from falcon.media.multipart import MultipartForm as WsgiForm
from falcon.media.multipart import MultipartParseError
from falcon.media.multipart import MultipartParseOptions

SEED = 0xC13_0003
CASES = 3000
ERR = 'ERR'

BOUNDARY_CHARS = (
    b'abcdefghijklmnopqrstuvwxyzABCDEFGHIJKLMNOPQRSTUVWXYZ0123456789'
    b"'()+_,-./:=?"
)
ATTR_CHARS = (
    'abcdefghijklmnopqrstuvwxyzABCDEFGHIJKLMNOPQRSTUVWXYZ0123456789' '!#$&+-.^_`|~'
)
WORD = 'abcdefghijklmnopqrstuvwxyzABCDEFGHIJKLMNOPQRSTUVWXYZ0123456789_'


class ChunkedIO:
    def __init__(self, data, sizes):
        self._data = data
        self._sizes = list(sizes)
        self._pos = 0

    def read(self, size=-1):
        if self._pos >= len(self._data):
            return b''
        n = self._sizes.pop(0) if self._sizes else len(self._data)
        if size is not None and size >= 0:
            n = min(n, size)
        chunk = self._data[self._pos : self._pos + n]
        self._pos += len(chunk)
        return chunk


def rand_chunking(rng, total):
    mode = rng.randrange(5)
    if mode == 0:
        return [1] * total
    if mode == 1:
        return [total or 1]
    hi = rng.choice([2, 3, 7, 16, 64])
    sizes, left = [], total
    while left > 0:
        n = min(left, rng.randint(1, hi))
        sizes.append(n)
        left -= n
    return sizes or [1]


# ---------------------------------------------------------------------------
# Reference encoder for Content-Disposition
# ---------------------------------------------------------------------------


def rand_case(rng, text):
    return ''.join(c.swapcase() if rng.random() < 0.4 else c for c in text)


def rand_plain(rng, latin1=False, quoted=True):
    atoms = ['a', 'B', '7', '.', '-', '_', 'txt', 'report']
    if quoted:
        atoms += [' ', ';', '"', '=', "'", '%41', ', ', '*']
        atoms += ['é', 'ÿ'] if latin1 else ['é', '€', 'ж', '\U0001f600']
    n = rng.choice([1, 1, 2, 4, 9])
    text = ''.join(rng.choice(atoms) for _ in range(n))
    return text


def quote(text):
    return '"' + text.replace('"', '\\"') + '"'


def pct_encode(rng, data):
    out = []
    upper = rng.random() < 0.5
    for byte in data:
        char = chr(byte)
        if char in ATTR_CHARS and rng.random() < 0.9:
            out.append(char)
        else:
            out.append(('%%%02X' if upper else '%%%02x') % byte)
    return ''.join(out)


def rand_extended(rng):
    """Return (header value of filename*, expected) -- expected may be ERR or
    'NOMATCH' (the value is not an RFC 5987 ext-value; the plain one applies)."""
    roll = rng.random()
    charset = rng.choice(['UTF-8', 'utf-8', 'utf8', 'ISO-8859-1', 'latin-1', 'utf-16-le', 'cp1251'])
    lang = rng.choice(['', '', 'en', 'de', 'lt_LT'])
    if charset in ('ISO-8859-1', 'latin-1'):
        text = rand_plain(rng, latin1=True)
    elif charset == 'cp1251':
        text = rng.choice(['отчет.txt', 'ж', 'plain.bin', 'a b;c'])
    else:
        text = rand_plain(rng)
    raw = text.encode(charset)
    expected = text
    if roll < 0.12:
        charset = rng.choice(['bogus', 'utf-9', 'x-unknown-charset', '_'])
        expected = ERR  # LookupError
    elif roll < 0.24:
        charset = rng.choice(['UTF-8', 'utf-8', 'ascii'])
        raw = raw + rng.choice([b'\xff', b'\xc3', b'\xe2\x82'])
        expected = ERR  # invalid bytes for the charset
    elif roll < 0.32:
        lang = rng.choice(['en-US', 'de-CH-1996'])  # not matched by '[\w]*'
        expected = 'NOMATCH'
    elif roll < 0.40:
        value = rng.choice(['plain.txt', "UTF-8''", "''x", "'en'x", 'UTF-8', "utf-8'x"])
        return value, 'NOMATCH'
    value = "%s'%s'%s" % (charset, lang, pct_encode(rng, raw))
    if not raw:
        expected = 'NOMATCH'
    return value, expected


def rand_disposition(rng, idx):
    """Return (header bytes, expected name, expected filename)."""
    style = rng.choice(['none', 'token', 'quoted', 'quoted', 'ext', 'ext', 'both', 'both'])
    name = 'f%d' % idx + rng.choice(['', '', '-x', '_y', ' z', 'é', '[]'])
    params = []
    if style == 'token':
        name = 'f%d' % idx
        params.append((rand_case(rng, 'name'), name))
    else:
        params.append((rand_case(rng, 'name'), quote(name)))

    plain = None
    expected = None
    if style == 'token':
        plain = rand_plain(rng, quoted=False)
        params.append((rand_case(rng, 'filename'), plain))
    elif style in ('quoted', 'both'):
        plain = rand_plain(rng)
        params.append((rand_case(rng, 'filename'), quote(plain)))
    expected = plain
    if style in ('ext', 'both'):
        value, ext_expected = rand_extended(rng)
        params.append((rand_case(rng, 'filename') + '*', value))
        if ext_expected != 'NOMATCH':
            expected = ext_expected
    head, tail = params[:1], params[1:]
    rng.shuffle(tail)
    if rng.random() < 0.2:
        params = tail + head
    else:
        params = head + tail
    sep = rng.choice(['; ', ';', ' ; '])
    header = 'form-data' + ''.join(sep + k + '=' + v for k, v in params)
    return header.encode('utf-8'), name, expected


def rand_content(rng, boundary):
    delim = b'\r\n--' + boundary
    atoms = [b'\r', b'\n', b'\r\n', b'-', b'--', b'\r\n--', delim[:-1], b'abc', b'\x00\xff']
    while True:
        out = b''.join(rng.choice(atoms) for _ in range(rng.choice([0, 1, 3, 8, 20])))
        if (out + delim).find(delim) == len(out):
            return out


def encode(rng):
    n = rng.choice([1, 2, 3, 5, 8, 16, 40, 70])
    boundary = bytes(rng.choice(BOUNDARY_CHARS) for _ in range(n))
    dash = b'--' + boundary
    parts = []
    for idx in range(rng.choice([1, 1, 2, 3, 4])):
        header, name, filename = rand_disposition(rng, idx)
        if rng.random() < 0.04:
            # not UTF-8: the header cannot be decoded at all
            header = header + b'; x="\xff"'
            name = filename = ERR
        lines = [b'Content-Disposition: ' + header]
        if rng.random() < 0.5:
            lines.append(b'Content-Type: application/octet-stream')
            rng.shuffle(lines)
        parts.append(
            {
                'name': name,
                'filename': filename,
                'block': b'\r\n'.join(lines),
                'content': rand_content(rng, boundary),
            }
        )
    body = rng.choice([b'', b'', b'preamble\r\n'])
    first = True
    for part in parts:
        body += (dash if first else b'\r\n' + dash) + b'\r\n'
        first = False
        body += part['block'] + b'\r\n\r\n' + part['content']
    body += b'\r\n' + dash + b'--' + rng.choice([b'', b'\r\n', b'\r\nepilogue'])
    return boundary, parts, body


# ---------------------------------------------------------------------------
# Drivers
# ---------------------------------------------------------------------------


def observe(part, attr):
    try:
        return getattr(part, attr)
    except MultipartParseError as err:
        assert err.status_code == 400, err.status_code
        return ERR


def observe_all(part, order):
    return [(attr, observe(part, attr)) for attr in order]


def expected(parts, plan):
    out = []
    for part, (order, when) in zip(parts, plan):
        out.append(([(attr, part[attr]) for attr in order], part['content']))
    return out


def run_wsgi(boundary, body, sizes, plan):
    out = []
    form = WsgiForm(ChunkedIO(body, sizes), boundary, len(body), MultipartParseOptions())
    for idx, part in enumerate(form):
        order, when = plan[idx]
        if when == 'before':
            obs = observe_all(part, order)
            data = part.stream.read()
        else:
            data = part.stream.read()
            obs = observe_all(part, order)
        out.append((obs, data))
    return out


async def run_asgi(boundary, body, sizes, plan):
    async def source():
        pos = 0
        for n in sizes:
            if pos >= len(body):
                break
            yield body[pos : pos + n]
            pos += n
        if pos < len(body):
            yield body[pos:]

    out = []
    form = AsgiForm(source(), boundary, len(body), MultipartParseOptions())
    idx = 0
    async for part in form:
        order, when = plan[idx]
        if when == 'before':
            obs = observe_all(part, order)
            data = await part.stream.read()
        else:
            data = await part.stream.read()
            obs = observe_all(part, order)
        out.append((obs, data))
        idx += 1
    return out


async def main():
    rng = random.Random(SEED)
    stats = {'ext': 0, 'err': 0, 'none': 0, 'parts': 0}
    for case in range(CASES):
        boundary, parts, body = encode(rng)
        plan = []
        for part in parts:
            order = [rng.choice(['name', 'filename', 'filename']) for _ in range(rng.randint(1, 4))]
            if 'filename' not in order:
                order.append('filename')
            plan.append((order, rng.choice(['before', 'after'])))
            stats['parts'] += 1
            stats['err'] += part['filename'] == ERR
            stats['none'] += part['filename'] is None
            stats['ext'] += b"*=" in part['block']
        want = expected(parts, plan)
        for _ in range(2):
            sizes = rand_chunking(rng, len(body))
            got_w = run_wsgi(boundary, body, sizes, plan)
            got_a = await asyncio.wait_for(run_asgi(boundary, body, sizes, plan), 20)
            if got_w != want or got_a != want:
                print('FAIL case', case)
                print(' boundary', boundary)
                print(' body    ', body)
                print(' sizes   ', sizes[:40])
                print(' plan    ', plan)
                print(' expected', want)
                print(' wsgi    ', got_w)
                print(' asgi    ', got_a)
                return 1
    assert stats['ext'] > 1000 and stats['err'] > 300 and stats['none'] > 300, stats
    print('checked %d forms x 2 chunkings x 2 parsers: %r' % (CASES, stats))
    print('PASS')
    return 0


if __name__ == '__main__':
    sys.exit(asyncio.run(main()))
