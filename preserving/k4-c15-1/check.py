"""Generated check for Response.append_header (and the header map around it).

Random histories of header operations are replayed against falcon.Response and
falcon.asgi.Response and, in lock step, against an explicit reference model:

* a case-insensitive map  lower(name) -> value  for plain headers,
* an ordered list of raw Set-Cookie values appended via append_header(),
* an ordered set of cookie names written via set_cookie()/unset_cookie().

After every operation a header is read back in random letter case, and at the
end of every history the lists handed to the WSGI / ASGI server are compared
with what the model holds.  A part of the histories is additionally replayed
inside a responder of a real falcon.App / falcon.asgi.App and the header list
received by start_response() / the ASGI send() callable is compared.

Run as:  PYTHONPATH=<falcon tree> python check.py      (prints PASS, exit 0)
"""

import asyncio
import random
import sys

import falcon
import falcon.asgi
from falcon import testing
from falcon.errors import HeaderNotSupported
from falcon.util import uri

SEED = 150115
N_DIRECT = 3000  # histories per response class, replayed on a bare Response
N_E2E_WSGI = 300
N_E2E_ASGI = 120

BASE_NAMES = [
    'X-Foo',
    'X-Bar',
    'x-a_b',
    'Content-Type',
    'Content-Length',
    'Link',
    'Vary',
    'ETag',
    'Location',
    'Content-Location',
    'Cache-Control',
    'Retry-After',
    'Accept-Ranges',
    'Set-Cookie2',
    'X-Set-Cookie',
    'Set-Cookie',
    'Set-Cookie',
]

ASCII_PRINTABLE = [chr(c) for c in range(0x20, 0x7F)]
LATIN1_HIGH = [chr(c) for c in range(0xA0, 0x100)]
COOKIE_NAMES = ['a', 'sid', 'Sid', 'x-y', 'tok_1']
TOKEN = 'abcdefghijklmnopqrstuvwxyzABCDEFGHIJKLMNOPQRSTUVWXYZ0123456789-_.'
UNI = 'abcXYZ019-_./~ éüßπжд日本語€😀'

checks = 0


def ok(cond, *info):
    global checks
    checks += 1
    if not cond:
        print('FAIL', *[repr(i) for i in info])
        sys.exit(1)


def recase(rng, name):
    return ''.join(c.upper() if rng.random() < 0.5 else c.lower() for c in name)


def rand_value(rng, latin1=True):
    alphabet = ASCII_PRINTABLE + (LATIN1_HIGH if latin1 and rng.random() < 0.3 else [])
    n = rng.randint(0, 12)
    return ''.join(rng.choice(alphabet) for _ in range(n))


def rand_token(rng, lo=1, hi=8):
    return ''.join(rng.choice(TOKEN) for _ in range(rng.randint(lo, hi)))


def rand_unicode(rng):
    return ''.join(rng.choice(UNI) for _ in range(rng.randint(1, 10)))


class Model:
    """Reference model of the header state of one response."""

    def __init__(self):
        self.plain = {}  # lower-case name -> value
        self.raw_cookies = []  # values appended through append_header()
        self.cookies = {}  # cookie name -> True (insertion ordered)


def gen_history(rng, e2e=False):
    """Produce a list of abstract operations (pure data)."""
    ops = []
    for _ in range(rng.randint(3, 16)):
        r = rng.random()
        name = recase(rng, rng.choice(BASE_NAMES))
        if r < 0.40:
            is_cookie = name.lower() == 'set-cookie'
            value = (
                rand_token(rng) + '=' + rand_value(rng, latin1=False).replace(';', '')
                if is_cookie
                else rand_value(rng)
            )
            if rng.random() < 0.1 and not is_cookie:
                value = rng.randint(0, 10**6)
            ops.append(('append', name, value))
        elif r < 0.52:
            value = rand_value(rng) if rng.random() < 0.9 else rng.randint(0, 999)
            ops.append(('set', name, value))
        elif r < 0.62:
            ops.append(('delete', name))
        elif r < 0.70:
            pairs = [
                (recase(rng, rng.choice(BASE_NAMES)), rand_value(rng))
                for _ in range(rng.randint(0, 4))
            ]
            ops.append(('bulk', pairs, rng.random() < 0.5))
        elif r < 0.82:
            which = rng.choice(
                ['content_type', 'etag', 'cache_control', 'vary', 'retry_after']
                + ['accept_ranges', 'location', 'content_location']
            )
            if rng.random() < 0.2:
                value = None
            elif which in ('cache_control', 'vary'):
                value = [rand_token(rng) for _ in range(rng.randint(1, 3))]
            elif which == 'retry_after':
                value = rng.randint(0, 10000)
            elif which in ('location', 'content_location'):
                value = '/' + rand_unicode(rng).replace('%', '')
            elif which == 'etag':
                value = rng.choice(['', 'W/', '"']) + rand_token(rng)
                value += rng.choice(['', '"'])
            else:
                value = rand_value(rng, latin1=False) or 'x'
            ops.append(('prop', which, value))
        elif r < 0.88:
            ops.append(
                (
                    'link',
                    '/' + rand_unicode(rng),
                    rand_token(rng),
                    rand_token(rng) if rng.random() < 0.4 else None,
                )
            )
        elif r < 0.95:
            ops.append(('cookie', rng.choice(COOKIE_NAMES), rand_token(rng)))
        else:
            ops.append(('uncookie', rng.choice(COOKIE_NAMES)))
        # a read in arbitrary casing after every operation
        ops.append(('get', recase(rng, rng.choice(BASE_NAMES)), rng.choice([None, 'dflt'])))
    return ops


PROP_HEADER = {
    'content_type': 'content-type',
    'etag': 'etag',
    'cache_control': 'cache-control',
    'vary': 'vary',
    'retry_after': 'retry-after',
    'accept_ranges': 'accept-ranges',
    'location': 'location',
    'content_location': 'content-location',
}


def expect_unsupported(fn, *info):
    try:
        fn()
    except HeaderNotSupported as ex:
        ok(isinstance(ex, ValueError), 'HeaderNotSupported is a ValueError', *info)
    else:
        ok(False, 'Set-Cookie accepted by a plain-header call', *info)


def apply(resp, model, op):
    """Apply one operation to the response and to the model, comparing."""
    kind = op[0]
    if kind == 'append':
        _, name, value = op
        low = name.lower()
        resp.append_header(name, value)
        if low == 'set-cookie':
            model.raw_cookies.append(str(value))
        elif low in model.plain:
            model.plain[low] = model.plain[low] + ', ' + str(value)
        else:
            model.plain[low] = str(value)
    elif kind == 'set':
        _, name, value = op
        if name.lower() == 'set-cookie':
            expect_unsupported(lambda: resp.set_header(name, value), op)
        else:
            resp.set_header(name, value)
            model.plain[name.lower()] = str(value)
    elif kind == 'delete':
        _, name = op
        if name.lower() == 'set-cookie':
            expect_unsupported(lambda: resp.delete_header(name), op)
        else:
            resp.delete_header(name)
            model.plain.pop(name.lower(), None)
    elif kind == 'bulk':
        _, pairs, as_dict = op
        arg = dict(pairs) if as_dict else list(pairs)
        seq = list(arg.items()) if as_dict else arg
        bad = False
        for n, v in seq:
            if n.lower() == 'set-cookie':
                bad = True
                break
            model.plain[n.lower()] = str(v)
        if bad:
            expect_unsupported(lambda: resp.set_headers(arg), op)
        else:
            resp.set_headers(arg)
    elif kind == 'prop':
        _, which, value = op
        header = PROP_HEADER[which]
        setattr(resp, which, value)
        if value is None:
            model.plain.pop(header, None)
        elif which in ('cache_control', 'vary'):
            model.plain[header] = ', '.join(value)
        elif which == 'etag':
            model.plain[header] = value if value[-1] == '"' else '"' + value + '"'
        elif which in ('location', 'content_location'):
            got = resp.get_header(header)
            ok(got is not None and got.isascii(), 'URI header not ASCII', op, got)
            ok(uri.decode(got, unquote_plus=False) == value, 'URI round trip', op, got)
            model.plain[header] = got
        else:
            model.plain[header] = str(value)
        ok(getattr(resp, which) == model.plain.get(header), 'typed read back', op)
    elif kind == 'link':
        _, target, rel, title = op
        prior = model.plain.get('link')
        resp.append_link(target, rel, title=title)
        got = resp.get_header(recase(random.Random(len(target)), 'link'))
        ok(got is not None, 'Link missing', op)
        if prior is not None:
            ok(got.startswith(prior + ', '), 'Link not appended', op, got, prior)
            new = got[len(prior) + 2 :]
        else:
            new = got
        ok(new.startswith('<') and new.isascii(), 'Link shape / not ASCII', op, new)
        enc, _, rest = new[1:].partition('>')
        ok(uri.decode(enc, unquote_plus=False) == target, 'Link target round trip', op)
        want_rest = '; rel=' + rel
        if title is not None:
            want_rest += '; title="' + title + '"'
        ok(rest == want_rest, 'Link parameters', op, rest)
        model.plain['link'] = got
    elif kind == 'cookie':
        _, name, value = op
        resp.set_cookie(name, value)
        model.cookies[name] = True
    elif kind == 'uncookie':
        _, name = op
        resp.unset_cookie(name)
        model.cookies[name] = True
    elif kind == 'get':
        _, name, default = op
        if name.lower() == 'set-cookie':
            expect_unsupported(lambda: resp.get_header(name, default), op)
        else:
            ok(
                resp.get_header(name, default) == model.plain.get(name.lower(), default),
                'get_header',
                op,
                dict(model.plain),
            )
    else:  # pragma: no cover
        raise AssertionError(kind)


def compare_server_list(items, model, asgi, ignore=()):
    """Compare the header list handed to the server with the model."""
    if asgi:
        for n, v in items:
            ok(isinstance(n, bytes) and isinstance(v, bytes), 'ASGI bytes', n, v)
            ok(n == n.lower(), 'ASGI lower-case name', n)
        items = [(n.decode('latin-1'), v.decode('latin-1')) for n, v in items]
    else:
        for n, v in items:
            ok(isinstance(n, str) and isinstance(v, str), 'WSGI str', n, v)

    plain = [(n, v) for n, v in items if n.lower() != 'set-cookie']
    plain = [(n, v) for n, v in plain if n.lower() not in ignore]
    want = sorted((n, v) for n, v in model.plain.items() if n not in ignore)
    ok(sorted(plain) == want, 'plain headers exactly once', plain, want)
    ok(len({n.lower() for n, _ in plain}) == len(plain), 'duplicate plain header', plain)

    lines = [v for n, v in items if n.lower() == 'set-cookie']
    n_raw = len(model.raw_cookies)
    ok(lines[:n_raw] == model.raw_cookies, 'raw cookie lines', lines, model.raw_cookies)
    rest = lines[n_raw:]
    ok(len(rest) == len(model.cookies), 'one line per cookie', rest, list(model.cookies))
    for line, name in zip(rest, model.cookies):
        ok(line.startswith(name + '='), 'cookie line order', line, name)


def run_direct(rng, cls, asgi):
    for _ in range(N_DIRECT):
        ops = gen_history(rng)
        resp = cls()
        model = Model()
        for op in ops:
            apply(resp, model, op)
        # every header readable in upper, lower and mixed case
        for low, value in model.plain.items():
            for name in (low, low.upper(), recase(rng, low)):
                ok(resp.get_header(name) == value, 'final read back', name, value)
        items = resp._asgi_headers() if asgi else resp._wsgi_headers()
        compare_server_list(items, model, asgi)
        # rendering is repeatable and does not disturb the state
        again = resp._asgi_headers() if asgi else resp._wsgi_headers()
        ok(again == items, 'rendering not idempotent')


class Replay:
    def __init__(self):
        self.ops = []
        self.model = None

    def _go(self, resp):
        self.model = Model()
        for op in self.ops:
            apply(resp, self.model, op)

    def on_get(self, req, resp):
        self._go(resp)


class ReplayAsync(Replay):
    async def on_get(self, req, resp):
        self._go(resp)


IGNORED_E2E = ('content-type', 'content-length')


def run_e2e_wsgi(rng):
    app = falcon.App()
    res = Replay()
    app.add_route('/', res)
    for _ in range(N_E2E_WSGI):
        res.ops = gen_history(rng)
        captured = {}

        def start_response(status, headers, exc_info=None):
            captured['status'] = status
            captured['headers'] = headers

        body = app(testing.create_environ(path='/'), start_response)
        list(body)
        ok(captured['status'].startswith('200'), 'status', captured)
        compare_server_list(captured['headers'], res.model, False, IGNORED_E2E)


async def _asgi_call(app):
    scope = testing.create_scope(path='/')
    emitter = testing.ASGIRequestEventEmitter()
    collector = testing.ASGIResponseEventCollector()
    await app(scope, emitter, collector)
    return collector.events


def run_e2e_asgi(rng):
    app = falcon.asgi.App()
    res = ReplayAsync()
    app.add_route('/', res)

    async def main():
        for _ in range(N_E2E_ASGI):
            res.ops = gen_history(rng)
            events = await _asgi_call(app)
            start = [e for e in events if e['type'] == 'http.response.start']
            ok(len(start) == 1 and start[0]['status'] == 200, 'ASGI start', events)
            headers = [(bytes(n), bytes(v)) for n, v in start[0]['headers']]
            compare_server_list(headers, res.model, True, IGNORED_E2E)

    asyncio.run(main())


def run_expected_values():
    """A handful of hand-derived expectations for append_header itself."""
    for cls, asgi in ((falcon.Response, False), (falcon.asgi.Response, True)):
        resp = cls()
        resp.append_header('X-Things', 'thing-1')
        resp.append_header('x-tHINGS', 'thing-2')
        resp.append_header('X-THINGS', 3)
        ok(resp.get_header('x-things') == 'thing-1, thing-2, 3', 'fold')
        resp.append_header('Set-Cookie', 'a=1')
        resp.append_header('sET-cOOKIE', 'b=2; Path=/')
        resp.append_header('SET-COOKIE', 'a=3')
        resp.set_cookie('c', '4')
        items = resp._asgi_headers() if asgi else resp._wsgi_headers()
        if asgi:
            items = [(n.decode(), v.decode()) for n, v in items]
        ok(items[0] == ('x-things', 'thing-1, thing-2, 3'), 'plain first', items)
        ok(
            items[1:4]
            == [('set-cookie', 'a=1'), ('set-cookie', 'b=2; Path=/'), ('set-cookie', 'a=3')],
            'raw cookie lines',
            items,
        )
        ok(items[4][0] == 'set-cookie' and items[4][1].startswith('c=4'), 'cookie', items)
        ok(len(items) == 5, 'count', items)
        ok('set-cookie' not in resp._headers, 'Set-Cookie leaked into the plain map')
        # an emptied list of raw cookies is re-created, not lost
        resp._extra_headers = []
        resp.append_header('Set-Cookie', 'z=26')
        ok(resp._extra_headers == [('set-cookie', 'z=26')], 'empty list', resp._extra_headers)


def main():
    rng = random.Random(SEED)
    run_expected_values()
    run_direct(rng, falcon.Response, False)
    run_direct(rng, falcon.asgi.Response, True)
    run_e2e_wsgi(rng)
    run_e2e_asgi(rng)
    print('histories: %d, comparisons: %d' % (2 * N_DIRECT + N_E2E_WSGI + N_E2E_ASGI, checks))
    print('PASS')


if __name__ == '__main__':
    main()
