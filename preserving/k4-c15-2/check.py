"""Generated check for Response.unset_cookie (and the cookie lines around it).

Random histories of set_cookie() / unset_cookie() / raw Set-Cookie appends are
replayed against falcon.Response and falcon.asgi.Response and, in lock step,
against an explicit reference model of the cookie jar:

    ordered map   cookie name -> (value, {attribute: value})

where, as in http.cookies, writing a name again keeps the attribute record of
that name and only overwrites what the call sets.  At the end of every history
the Set-Cookie lines handed to the WSGI / ASGI server are parsed and compared
with the model (one line per raw cookie, then one line per cookie, attributes
exactly as modelled, an unset cookie empty and with an Expires date in the
past), and the ``name=value`` pairs are echoed back in a Cookie header and read
through the request API.

For names that are written exactly once in a history the expectations do not
depend on the retention rule at all: they are read straight off the property
(exactly the requested attributes; Secure from the app option; unset => empty,
expired, SameSite as requested, no Max-Age).

Run as:  PYTHONPATH=<falcon tree> python check.py      (prints PASS, exit 0)
"""

import asyncio
from datetime import datetime
from datetime import timedelta
from datetime import timezone
from http import cookies as http_cookies
import random
import sys
import time

import falcon
import falcon.asgi
from falcon import testing

SEED = 150215
N_DIRECT = 2500  # histories per response class
N_E2E_WSGI = 250
N_E2E_ASGI = 100

WEEKDAYS = ['Mon', 'Tue', 'Wed', 'Thu', 'Fri', 'Sat', 'Sun']
MONTHS = ['Jan', 'Feb', 'Mar', 'Apr', 'May', 'Jun', 'Jul', 'Aug', 'Sep', 'Oct', 'Nov', 'Dec']

NAMES = ['a', 'b', 'sid', 'Sid', 'x-y', 'tok_1', 'k!#$%', "q'*+.^`|~"]
BAD_NAMES = ['bad name', 'semi;colon', 'eq=ual', 'com,ma', '']
NON_ASCII = ['näme', '日本', 'café']
TOKEN = 'abcdefghijklmnopqrstuvwxyzABCDEFGHIJKLMNOPQRSTUVWXYZ0123456789-_.'
PRINTABLE = [chr(c) for c in range(0x20, 0x7F)]
SAMESITE_OK = ['Lax', 'lax', 'LAX', 'Strict', 'sTRICT', 'strict', 'None', 'none', 'NONE']
SAMESITE_BAD = ['laxx', 'secure', 'yes']
UNSET_SAMESITE = ['Lax', 'Strict', 'None', 'lax', 'none']

checks = 0


def ok(cond, *info):
    global checks
    checks += 1
    if not cond:
        print('FAIL', *[repr(i) for i in info])
        sys.exit(1)


def http_date(dt):
    """Wdy, DD Mon YYYY HH:MM:SS GMT -- written out without strftime."""
    return '%s, %02d %s %04d %02d:%02d:%02d GMT' % (
        WEEKDAYS[dt.weekday()],
        dt.day,
        MONTHS[dt.month - 1],
        dt.year,
        dt.hour,
        dt.minute,
        dt.second,
    )


def parse_http_date(text):
    wd, rest = text.split(', ')
    day, mon, year, hms, gmt = rest.split(' ')
    assert gmt == 'GMT'
    h, m, s = hms.split(':')
    dt = datetime(int(year), MONTHS.index(mon) + 1, int(day), int(h), int(m), int(s))
    assert WEEKDAYS[dt.weekday()] == wd
    return dt.replace(tzinfo=timezone.utc)


def rand_token(rng, lo=1, hi=8):
    return ''.join(rng.choice(TOKEN) for _ in range(rng.randint(lo, hi)))


def rand_cookie_value(rng):
    r = rng.random()
    if r < 0.5:
        return rand_token(rng, 0, 10)
    return ''.join(rng.choice(PRINTABLE) for _ in range(rng.randint(0, 10)))


def rand_expires(rng):
    r = rng.random()
    if r < 0.45:
        return None
    dt = datetime(2000, 1, 1) + timedelta(seconds=rng.randint(0, 40 * 366 * 86400))
    if r < 0.75:
        return dt  # naive
    offset = timedelta(minutes=rng.choice([0, 60, -300, 330, 765, -720, 1]))
    return dt.replace(tzinfo=timezone(offset))  # aware


def rand_max_age(rng):
    r = rng.random()
    if r < 0.5:
        return None
    n = rng.randint(0, 10**6)
    if r < 0.7:
        return n
    if r < 0.85:
        return n + rng.random()
    return str(n)


def gen_history(rng):
    ops = []
    for _ in range(rng.randint(2, 10)):
        r = rng.random()
        if r < 0.50:
            name = rng.choice(NAMES)
            rr = rng.random()
            if rr < 0.04:
                name = rng.choice(BAD_NAMES)
            elif rr < 0.07:
                name = rng.choice(NON_ASCII)
            value = rand_cookie_value(rng)
            if rng.random() < 0.03:
                value = rng.choice(NON_ASCII)
            same_site = None
            rr = rng.random()
            if rr < 0.45:
                same_site = rng.choice(SAMESITE_OK)
            elif rr < 0.50:
                same_site = rng.choice(SAMESITE_BAD)
            kwargs = dict(
                expires=rand_expires(rng),
                max_age=rand_max_age(rng),
                domain=rng.choice([None, None, '', 'example.com', 'a.b.example.org']),
                path=rng.choice([None, None, '', '/', '/a/b', '/x y']),
                secure=rng.choice([None, True, False]),
                http_only=rng.choice([True, True, False]),
                same_site=same_site,
                partitioned=rng.choice([False, False, True]),
            )
            # sometimes leave arguments out altogether, to hit the defaults
            for key in list(kwargs):
                if rng.random() < 0.3:
                    del kwargs[key]
            ops.append(('set', name, value, kwargs))
        elif r < 0.88:
            name = rng.choice(NAMES)
            if rng.random() < 0.04:
                name = rng.choice(BAD_NAMES)
            kwargs = {}
            if rng.random() < 0.4:
                kwargs['samesite'] = rng.choice(UNSET_SAMESITE)
            if rng.random() < 0.4:
                kwargs['domain'] = rng.choice([None, '', 'example.com', 'other.example'])
            if rng.random() < 0.4:
                kwargs['path'] = rng.choice([None, '', '/', '/a/b'])
            ops.append(('unset', name, kwargs))
        else:
            raw = rng.choice(NAMES) + '=' + rand_token(rng) + rng.choice(['', '; Path=/'])
            casing = rng.choice(['Set-Cookie', 'set-cookie', 'SET-COOKIE', 'sEt-cOOkIe'])
            ops.append(('raw', casing, raw))
    return ops


class Jar:
    """Reference model: name -> [value, attrs]; raw lines; write counts."""

    def __init__(self, secure_default):
        self.secure_default = secure_default
        self.cookies = {}
        self.raw = []
        self.writes = {}
        self.created = False  # whether the response would hold a (maybe empty) jar

    def _record(self, name, value):
        self.writes[name] = self.writes.get(name, 0) + 1
        if name in self.cookies:
            self.cookies[name][0] = value
        else:
            self.cookies[name] = [value, {}]
        return self.cookies[name][1]


def legal_key(name):
    legal = set("abcdefghijklmnopqrstuvwxyzABCDEFGHIJKLMNOPQRSTUVWXYZ0123456789!#$%&'*+-.^_`|~:")
    return bool(name) and all(c in legal for c in name)


def apply(resp, jar, op):
    kind = op[0]
    if kind == 'raw':
        _, casing, raw = op
        resp.append_header(casing, raw)
        jar.raw.append(raw)
        return

    if kind == 'set':
        _, name, value, kwargs = op
        expect = None
        if not name.isascii():
            expect = KeyError
        elif not value.isascii():
            expect = ValueError
        elif not legal_key(name):
            expect = KeyError
        same_site = kwargs.get('same_site')
        bad_same_site = bool(same_site) and same_site.lower() not in ('lax', 'strict', 'none')
        if expect is None and bad_same_site:
            expect = ValueError

        try:
            resp.set_cookie(name, value, **kwargs)
        except Exception as ex:
            ok(expect is not None and type(ex) is expect, 'set_cookie raised', op, ex)
        else:
            ok(expect is None, 'set_cookie did not raise', op, expect)

        if not name.isascii() or not value.isascii():
            return  # rejected before the jar is touched
        jar.created = True
        if not legal_key(name):
            return
        attrs = jar._record(name, value)
        expires = kwargs.get('expires')
        if expires:
            if expires.tzinfo is not None:
                expires = (expires - expires.utcoffset()).replace(tzinfo=None)
            attrs['expires'] = http_date(expires)
        if kwargs.get('max_age') is not None:
            attrs['Max-Age'] = str(int(float(kwargs['max_age'])))
        if kwargs.get('domain'):
            attrs['Domain'] = kwargs['domain']
        if kwargs.get('path'):
            attrs['Path'] = kwargs['path']
        secure = kwargs.get('secure')
        if jar.secure_default if secure is None else secure:
            attrs['Secure'] = True
        if kwargs.get('http_only', True):
            attrs['HttpOnly'] = True
        if same_site:
            if bad_same_site:
                return  # raised here; Partitioned not reached
            attrs['SameSite'] = same_site[0].upper() + same_site[1:].lower()
        if kwargs.get('partitioned'):
            attrs['Partitioned'] = True
        return

    if kind == 'unset':
        _, name, kwargs = op
        try:
            resp.unset_cookie(name, **kwargs)
        except http_cookies.CookieError as ex:
            ok(not legal_key(name), 'unset_cookie raised', op, ex)
        else:
            ok(legal_key(name), 'unset_cookie accepted an illegal name', op)
        jar.created = True
        if not legal_key(name):
            return
        attrs = jar._record(name, '')
        attrs['expires'] = -1
        attrs['SameSite'] = kwargs.get('samesite', 'Lax')
        if kwargs.get('domain'):
            attrs['Domain'] = kwargs['domain']
        if kwargs.get('path'):
            attrs['Path'] = kwargs['path']
        return

    raise AssertionError(kind)  # pragma: no cover


FLAGS = ('Secure', 'HttpOnly', 'Partitioned')


def parse_line(line):
    parts = line.split('; ')
    name, _, coded = parts[0].partition('=')
    attrs = {}
    for part in parts[1:]:
        key, eq, val = part.partition('=')
        ok(key not in attrs, 'attribute twice', line)
        if key in FLAGS:
            ok(eq == '', 'flag with a value', line)
            attrs[key] = True
        else:
            ok(eq == '=', 'attribute without a value', line)
            attrs[key] = val
    return name, coded, attrs


def compare_lines(lines, jar, t0, t1):
    """lines: the Set-Cookie values handed to the server, in order."""
    n_raw = len(jar.raw)
    ok(lines[:n_raw] == jar.raw, 'raw cookie lines', lines, jar.raw)
    rest = lines[n_raw:]
    ok(len(rest) == len(jar.cookies), 'one line per cookie', rest, list(jar.cookies))
    pairs = []
    for line, (name, (value, attrs)) in zip(rest, jar.cookies.items()):
        ok(line.isascii(), 'cookie line not ASCII', line)
        got_name, coded, got = parse_line(line)
        ok(got_name == name, 'cookie order / name', line, name)
        want = dict(attrs)
        if want.get('expires') == -1:
            # expired: a date in the past (now - 1s at rendering time)
            ok('expires' in got, 'unset cookie without expires', line)
            when = parse_http_date(got.pop('expires'))
            del want['expires']
            ok(t0 - 2 <= when.timestamp() <= t1 - 1 + 1e-6, 'not expired', line, t0, t1)
            ok(when.timestamp() < t1, 'expiry not in the past', line)
        ok(got == want, 'attributes', line, want)
        if value == '':
            ok(coded == '""', 'empty value', line)
        pairs.append((name, value, coded))

        if jar.writes[name] == 1:
            # property-level expectations, independent of the retention rule
            if value == '' and attrs.get('expires') == -1:
                ok('Max-Age' not in got and 'SameSite' in got, 'fresh unset cookie', line)
            ok(('Secure' in got) == ('Secure' in attrs), 'secure', line)
    return pairs


def check_echo(pairs, asgi):
    if not pairs:
        return
    header = '; '.join('%s=%s' % (n, c) for n, _, c in pairs)
    if asgi:
        req = testing.create_asgi_req(headers={'Cookie': header})
    else:
        req = testing.create_req(headers={'Cookie': header})
    want = {n: v for n, v, _ in pairs}
    ok(req.cookies == want, 'echoed cookies', header, req.cookies, want)
    for n, v, _ in pairs:
        ok(req.get_cookie_values(n) == [v], 'get_cookie_values', header, n, v)


def final_lines(resp, asgi):
    if asgi:
        items = [(n.decode('ascii'), v.decode('ascii')) for n, v in resp._asgi_headers()]
    else:
        items = resp._wsgi_headers()
    ok(all(n == 'set-cookie' for n, _ in items), 'unexpected plain header', items)
    return [v for _, v in items]


def run_direct(rng, cls, asgi):
    for _ in range(N_DIRECT):
        ops = gen_history(rng)
        secure_default = rng.random() < 0.6
        resp = cls()
        resp.options.secure_cookies_by_default = secure_default
        jar = Jar(secure_default)
        for op in ops:
            apply(resp, jar, op)
        ok((resp._cookies is not None) == jar.created, 'jar creation', ops)
        t0 = int(time.time())
        lines = final_lines(resp, asgi)
        t1 = time.time()
        pairs = compare_lines(lines, jar, t0, t1)
        check_echo(pairs, asgi)
        # plain-header calls can neither see nor drop the cookies
        for call in (
            lambda: resp.get_header('Set-Cookie'),
            lambda: resp.set_header('set-cookie', 'a=b'),
            lambda: resp.delete_header('SET-COOKIE'),
            lambda: resp.set_headers([('Set-cookie', 'a=b')]),
        ):
            try:
                call()
            except falcon.HeaderNotSupported:
                ok(True)
            else:
                ok(False, 'Set-Cookie reachable through a plain-header call')
        ok(len(final_lines(resp, asgi)) == len(lines), 'cookie lines changed')


class Replay:
    def __init__(self):
        self.ops = []
        self.jar = None
        self.secure_default = True

    def _go(self, resp):
        self.jar = Jar(self.secure_default)
        for op in self.ops:
            apply(resp, self.jar, op)

    def on_get(self, req, resp):
        self._go(resp)


class ReplayAsync(Replay):
    async def on_get(self, req, resp):
        self._go(resp)


def run_e2e_wsgi(rng):
    app = falcon.App()
    res = Replay()
    app.add_route('/', res)
    for _ in range(N_E2E_WSGI):
        res.ops = gen_history(rng)
        res.secure_default = rng.random() < 0.6
        app.resp_options.secure_cookies_by_default = res.secure_default
        captured = {}

        def start_response(status, headers, exc_info=None):
            captured['status'] = status
            captured['headers'] = headers

        t0 = int(time.time())
        list(app(testing.create_environ(path='/'), start_response))
        t1 = time.time()
        ok(captured['status'].startswith('200'), 'status', captured)
        lines = [v for n, v in captured['headers'] if n.lower() == 'set-cookie']
        check_echo(compare_lines(lines, res.jar, t0, t1), False)


def run_e2e_asgi(rng):
    app = falcon.asgi.App()
    res = ReplayAsync()
    app.add_route('/', res)

    async def main():
        for _ in range(N_E2E_ASGI):
            res.ops = gen_history(rng)
            res.secure_default = rng.random() < 0.6
            app.resp_options.secure_cookies_by_default = res.secure_default
            emitter = testing.ASGIRequestEventEmitter()
            collector = testing.ASGIResponseEventCollector()
            t0 = int(time.time())
            await app(testing.create_scope(path='/'), emitter, collector)
            t1 = time.time()
            start = [e for e in collector.events if e['type'] == 'http.response.start']
            ok(len(start) == 1 and start[0]['status'] == 200, 'ASGI start')
            lines = []
            for n, v in start[0]['headers']:
                ok(bytes(n) == bytes(n).lower(), 'ASGI lower-case name', n)
                if bytes(n) == b'set-cookie':
                    lines.append(bytes(v).decode('ascii'))
            check_echo(compare_lines(lines, res.jar, t0, t1), True)

    asyncio.run(main())


def run_expected_values():
    """Hand-derived expectations for unset_cookie itself."""
    for cls, asgi in ((falcon.Response, False), (falcon.asgi.Response, True)):
        resp = cls()
        resp.unset_cookie('gone')
        resp.unset_cookie('gone2', samesite='Strict', domain='example.com', path='/p')
        t0 = int(time.time())
        lines = final_lines(resp, asgi)
        t1 = time.time()
        ok(len(lines) == 2, 'two lines', lines)
        name, coded, attrs = parse_line(lines[0])
        ok((name, coded) == ('gone', '""'), 'emptied', lines)
        ok(sorted(attrs) == ['SameSite', 'expires'], 'exact attributes', attrs)
        ok(attrs['SameSite'] == 'Lax', 'default SameSite', attrs)
        ok(t0 - 2 <= parse_http_date(attrs['expires']).timestamp() < t1, 'expired', attrs)
        name, coded, attrs = parse_line(lines[1])
        ok((name, coded) == ('gone2', '""'), 'emptied', lines)
        ok(sorted(attrs) == ['Domain', 'Path', 'SameSite', 'expires'], 'attributes', attrs)
        ok(attrs['Domain'] == 'example.com' and attrs['Path'] == '/p', 'scope', attrs)
        ok(attrs['SameSite'] == 'Strict', 'SameSite', attrs)

        # a cookie set and then unset yields ONE line, in its original position
        resp = cls()
        resp.set_cookie('first', '1')
        resp.set_cookie('second', '2')
        resp.append_header('Set-Cookie', 'first=raw')
        resp.unset_cookie('first')
        lines = final_lines(resp, asgi)
        ok(len(lines) == 3, 'three lines', lines)
        ok(lines[0] == 'first=raw', 'raw line first', lines)
        ok(lines[1].startswith('first=""; '), 'unset in place', lines)
        ok(lines[2].startswith('second=2; '), 'other cookie untouched', lines)
        # the morsel stored in the jar is the one that carries the attributes
        morsel = resp._cookies['first']
        ok(morsel['expires'] == -1 and morsel['samesite'] == 'Lax', 'stored morsel', morsel)
        ok(morsel.value == '' and morsel.key == 'first', 'stored morsel value', morsel)
        ok(list(resp._cookies) == ['first', 'second'], 'jar order', list(resp._cookies))


def main():
    rng = random.Random(SEED)
    run_expected_values()
    run_direct(rng, falcon.Response, False)
    run_direct(rng, falcon.asgi.Response, True)
    run_e2e_wsgi(rng)
    run_e2e_asgi(rng)
    print('histories: %d, comparisons: %d' % (2 * N_DIRECT + N_E2E_WSGI + N_E2E_ASGI, checks))
    print('PASS')


if __name__ == '__main__':
    main()
