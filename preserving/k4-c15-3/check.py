"""Generated check for falcon.asgi.Response._asgi_headers.

Random histories of header / cookie operations are replayed against
falcon.asgi.Response; an explicit model predicts, byte for byte, the list that
must be handed to the ASGI server:

    plain headers   : each exactly once, (lower-case name, value) as latin-1 bytes
    raw cookies     : one (b'set-cookie', value) line per append_header() call, in order
    cookies         : one (b'set-cookie', line) per cookie name, in first-write order

including the default media type argument, the error paths (a header that is
not latin-1 encodable, a raw cookie that is not ASCII) and the agreement with
the WSGI sibling (_wsgi_headers).  Part of the histories runs inside a real
falcon.asgi.App and the 'http.response.start' event is compared.

Run as:  PYTHONPATH=<falcon tree> python check.py      (prints PASS, exit 0)
"""

import asyncio
import random
import sys

import falcon
import falcon.asgi
from falcon import testing

SEED = 150315
N_DIRECT = 5000
N_E2E = 300

BASE_NAMES = [
    'X-Foo',
    'X-Bar',
    'x-a_b',
    'Content-Type',
    'Content-Length',
    'Link',
    'Vary',
    'ETag',
    'Cache-Control',
    'Retry-After',
    'Set-Cookie2',
    'X-Set-Cookie',
    'Set-Cookie',
    'Set-Cookie',
    'Set-Cookie',
]
ASCII_PRINTABLE = [chr(c) for c in range(0x20, 0x7F)]
LATIN1_HIGH = [chr(c) for c in range(0xA0, 0x100)]
NOT_LATIN1 = ['€', 'π', 'ж', '日', '😀', 'Ā']
COOKIE_NAMES = ['a', 'sid', 'Sid', 'x-y', 'tok_1']
TOKEN = 'abcdefghijklmnopqrstuvwxyzABCDEFGHIJKLMNOPQRSTUVWXYZ0123456789-_.'
MEDIA_TYPES = [None, None, 'application/json', 'text/event-stream', 'text/plain; charset=utf-8']

checks = 0


def ok(cond, *info):
    global checks
    checks += 1
    if not cond:
        print('FAIL', *[repr(i) for i in info])
        sys.exit(1)


def recase(rng, name):
    return ''.join(c.upper() if rng.random() < 0.5 else c.lower() for c in name)


def rand_value(rng, latin1=True):
    alphabet = ASCII_PRINTABLE + (LATIN1_HIGH if latin1 and rng.random() < 0.35 else [])
    return ''.join(rng.choice(alphabet) for _ in range(rng.randint(0, 12)))


def rand_token(rng, lo=1, hi=8):
    return ''.join(rng.choice(TOKEN) for _ in range(rng.randint(lo, hi)))


class Model:
    def __init__(self, secure_default):
        self.secure_default = secure_default
        self.plain = {}  # lower-case name -> value
        self.raw = []  # raw Set-Cookie values
        self.cookies = {}  # name -> exact expected line

    def expected(self, media_type):
        """The exact list for the server (plain part order-insensitive)."""
        plain = dict(self.plain)
        if media_type is not None and 'content-type' not in plain:
            plain['content-type'] = media_type
        head = sorted((n.encode('latin-1'), v.encode('latin-1')) for n, v in plain.items())
        tail = [(b'set-cookie', v.encode('ascii')) for v in self.raw]
        tail += [(b'set-cookie', v.encode('ascii')) for v in self.cookies.values()]
        return head, tail


def gen_history(rng):
    ops = []
    for _ in range(rng.randint(2, 14)):
        r = rng.random()
        name = recase(rng, rng.choice(BASE_NAMES))
        is_cookie = name.lower() == 'set-cookie'
        if r < 0.35:
            if is_cookie:
                value = rand_token(rng) + '=' + rand_value(rng, latin1=False).replace(';', '')
                value += rng.choice(['', '; Path=/', '; Max-Age=0; HttpOnly'])
            else:
                value = rand_value(rng)
            ops.append(('append', name, value))
        elif r < 0.50:
            ops.append(('set', name, rand_value(rng)))
        elif r < 0.58:
            ops.append(('delete', name))
        elif r < 0.64:
            pairs = [
                (recase(rng, rng.choice(BASE_NAMES[:-3])), rand_value(rng))
                for _ in range(rng.randint(0, 4))
            ]
            ops.append(('bulk', pairs))
        elif r < 0.72:
            which = rng.choice(['content_type', 'content_length', 'retry_after', 'vary'])
            if rng.random() < 0.2:
                value = None
            elif which == 'content_type':
                value = rng.choice(MEDIA_TYPES[2:])
            elif which == 'vary':
                value = [rand_token(rng) for _ in range(rng.randint(1, 3))]
            else:
                value = rng.randint(0, 99999)
            ops.append(('prop', which, value))
        elif r < 0.92:
            ops.append(
                (
                    'cookie',
                    rng.choice(COOKIE_NAMES),
                    rand_token(rng),
                    rng.choice([None, True, False]),
                    rng.choice([True, False]),
                    rng.choice([None, 0, 3600]),
                    rng.choice([None, '/', '/p']),
                )
            )
        else:
            ops.append(('uncookie_like', rng.choice(COOKIE_NAMES)))
    return ops


PROP_HEADER = {
    'content_type': 'content-type',
    'content_length': 'content-length',
    'retry_after': 'retry-after',
    'vary': 'vary',
}


def apply(resp, model, op):
    kind = op[0]
    if kind == 'append':
        _, name, value = op
        low = name.lower()
        resp.append_header(name, value)
        if low == 'set-cookie':
            model.raw.append(value)
        elif low in model.plain:
            model.plain[low] += ', ' + value
        else:
            model.plain[low] = value
    elif kind == 'set':
        _, name, value = op
        if name.lower() == 'set-cookie':
            try:
                resp.set_header(name, value)
            except falcon.HeaderNotSupported:
                ok(True)
            else:
                ok(False, 'set_header accepted Set-Cookie', op)
        else:
            resp.set_header(name, value)
            model.plain[name.lower()] = value
    elif kind == 'delete':
        _, name = op
        if name.lower() == 'set-cookie':
            try:
                resp.delete_header(name)
            except falcon.HeaderNotSupported:
                ok(True)
            else:
                ok(False, 'delete_header accepted Set-Cookie', op)
        else:
            resp.delete_header(name)
            model.plain.pop(name.lower(), None)
    elif kind == 'bulk':
        _, pairs = op
        resp.set_headers(pairs)
        for n, v in pairs:
            model.plain[n.lower()] = v
    elif kind == 'prop':
        _, which, value = op
        setattr(resp, which, value)
        header = PROP_HEADER[which]
        if value is None:
            model.plain.pop(header, None)
        elif which == 'vary':
            model.plain[header] = ', '.join(value)
        else:
            model.plain[header] = str(value)
    elif kind == 'cookie':
        _, name, value, secure, http_only, max_age, path = op
        # NOTE: every call passes the complete attribute set that the line is
        #   predicted from; attributes of an earlier write of the same name
        #   that this call does not overwrite are carried along by the model.
        resp.set_cookie(
            name, value, secure=secure, http_only=http_only, max_age=max_age, path=path
        )
        prev = model.cookies.get(name)
        attrs = dict(prev[1]) if isinstance(prev, tuple) else {}
        if http_only:
            attrs['HttpOnly'] = None
        if max_age is not None:
            attrs['Max-Age'] = str(max_age)
        if path:
            attrs['Path'] = path
        if model.secure_default if secure is None else secure:
            attrs['Secure'] = None
        model.cookies[name] = (value, attrs)
    elif kind == 'uncookie_like':
        # overwrite the value only (all attributes off): position must be kept
        _, name = op
        resp.set_cookie(name, 'again', secure=False, http_only=False)
        prev = model.cookies.get(name)
        attrs = dict(prev[1]) if isinstance(prev, tuple) else {}
        model.cookies[name] = ('again', attrs)
    else:  # pragma: no cover
        raise AssertionError(kind)


def cookie_line(name, value, attrs):
    parts = ['%s=%s' % (name, value)]
    # http.cookies emits attributes sorted by their lower-case key
    for key in sorted(attrs, key=str.lower):
        parts.append(key if attrs[key] is None else '%s=%s' % (key, attrs[key]))
    return '; '.join(parts)


class LineView:
    """Model.cookies holds (value, attrs); render to exact lines on demand."""

    def __init__(self, model):
        self.model = model

    def render(self):
        m = Model(self.model.secure_default)
        m.plain = self.model.plain
        m.raw = self.model.raw
        m.cookies = {
            n: cookie_line(n, v, a) for n, (v, a) in self.model.cookies.items()
        }
        return m


def compare(items, model, media_type, ignore=()):
    ok(isinstance(items, list), 'not a list', type(items))
    for pair in items:
        ok(isinstance(pair, tuple) and len(pair) == 2, 'not a 2-tuple', pair)
        n, v = pair
        ok(type(n) is bytes and type(v) is bytes, 'not bytes', pair)
        ok(n == n.lower(), 'name not lower-case', pair)
    head, tail = LineView(model).render().expected(media_type)
    head = [p for p in head if p[0].decode('latin-1') not in ignore]
    got_head = [p for p in items if p[0] != b'set-cookie']
    got_head = [p for p in got_head if p[0].decode('latin-1') not in ignore]
    got_tail = [p for p in items if p[0] == b'set-cookie']
    ok(sorted(got_head) == head, 'plain headers', got_head, head)
    ok(got_tail == tail, 'Set-Cookie lines', got_tail, tail)
    if not ignore:
        # plain headers come first, cookie lines after them
        ok(items[: len(got_head)] == got_head, 'cookie line among plain headers', items)


def run_direct(rng):
    for _ in range(N_DIRECT):
        ops = gen_history(rng)
        secure_default = rng.random() < 0.6
        resp = falcon.asgi.Response()
        resp.options.secure_cookies_by_default = secure_default
        model = Model(secure_default)
        for op in ops:
            apply(resp, model, op)
        media_type = rng.choice(MEDIA_TYPES)
        items = resp._asgi_headers(media_type) if media_type else resp._asgi_headers()
        compare(items, model, media_type)
        if media_type is not None and 'content-type' not in model.plain:
            # the default is recorded on the response (as in the WSGI sibling)
            model.plain['content-type'] = media_type
            ok(resp.content_type == media_type, 'default media type not recorded')
        # repeatable, fresh list every time, internal state not aliased
        again = resp._asgi_headers()
        ok(again == items and again is not items, 'second rendering differs')
        items.append((b'x-junk', b'1'))
        ok(resp._asgi_headers() == again, 'result aliases internal state')
        # agreement with the WSGI sibling
        wsgi = resp._wsgi_headers()
        ok(
            [(n.encode('latin-1'), v.encode('latin-1')) for n, v in wsgi] == again,
            'WSGI / ASGI disagree',
            wsgi,
            again,
        )
        n_extra = len(resp._extra_headers or ())
        ok(n_extra == len(model.raw), 'raw cookie store', resp._extra_headers)


def run_error_paths(rng):
    for _ in range(1500):
        ops = gen_history(rng)
        resp = falcon.asgi.Response()
        model = Model(True)
        for op in ops:
            apply(resp, model, op)
        good = resp._asgi_headers()
        r = rng.random()
        if r < 0.4:
            # a plain header VALUE outside latin-1 => ValueError (not Unicode*Error)
            resp.set_header('X-Poison', rand_token(rng) + rng.choice(NOT_LATIN1))
            try:
                resp._asgi_headers()
            except UnicodeError as ex:
                ok(False, 'UnicodeError leaked', ex)
            except ValueError as ex:
                ok('ASCII' in str(ex), 'message', ex)
            else:
                ok(False, 'non latin-1 value accepted')
            resp.delete_header('x-poison')
        elif r < 0.7:
            # a raw cookie outside ASCII (even if latin-1) => UnicodeEncodeError
            bad = 'n=' + rand_token(rng) + rng.choice(LATIN1_HIGH + NOT_LATIN1)
            resp.append_header('Set-Cookie', bad)
            try:
                resp._asgi_headers()
            except UnicodeEncodeError as ex:
                ok(ex.encoding == 'ascii' and ex.object == bad, 'error detail', ex)
            else:
                ok(False, 'non-ASCII raw cookie accepted')
            ok(resp._extra_headers.pop() == ('set-cookie', bad), 'raw store')
        else:
            # latin-1 plain values are fine and come out as single bytes
            value = ''.join(rng.choice(LATIN1_HIGH) for _ in range(rng.randint(1, 6)))
            resp.set_header('X-Latin', value)
            items = resp._asgi_headers()
            ok((b'x-latin', value.encode('latin-1')) in items, 'latin-1 value', items)
            resp.delete_header('X-LATIN')
        # the failed / extra rendering left nothing behind
        ok(resp._asgi_headers() == good, 'state disturbed by a rendering', good)


class Replay:
    def __init__(self):
        self.ops = []
        self.model = None
        self.secure_default = True

    async def on_get(self, req, resp):
        self.model = Model(self.secure_default)
        for op in self.ops:
            apply(resp, self.model, op)


def run_e2e(rng):
    app = falcon.asgi.App()
    res = Replay()
    app.add_route('/', res)

    async def main():
        for _ in range(N_E2E):
            res.ops = gen_history(rng)
            res.secure_default = rng.random() < 0.6
            app.resp_options.secure_cookies_by_default = res.secure_default
            emitter = testing.ASGIRequestEventEmitter()
            collector = testing.ASGIResponseEventCollector()
            await app(testing.create_scope(path='/'), emitter, collector)
            start = [e for e in collector.events if e['type'] == 'http.response.start']
            ok(len(start) == 1 and start[0]['status'] == 200, 'ASGI start', collector.events)
            items = [tuple(p) for p in start[0]['headers']]
            compare(items, res.model, None, ignore=('content-type', 'content-length'))

    asyncio.run(main())


def run_expected_values():
    resp = falcon.asgi.Response()
    resp.options.secure_cookies_by_default = False
    ok(resp._asgi_headers() == [], 'empty response', resp._asgi_headers())
    ok(resp._asgi_headers('a/b') == [(b'content-type', b'a/b')], 'default media type')
    resp.set_header('X-UP', 'caf\xe9')
    resp.append_header('SET-COOKIE', 'r1=1')
    resp.set_cookie('c1', 'v1', http_only=False)
    resp.append_header('Set-Cookie', 'r2=2; Path=/')
    resp.set_cookie('c2', 'v2', secure=True, max_age=5)
    resp.set_cookie('c1', 'v3', http_only=False)
    want = [
        (b'content-type', b'a/b'),
        (b'x-up', b'caf\xe9'),
        (b'set-cookie', b'r1=1'),
        (b'set-cookie', b'r2=2; Path=/'),
        (b'set-cookie', b'c1=v3'),
        (b'set-cookie', b'c2=v2; HttpOnly; Max-Age=5; Secure'),
    ]
    ok(resp._asgi_headers('x/y') == want, 'expected list', resp._asgi_headers('x/y'), want)
    # an emptied / absent raw store contributes nothing
    resp._extra_headers = []
    ok(resp._asgi_headers() == want[:2] + want[4:], 'empty raw store')
    resp._extra_headers = None
    ok(resp._asgi_headers() == want[:2] + want[4:], 'absent raw store')
    # a jar that exists but is empty contributes nothing either
    resp = falcon.asgi.Response()
    try:
        resp.set_cookie('bad name', 'v')
    except KeyError:
        pass
    ok(resp._cookies is not None and resp._asgi_headers() == [], 'empty jar')


def main():
    rng = random.Random(SEED)
    run_expected_values()
    run_direct(rng)
    run_error_paths(rng)
    run_e2e(rng)
    print('histories: %d, comparisons: %d' % (N_DIRECT + 1500 + N_E2E, checks))
    print('PASS')


if __name__ == '__main__':
    main()
