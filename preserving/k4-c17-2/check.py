"""Generated check for the falcon ASGI WebSocket state machine (property C17).

Self-contained: standard library + falcon only.  Run as

    PYTHONPATH=<a falcon tree> python check.py

The script drives ``falcon.asgi.App`` with a scripted ASGI server (hand written
``receive``/``send`` callables), random responder scripts, random client
scripts and random faults of the server's ``send``; every session is compared
with an explicit reference model of the documented state machine (written
from the property, not copied from the implementation).  It prints PASS and
exits 0 when every generated case agrees with the model.
"""

import asyncio
import logging
import random
import re
import sys
import time

import falcon
import falcon.asgi
from falcon import media
from falcon import testing
from falcon.constants import WebSocketPayloadType

logging.disable(logging.CRITICAL)

VERSIONS = ('2.0', '2.1', '2.2', '2.3', '2.4')
T_CONNECT = 'websocket.connect'
T_ACCEPT = 'websocket.accept'
T_RECEIVE = 'websocket.receive'
T_SEND = 'websocket.send'
T_DISCONNECT = 'websocket.disconnect'
T_CLOSE = 'websocket.close'


# --------------------------------------------------------------------------
# Exceptions used by scripts
# --------------------------------------------------------------------------
class CustomErr1(Exception):
    pass


class CustomErr2(Exception):
    pass


class ServerGone(IOError):
    """A server specific subclass of IOError (ASGI spec 2.4)."""


FAULT_CLASSES = {
    'RuntimeError': RuntimeError,
    'ValueError': ValueError,
    'OSError': OSError,
    'ConnectionResetError': ConnectionResetError,
    'BrokenPipeError': BrokenPipeError,
    'ServerGone': ServerGone,
    'Exception': Exception,
    'LookupError': LookupError,
}
OSERROR_LIKE = {'OSError', 'ConnectionResetError', 'BrokenPipeError', 'ServerGone'}


class FalsyCause(Exception):
    """An exception object that is false in a boolean context."""

    def __bool__(self):
        return False


def build_fault(desc):
    cls_name, msg, cause_msg = desc
    ex = FAULT_CLASSES[cls_name](msg)
    if cause_msg is not None:
        if cause_msg.startswith('FALSY:'):
            ex.__cause__ = FalsyCause(cause_msg[6:])
        else:
            ex.__cause__ = Exception(cause_msg)
    return ex


class BinHandler(media.BinaryBaseHandlerWS):
    """A deterministic BINARY media handler (msgpack may be missing)."""

    def serialize(self, obj):
        return b'BIN:' + repr(obj).encode('utf-8')

    def deserialize(self, payload):
        if not bytes(payload).startswith(b'BIN:'):
            raise falcon.MediaMalformedError('BIN')
        return ('bin', bytes(payload)[4:])


# --------------------------------------------------------------------------
# Reference model
# --------------------------------------------------------------------------
class ModelError(Exception):
    def __init__(self, name, kind='other', code=None, msg='', status=None):
        Exception.__init__(self, name)
        self.name = name
        self.kind = kind  # other | wsd | http_error | http_status | custom1 | custom2
        self.code = code
        self.msg = msg
        self.status = status

    def entry(self):
        return ('err', self.name, self.code)


class Hang(Exception):
    """The modelled session would wait forever (case is discarded)."""


_RECEIVED = re.compile(r'received (\d\d\d\d)')


def ref_translate(desc):
    """Documented translation of an error raised by the server's send()."""
    cls_name, msg, cause_msg = desc
    if 'code = 1000 (OK)' in msg:
        return ModelError('WebSocketDisconnected', 'wsd', 1000)
    if 'protocol accepted must be from the list' in msg:
        return ModelError('ValueError', msg='WebSocket subprotocol must be from ...')
    if cls_name in OSERROR_LIKE:
        code = 1000
        # NOTE: only a cause that is true in a boolean context is inspected
        if cause_msg is not None and not cause_msg.startswith('FALSY:'):
            m = _RECEIVED.match(cause_msg)
            if m and int(m.group(1)):
                code = int(m.group(1))
        return ModelError('WebSocketDisconnected', 'wsd', code)
    return None


def supports_reason(ver):
    return tuple(int(p) for p in ver.split('.')) >= (2, 3)


class Model:
    def __init__(self, cfg, handlers):
        self.cfg = cfg
        self.ver = cfg['ver']
        self.q = cfg['queue']
        self.handlers = handlers
        self.reasons = cfg['reasons']
        self.state = 'H'
        self.close_code = None
        self.attempted = []
        self.delivered = []
        self.inbox = cfg['inbox']
        self.ridx = 0
        # pump (buffered receiver) model
        self.pump = 'none'  # none|new|blocked_put|blocked_inbox|done|stopped
        self.queue = []
        self.held = None
        self.resolved = False
        self.lost = False
        self.lost_code = None
        self.log = []

    # -- server ----------------------------------------------------------
    def server_send(self, event):
        idx = len(self.attempted)
        self.attempted.append(event)
        fault = self.cfg['fault']
        if fault is not None:
            k, desc, persistent = fault
            if idx == k or (persistent and idx > k):
                raise FaultSignal(desc)
        self.delivered.append(event)

    # -- pump ------------------------------------------------------------
    def pump_run(self):
        while not self.lost:
            if self.ridx >= len(self.inbox):
                self.pump = 'blocked_inbox'
                return
            ev = self.inbox[self.ridx]
            self.ridx += 1
            if ev['type'] == T_DISCONNECT:
                self.lost = True
                self.lost_code = ev.get('code', 1000)
            if len(self.queue) >= self.q:
                self.held = ev
                self.pump = 'blocked_put'
                self.resolved = False
                return
            self.queue.append(ev)
        self.pump = 'done'

    def pump_progress(self):
        if self.pump == 'new':
            self.pump_run()
        elif self.pump == 'blocked_put' and self.resolved:
            if len(self.queue) >= self.q:
                self.resolved = False
                return
            self.queue.append(self.held)
            self.held = None
            self.pump_run()

    def pump_stop(self):
        if self.pump != 'none':
            self.pump = 'stopped'
            self.held = None

    # -- WebSocket operations --------------------------------------------
    def closed(self):
        return self.state == 'C' or self.lost

    def _send(self, event):
        if self.lost:
            self.state = 'C'
            self.close_code = self.lost_code
        if self.state == 'C':
            raise ModelError('WebSocketDisconnected', 'wsd', self.close_code or 1000)
        try:
            self.server_send(event)
        except FaultSignal as sig:
            translated = ref_translate(sig.desc)
            if translated is not None:
                self.state = 'C'
                if translated.kind == 'wsd':
                    self.close_code = translated.code
                raise translated
            raise ModelError(sig.desc[0], msg=sig.desc[1])

    def require_accepted(self):
        if self.state == 'H':
            raise ModelError('OperationNotAllowed')
        if self.state == 'C':
            raise ModelError('WebSocketDisconnected', 'wsd', self.close_code or 1000)

    def accept(self, subprotocol, headers):
        if self.closed():
            raise ModelError('OperationNotAllowed')
        if self.state != 'H':
            raise ModelError('OperationNotAllowed')
        event = {'type': T_ACCEPT}
        if subprotocol is not None:
            if not isinstance(subprotocol, str):
                raise ModelError('ValueError')
            event['subprotocol'] = subprotocol
        if headers:
            if self.ver == '2.0':
                raise ModelError('OperationNotAllowed')
            items = headers.items() if isinstance(headers, dict) else headers
            parsed = [(n.lower().encode('ascii'), v.encode('ascii')) for n, v in items]
            event['headers'] = parsed
            if any(n == b'sec-websocket-protocol' for n, _ in parsed):
                raise ModelError('ValueError')
        self._send(event)
        self.state = 'A'
        if self.q > 0 and self.pump in ('none', 'stopped'):
            self.pump = 'new'

    def close(self, code=None):
        self.pump_stop()
        if code is None:
            code = 1000
        elif not isinstance(code, int):
            raise ModelError('ValueError', msg='code must be an int')
        elif code < 1000:
            raise ModelError('ValueError', msg='Invalid close code. >= 1000')
        elif 1015 <= code <= 1999 or code in (1004, 1005, 1006):
            raise ModelError('ValueError', msg='Invalid close code. unreserved')
        if self.closed():
            return
        event = {'type': T_CLOSE, 'code': code}
        reason = self.reasons.get(code)
        if reason and supports_reason(self.ver):
            event['reason'] = reason
        try:
            self.server_send(event)
        except FaultSignal as sig:
            raise ModelError(sig.desc[0], msg=sig.desc[1])
        self.state = 'C'
        self.close_code = code

    def send_text(self, payload):
        self.require_accepted()
        if not isinstance(payload, str):
            raise ModelError('TypeError')
        self._send({'type': T_SEND, 'text': payload})

    def send_data(self, payload):
        self.require_accepted()
        if not isinstance(payload, (bytes, bytearray, memoryview)):
            raise ModelError('TypeError')
        self._send({'type': T_SEND, 'bytes': bytes(payload)})

    def send_media(self, obj, binary):
        self.require_accepted()
        if binary:
            self._send({'type': T_SEND, 'bytes': self.handlers['bin'].serialize(obj)})
        else:
            self._send({'type': T_SEND, 'text': self.handlers['text'].serialize(obj)})

    def _receive(self):
        if self.q == 0:
            if self.ridx >= len(self.inbox):
                raise Hang()
            ev = self.inbox[self.ridx]
            self.ridx += 1
        else:
            if self.pump in ('none', 'stopped'):
                raise ModelError('AssertionError')
            if not self.queue:
                self.pump_progress()
                if not self.queue:
                    raise Hang()
            ev = self.queue.pop(0)
            if self.pump == 'blocked_put':
                self.resolved = True
        if ev['type'] != T_RECEIVE:
            self.state = 'C'
            self.close_code = ev.get('code', 1000)
            raise ModelError('WebSocketDisconnected', 'wsd', self.close_code or 1000)
        return ev

    def recv_text(self):
        self.require_accepted()
        ev = self._receive()
        if ev.get('text') is None:
            raise ModelError('PayloadTypeError')
        return ev['text']

    def recv_data(self):
        self.require_accepted()
        ev = self._receive()
        if ev.get('bytes') is None:
            raise ModelError('PayloadTypeError')
        return ev['bytes']

    def recv_media(self):
        self.require_accepted()
        ev = self._receive()
        if ev.get('text') is not None:
            return self._deser(self.handlers['text'], ev['text'])
        if ev.get('bytes') is not None:
            return self._deser(self.handlers['bin'], ev['bytes'])
        raise ModelError('PayloadTypeError')

    @staticmethod
    def _deser(handler, payload):
        try:
            return handler.deserialize(payload)
        except falcon.HTTPError as ex:
            raise ModelError(type(ex).__name__, 'http_error', status=ex.status_code)
        except Exception as ex:
            raise ModelError(type(ex).__name__, msg=str(ex))

    # -- scripts -----------------------------------------------------------
    def do(self, op):
        name = op[0]
        if name == 'accept':
            return self.accept(op[1], op[2])
        if name == 'close':
            return self.close(op[1])
        if name == 'send_text':
            return self.send_text(op[1])
        if name == 'send_data':
            return self.send_data(op[1])
        if name == 'send_media':
            return self.send_media(op[1], op[2])
        if name == 'recv_text':
            return self.recv_text()
        if name == 'recv_data':
            return self.recv_data()
        if name == 'recv_media':
            return self.recv_media()
        if name == 'yield':
            if self.q > 0:
                self.pump_progress()
            return None
        if name == 'props':
            return (
                self.state == 'H',
                self.closed(),
                self.state == 'A' and not self.lost,
            )
        if name == 'pulled':
            return ('pulled', self.ridx)
        if name == 'raise':
            kind = op[1]
            if kind == 'http_error':
                raise ModelError('HTTPError', 'http_error', status=op[2])
            if kind == 'http_status':
                raise ModelError('HTTPStatus', 'http_status', status=op[2])
            if kind == 'custom1':
                raise ModelError('CustomErr1', 'custom1')
            if kind == 'custom2':
                raise ModelError('CustomErr2', 'custom2')
            if kind == 'runtime':
                raise ModelError('RuntimeError')
            if kind == 'wsd':
                raise ModelError('WebSocketDisconnected', 'wsd', op[2] or 1000)
        raise AssertionError(op)

    def run_script(self, script, tag):
        for op in script:
            catch = op[-1]
            try:
                result = self.do(op[:-1])
                self.log.append((tag, 'ok', norm(result)))
            except ModelError as ex:
                self.log.append((tag,) + ex.entry())
                if not catch or op[0] == 'raise':
                    raise

    # -- application level ------------------------------------------------
    def cleanup_on_error(self):
        try:
            self.close(self.cfg['error_close_code'])
        except ModelError as ex:
            if 'invalid close code' in ex.msg.lower():
                self.close(3011)
            else:
                raise

    def handle_exception(self, ex):
        kind = ex.kind
        if kind in ('custom1', 'custom2') and not self.cfg['custom_handlers']:
            kind = 'other'
        if kind == 'custom1':
            self.close(4001)
        elif kind == 'custom2':
            self.close(3403)
        elif kind in ('http_error', 'http_status'):
            self.close(3000 + ex.status)
        else:  # wsd, other
            self.cleanup_on_error()

    def session(self):
        """Returns the name of the exception escaping the app (or None)."""
        cfg = self.cfg
        first = cfg['first_event']
        if first['type'] != T_CONNECT:
            event = {'type': T_CLOSE, 'code': 1011}
            if supports_reason(self.ver):
                event['reason'] = 'Internal Server Error'
            try:
                self.server_send(event)
            except FaultSignal as sig:
                return sig.desc[0]
            return None
        try:
            try:
                if cfg['middleware'] is not None:
                    self.run_script(cfg['middleware'][0], 'mw_req')
                if cfg['path'] == '/missing':
                    raise ModelError('HTTPRouteNotFound', 'http_error', status=404)
                if cfg['middleware'] is not None:
                    self.run_script(cfg['middleware'][1], 'mw_res')
                if cfg['path'] == '/nows':
                    raise ModelError('HTTPMethodNotAllowed', 'http_error', status=405)
                self.run_script(cfg['script'], 'resp')
                self.close(None)
            except ModelError as ex:
                self.handle_exception(ex)
        except ModelError as ex:
            return ex.name
        return None


class FaultSignal(Exception):
    def __init__(self, desc):
        Exception.__init__(self, desc)
        self.desc = desc


def norm(value):
    if isinstance(value, (bytearray, memoryview)):
        return bytes(value)
    return value


# --------------------------------------------------------------------------
# The real thing: a scripted ASGI server and a scripted falcon app
# --------------------------------------------------------------------------
class Conn:
    def __init__(self, cfg, loop):
        self.cfg = cfg
        self.events = [cfg['first_event']] + list(cfg['inbox'])
        self.ridx = 0
        self.attempted = []
        self.delivered = []
        self.never = loop.create_future()
        self.max_ahead = 0
        self.consumed = 0

    async def receive(self):
        if self.ridx >= len(self.events):
            await self.never
        ev = self.events[self.ridx]
        self.ridx += 1
        # hand out a private copy, as a real server would
        return dict(ev)

    async def send(self, event):
        idx = len(self.attempted)
        self.attempted.append(event)
        fault = self.cfg['fault']
        if fault is not None:
            k, desc, persistent = fault
            if idx == k or (persistent and idx > k):
                raise build_fault(desc)
        self.delivered.append(event)


def err_entry(ex):
    code = ex.code if isinstance(ex, falcon.WebSocketDisconnected) else None
    return ('err', type(ex).__name__, code)


async def real_do(ws, op):
    name = op[0]
    if name == 'accept':
        return await ws.accept(op[1], op[2])
    if name == 'close':
        return await ws.close(op[1])
    if name == 'send_text':
        return await ws.send_text(op[1])
    if name == 'send_data':
        return await ws.send_data(op[1])
    if name == 'send_media':
        ptype = WebSocketPayloadType.BINARY if op[2] else WebSocketPayloadType.TEXT
        return await ws.send_media(op[1], ptype)
    if name == 'recv_text':
        return await ws.receive_text()
    if name == 'recv_data':
        return await ws.receive_data()
    if name == 'recv_media':
        return await ws.receive_media()
    if name == 'yield':
        return await asyncio.sleep(0)
    if name == 'props':
        return (ws.unaccepted, ws.closed, ws.ready)
    if name == 'pulled':
        # number of client events the framework has pulled from the server
        return ('pulled', Current.conn.ridx - 1)
    if name == 'raise':
        kind = op[1]
        if kind == 'http_error':
            raise falcon.HTTPError(op[2])
        if kind == 'http_status':
            raise falcon.HTTPStatus(op[2])
        if kind == 'custom1':
            raise CustomErr1('one')
        if kind == 'custom2':
            raise CustomErr2('two')
        if kind == 'runtime':
            raise RuntimeError('scripted failure')
        if kind == 'wsd':
            raise falcon.WebSocketDisconnected(op[2])
    raise AssertionError(op)


async def real_script(ws, script, tag, log):
    for op in script:
        catch = op[-1]
        try:
            result = await real_do(ws, op[:-1])
            log.append((tag, 'ok', norm(result)))
        except Exception as ex:
            log.append((tag,) + err_entry(ex))
            if not catch or op[0] == 'raise':
                raise


class Current:
    cfg = None
    log = None
    conn = None


class Resource:
    async def on_websocket(self, req, ws):
        await real_script(ws, Current.cfg['script'], 'resp', Current.log)


class NoWsResource:
    async def on_get(self, req, resp):
        pass


class Middleware:
    async def process_request_ws(self, req, ws):
        await real_script(ws, Current.cfg['middleware'][0], 'mw_req', Current.log)

    async def process_resource_ws(self, req, ws, resource, params):
        await real_script(ws, Current.cfg['middleware'][1], 'mw_res', Current.log)


async def handle_custom1(req, resp, ex, params, ws=None):
    await ws.close(4001)


async def handle_custom2(req, resp, ex, params):
    raise falcon.HTTPForbidden()


_APPS = {}


def get_app(with_mw, with_handlers, queue, error_close_code):
    key = (with_mw, with_handlers, queue, error_close_code)
    app = _APPS.get(key)
    if app is None:
        app = falcon.asgi.App(middleware=[Middleware()] if with_mw else None)
        app.add_route('/ws', Resource())
        app.add_route('/nows', NoWsResource())
        if with_handlers:
            app.add_error_handler(CustomErr1, handle_custom1)
            app.add_error_handler(CustomErr2, handle_custom2)
        app.ws_options.max_receive_queue = queue
        app.ws_options.error_close_code = error_close_code
        app.ws_options.media_handlers[WebSocketPayloadType.BINARY] = BinHandler()
        _APPS[key] = app
    return app


async def real_session(cfg):
    loop = asyncio.get_running_loop()
    app = get_app(
        cfg['middleware'] is not None,
        cfg['custom_handlers'],
        cfg['queue'],
        cfg['error_close_code'],
    )
    conn = Conn(cfg, loop)
    Current.cfg = cfg
    Current.conn = conn
    Current.log = log = []
    scope = testing.create_scope_ws(path=cfg['path'], spec_version=cfg['ver'])
    escaped = None
    try:
        await asyncio.wait_for(app(scope, conn.receive, conn.send), 20)
    except asyncio.TimeoutError:
        escaped = 'TIMEOUT'
    except Exception as ex:
        escaped = type(ex).__name__
    conn.never.cancel()
    # let any cancelled background task finish
    await asyncio.sleep(0)
    leftovers = [t for t in asyncio.all_tasks() if t is not asyncio.current_task()]
    return conn, log, escaped, leftovers


# --------------------------------------------------------------------------
# Independent legality check of what reached the server
# --------------------------------------------------------------------------
def check_legal(delivered):
    phase = 'H'
    for ev in delivered:
        t = ev['type']
        if t == T_ACCEPT:
            assert phase == 'H', 'second accept or accept after close'
            phase = 'A'
        elif t == T_SEND:
            assert phase == 'A', 'data outside accept..close'
            assert ('text' in ev) != ('bytes' in ev)
        elif t == T_CLOSE:
            assert phase != 'C', 'second close'
            assert isinstance(ev['code'], int) and ev['code'] >= 1000
            phase = 'C'
        else:
            raise AssertionError('unknown event %r' % (ev,))


# --------------------------------------------------------------------------
# Generation
# --------------------------------------------------------------------------
TEXTS = ['', 'a', 'hello', '{"a": 1}', '[1, 2, 3]', '"s"', 'null', 'not json', 'é中', '0']
DATAS = [b'', b'\x00', b'abc', b'BIN:1', b'BIN:{"k": 2}', b'\xff\xfe', bytes(range(16))]
MEDIA = [None, 1, 'x', [1, 2], {'a': [1, {'b': None}]}, {'t': 'é'}, 3.5, True]
CLOSE_CODES = [None, 1000, 1001, 1003, 1011, 1012, 3000, 3404, 4000, 4999, 999, 0, -1, 1004, 1005, 1006, 1015, 1500, 1999, 2000, '1000', 1000.0, True]
DISCONNECT_CODES = [None, 1000, 1001, 1006, 1011, 3000, 4321]
HEADER_SETS = [
    None,
    [],
    {},
    [('X-One', '1')],
    {'X-Two': 'two', 'Set-Cookie': 'a=b'},
    [('Sec-WebSocket-Protocol', 'chat')],
    (('x-t', 'u'),),
]
FAULT_MSGS = [
    'boom',
    '',
    'connection lost',
    'sent 1000 (OK); no close frame received; code = 1000 (OK), no reason',
    'code = 1000 (OK)',
    'code = 1001 (going away)',
    'protocol accepted must be from the list sent by the client',
    'Invalid close code 77',
    'invalid close code',
]
CAUSE_MSGS = [
    None,
    None,
    '',
    'received 1001 (going away); then sent 1001 (going away)',
    'received 1006',
    'received 4000 (private use) bye',
    'received 0000',
    'received 999 (x)',
    ' received 1001',
    'sent 1001; received 1001',
    'received 12345',
    'no close frame received or sent',
    'FALSY:received 1001 (going away)',
]


def gen_message(rng, shapes):
    shape = rng.choice(shapes)
    text = rng.choice(TEXTS)
    data = rng.choice(DATAS)
    if shape == 'text':
        return {'type': T_RECEIVE, 'text': text}
    if shape == 'bytes':
        return {'type': T_RECEIVE, 'bytes': data}
    if shape == 'text_none':
        return {'type': T_RECEIVE, 'text': text, 'bytes': None}
    if shape == 'bytes_none':
        return {'type': T_RECEIVE, 'bytes': data, 'text': None}
    if shape == 'both':
        return {'type': T_RECEIVE, 'bytes': data, 'text': text}
    if shape == 'neither':
        return {'type': T_RECEIVE}
    if shape == 'both_none':
        return {'type': T_RECEIVE, 'bytes': None, 'text': None}
    raise AssertionError(shape)


def gen_op(rng, weights, catch_p):
    name = rng.choices(list(weights), list(weights.values()))[0]
    catch = rng.random() < catch_p
    if name == 'accept':
        sub = rng.choice([None, None, 'chat', '', 7])
        return ('accept', sub, rng.choice(HEADER_SETS), catch)
    if name == 'close':
        return ('close', rng.choice(CLOSE_CODES), catch)
    if name == 'send_text':
        payload = rng.choice(TEXTS) if rng.random() < 0.85 else rng.choice([b'x', None, 5])
        return ('send_text', payload, catch)
    if name == 'send_data':
        r = rng.random()
        raw = rng.choice(DATAS)
        if r < 0.6:
            payload = raw
        elif r < 0.75:
            payload = bytearray(raw)
        elif r < 0.88:
            payload = memoryview(raw)
        else:
            payload = rng.choice(['str', None, 5])
        return ('send_data', payload, catch)
    if name == 'send_media':
        return ('send_media', rng.choice(MEDIA), rng.random() < 0.4, catch)
    if name in ('recv_text', 'recv_data', 'recv_media', 'yield', 'props', 'pulled'):
        return (name, catch)
    if name == 'raise':
        kind = rng.choice(['http_error', 'http_status', 'custom1', 'custom2', 'runtime', 'wsd'])
        if kind == 'http_error':
            return ('raise', kind, rng.choice([400, 401, 403, 404, 409, 422, 500, 503]), False)
        if kind == 'http_status':
            return ('raise', kind, rng.choice([200, 204, 302, 404, 599]), False)
        if kind == 'wsd':
            return ('raise', kind, rng.choice([None, 1000, 1001, 4000]), False)
        return ('raise', kind, False)
    raise AssertionError(name)


DEFAULT_WEIGHTS = {
    'accept': 2,
    'close': 2,
    'send_text': 4,
    'send_data': 3,
    'send_media': 3,
    'recv_text': 3,
    'recv_data': 3,
    'recv_media': 3,
    'yield': 2,
    'props': 2,
    'pulled': 1,
    'raise': 1,
}
ALL_SHAPES = ['text', 'bytes', 'text_none', 'bytes_none', 'both', 'neither', 'both_none']


def gen_cfg(rng, reasons, profile):
    weights = dict(DEFAULT_WEIGHTS)
    weights.update(profile.get('weights', {}))
    shapes = profile.get('shapes', ['text', 'text', 'bytes', 'bytes'] + ALL_SHAPES)
    queue = rng.choice(profile.get('queues', [0, 0, 1, 2, 4]))
    n_msgs = rng.randint(0, profile.get('max_msgs', 6))
    inbox = [gen_message(rng, shapes) for _ in range(n_msgs)]
    if rng.random() < profile.get('disconnect_p', 0.6):
        code = rng.choice(DISCONNECT_CODES)
        ev = {'type': T_DISCONNECT}
        if code is not None:
            ev['code'] = code
        inbox.append(ev)

    n_ops = rng.randint(0, profile.get('max_ops', 9))
    script = []
    if rng.random() < 0.85:
        script.append(('accept', rng.choice([None, None, 'chat']), rng.choice(HEADER_SETS[:5]), False))
    catch_p = profile.get('catch_p', 0.5)
    for _ in range(n_ops):
        script.append(gen_op(rng, weights, catch_p))

    middleware = None
    if rng.random() < 0.35:
        mw_weights = {'accept': 2, 'close': 1, 'props': 3, 'raise': 1, 'send_text': 1, 'yield': 1}
        middleware = (
            [gen_op(rng, mw_weights, 0.5) for _ in range(rng.randint(0, 2))],
            [gen_op(rng, mw_weights, 0.5) for _ in range(rng.randint(0, 2))],
        )

    fault = None
    if rng.random() < profile.get('fault_p', 0.35):
        desc = (
            rng.choice(list(FAULT_CLASSES)),
            rng.choice(FAULT_MSGS),
            rng.choice(CAUSE_MSGS),
        )
        fault = (rng.randint(0, 5), desc, rng.random() < 0.5)

    first = {'type': T_CONNECT}
    if rng.random() < 0.03:
        first = rng.choice([{'type': T_DISCONNECT, 'code': 1001}, {'type': T_RECEIVE, 'text': 'x'}])

    return {
        'ver': rng.choice(VERSIONS),
        'queue': queue,
        'path': rng.choices(['/ws', '/nows', '/missing'], [10, 1, 1])[0],
        'middleware': middleware,
        'custom_handlers': rng.random() < 0.5,
        'error_close_code': rng.choice([1011, 1011, 3011, 4000, 999, 1005]),
        'first_event': first,
        'inbox': inbox,
        'script': script,
        'fault': fault,
        'reasons': reasons,
    }


# --------------------------------------------------------------------------
# Driver
# --------------------------------------------------------------------------
def reference_handlers():
    return {'text': media.JSONHandlerWS(), 'bin': BinHandler()}


STATS = {'cases': 0, 'discarded': 0, 'fault_hit': 0, 'wsd_seen': 0, 'closes': 0, 'payloads': 0, 'queue_gt0': 0}
_SHARED = {}


def shared():
    if not _SHARED:
        _SHARED['reasons'] = dict(falcon.asgi.App().ws_options.default_close_reasons)
        _SHARED['handlers'] = reference_handlers()
    return _SHARED


async def compare_case(cfg):
    """Run one configuration through the model and through falcon."""
    model = Model(cfg, shared()['handlers'])
    try:
        expected_escape = model.session()
    except Hang:
        STATS['discarded'] += 1
        return False
    conn, log, escaped, leftovers = await real_session(cfg)
    problems = []
    if log != model.log:
        problems.append('responder-visible results differ')
    if conn.attempted != model.attempted:
        problems.append('events sent to the server differ')
    if escaped != expected_escape:
        problems.append('escaping exception differs')
    if conn.ridx != 1 + model.ridx:
        problems.append('number of events pulled from the server differs')
    if leftovers:
        problems.append('background task left running')
    try:
        check_legal(conn.delivered)
    except AssertionError as ex:
        problems.append('illegal ASGI session: %s' % ex)
    if problems:
        print('FAIL:', '; '.join(problems))
        print(' cfg      =', {k: v for k, v in cfg.items() if k != 'reasons'})
        print(' real log =', log)
        print(' model log=', model.log)
        print(' real ev  =', conn.attempted)
        print(' model ev =', model.attempted)
        print(' escaped  =', escaped, 'expected', expected_escape)
        print(' pulled   =', conn.ridx - 1, 'expected', model.ridx)
        raise SystemExit(1)
    STATS['cases'] += 1
    if cfg['fault'] is not None and len(conn.attempted) > cfg['fault'][0]:
        STATS['fault_hit'] += 1
    STATS['wsd_seen'] += sum(1 for e in log if e[1] == 'err' and e[2] == 'WebSocketDisconnected')
    STATS['closes'] += sum(1 for e in conn.delivered if e['type'] == T_CLOSE)
    STATS['payloads'] += sum(
        1 for e in log if e[1] == 'ok' and e[2] is not None and not (isinstance(e[2], tuple) and len(e[2]) == 3) and not (isinstance(e[2], tuple) and e[2][:1] == ('pulled',))
    )
    STATS['queue_gt0'] += cfg['queue'] > 0
    return True


def base_cfg(**kw):
    cfg = {
        'ver': '2.4',
        'queue': 0,
        'path': '/ws',
        'middleware': None,
        'custom_handlers': False,
        'error_close_code': 1011,
        'first_event': {'type': T_CONNECT},
        'inbox': [],
        'script': [],
        'fault': None,
        'reasons': shared()['reasons'],
    }
    cfg.update(kw)
    return cfg


async def run_random(seed, count, profile, deadline):
    rng = random.Random(seed)
    done = 0
    while done < count:
        if time.monotonic() > deadline:
            raise SystemExit('FAIL: time budget exceeded after %d random cases' % done)
        if await compare_case(gen_cfg(rng, shared()['reasons'], profile)):
            done += 1
    return done


# --------------------------------------------------------------------------
# Focus of this check: the buffered receiver (queue sizes > 0): order of the
# delivered payloads, back-pressure towards the server (how many client
# events have been pulled at every step), detection of lost clients while
# the responder is only sending, and clean shutdown of the pump task.
# --------------------------------------------------------------------------
def systematic_cases():
    rng = random.Random(4242)
    for queue in (1, 2, 3, 5, 8):
        for n_msgs in range(0, 11):
            for disc in (None, 1000, 1001, 4321, 'nocode'):
                for variant in range(3):
                    inbox = []
                    for i in range(n_msgs):
                        if rng.random() < 0.5:
                            inbox.append({'type': T_RECEIVE, 'text': 't%d' % i})
                        else:
                            inbox.append({'type': T_RECEIVE, 'bytes': b'b%d' % i})
                    if disc == 'nocode':
                        inbox.append({'type': T_DISCONNECT})
                    elif disc is not None:
                        inbox.append({'type': T_DISCONNECT, 'code': disc})
                    script = [('accept', None, None, False), ('pulled', False)]
                    n_recv = len(inbox) if variant != 2 else rng.randint(0, len(inbox))
                    for i in range(n_recv):
                        ev = inbox[i]
                        if 'text' in ev:
                            script.append(('recv_text', True))
                        elif 'bytes' in ev:
                            script.append(('recv_data', True))
                        else:
                            script.append(('recv_media', True))
                        script.append(('pulled', False))
                        if variant and rng.random() < 0.5:
                            script.append(('yield', False))
                            script.append(('pulled', False))
                        if variant and rng.random() < 0.4:
                            script.append(('send_text', 'echo %d' % i, True))
                            script.append(('props', False))
                    script.append(('yield', False))
                    script.append(('pulled', False))
                    script.append(('send_text', 'bye', True))
                    script.append(('props', False))
                    yield base_cfg(
                        ver=rng.choice(VERSIONS),
                        queue=queue,
                        inbox=inbox,
                        script=script,
                    )


async def main():
    deadline = time.monotonic() + 75
    n_sys = 0
    for cfg in systematic_cases():
        assert await compare_case(cfg), 'systematic case must not hang'
        n_sys += 1
    profile = {
        'queues': [1, 1, 2, 3, 4, 8],
        'max_msgs': 10,
        'max_ops': 14,
        'disconnect_p': 0.7,
        'fault_p': 0.15,
        'catch_p': 0.75,
        'shapes': ['text', 'bytes', 'text', 'bytes', 'text_none', 'bytes_none', 'neither'],
        'weights': {
            'recv_text': 6,
            'recv_data': 6,
            'recv_media': 5,
            'yield': 6,
            'pulled': 5,
            'send_text': 4,
            'close': 1,
            'raise': 1,
        },
    }
    n_rand = await run_random(170217, 9000, profile, deadline)
    n_rand += await run_random(170218, 3000, {}, deadline)
    assert STATS['queue_gt0'] >= 9000, STATS
    assert STATS['payloads'] >= 5000, STATS
    print('systematic=%d random=%d stats=%r' % (n_sys, n_rand, STATS))
    print('PASS')


if __name__ == '__main__':
    asyncio.run(main())
    sys.exit(0)
