"""Static analysis framework for falconry/falcon (see /verif/DESIGN.md)."""
