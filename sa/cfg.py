"""E2: statement-level control-flow graph with exceptional edges.

Semantics fixed in DESIGN.md appendix A.1.
"""

from __future__ import annotations

import ast
from typing import Callable, Dict, Iterator, List, Optional, Tuple

from .model import Func, Project, UnknownIdiom, walk_no_nested, short


class Node:
    __slots__ = ('id', 'kind', 'ast', 'stmt', 'lineno', 'susp', 'copy', 'flags')

    def __init__(self, id, kind, astnode=None, stmt=None, copy=''):
        self.id = id
        self.kind = kind  # entry exit xexit stmt test iter handler with join
        self.ast = astnode  # expression / simple statement owned by this node
        self.stmt = stmt  # the enclosing compound statement (If/While/For/With/Try)
        self.lineno = getattr(astnode, 'lineno', None) or getattr(stmt, 'lineno', 0)
        self.susp = False
        self.copy = copy  # which finally-copy this node belongs to ('' = primary)
        self.flags = ''  # valuation of the function's control flags this copy stands for (refine_flags)

    def own(self) -> List[ast.AST]:
        """Expressions evaluated by this node itself (not by nested blocks)."""
        k = self.kind
        if k == 'stmt':
            a = self.ast
            if isinstance(a, (ast.FunctionDef, ast.AsyncFunctionDef, ast.ClassDef)):
                return list(a.decorator_list)
            if isinstance(a, ast.AnnAssign):
                return [a.target] + ([a.value] if a.value is not None else [])
            return [a]
        if k == 'test':
            return [self.ast]
        if k == 'iter':
            return [self.stmt.iter, self.stmt.target]
        if k == 'with':
            out = []
            for it in self.stmt.items:
                out.append(it.context_expr)
                if it.optional_vars is not None:
                    out.append(it.optional_vars)
            return out
        if k == 'handler':
            return [self.ast.type] if self.ast.type is not None else []
        return []

    def walk(self) -> Iterator[ast.AST]:
        for e in self.own():
            yield e
            yield from walk_no_nested(e)

    def calls(self) -> List[ast.Call]:
        return [n for n in self.walk() if isinstance(n, ast.Call)]

    def text(self):
        if self.kind in ('entry', 'exit', 'xexit', 'join'):
            return '<%s>' % self.kind
        if self.kind == 'iter':
            return 'for %s in %s' % (short(self.stmt.target, 40), short(self.stmt.iter, 80))
        if self.kind == 'with':
            return 'with ' + ', '.join(short(i.context_expr, 60) for i in self.stmt.items)
        if self.kind == 'handler':
            return 'except ' + (short(self.ast.type, 60) if self.ast.type is not None else '')
        if self.kind == 'test':
            return 'test ' + short(self.ast, 100)
        return short(self.ast, 120)

    def __repr__(self):
        return '<N%d %s L%s %s>' % (self.id, self.kind, self.lineno, self.text()[:50])


class _Loop:
    def __init__(self, brk, cont):
        self.brk = brk
        self.cont = cont


class _Try:
    def __init__(self, handlers):
        self.handlers = handlers  # [(classes|None, node_id)]


class _Finally:
    def __init__(self, body, tag):
        self.body = body
        self.cache: Dict[object, int] = {}
        self.tag = tag


def _may_raise_expr(e) -> bool:
    for n in _walk_self(e):
        if isinstance(n, (ast.Call, ast.Await, ast.Yield, ast.YieldFrom)):
            return True
        if isinstance(n, ast.Subscript) and isinstance(n.ctx, ast.Load):
            return True
    return False


def _walk_self(e):
    yield e
    yield from walk_no_nested(e)


def _has_susp(e) -> bool:
    for n in _walk_self(e):
        if isinstance(n, (ast.Await, ast.Yield, ast.YieldFrom)):
            return True
    return False


class CFG:
    def __init__(self, func: Func, project: Optional[Project] = None):
        self.func = func
        self.project = project
        self.nodes: List[Node] = []
        self.succ: Dict[int, List[Tuple[int, str]]] = {}
        self.pred: Dict[int, List[Tuple[int, str]]] = {}
        self.by_ast: Dict[int, List[int]] = {}
        self.entry = self._new('entry').id
        self.exit = self._new('exit').id
        self.xexit = self._new('xexit').id
        self._copy = ''
        self._handler_stack: List[ast.ExceptHandler] = []
        out = self._block(func.node.body, [], [(self.entry, '')])
        self._connect(out, self.exit)
        self._prune()

    # ------------------------------------------------------------ primitives
    def _new(self, kind, astnode=None, stmt=None) -> Node:
        n = Node(len(self.nodes), kind, astnode, stmt, getattr(self, '_copy', ''))
        self.nodes.append(n)
        self.succ[n.id] = []
        self.pred[n.id] = []
        key = astnode if astnode is not None else stmt
        if key is not None:
            self.by_ast.setdefault(id(key), []).append(n.id)
        if kind in ('test', 'iter', 'with') and stmt is not None and stmt is not key:
            self.by_ast.setdefault(id(stmt), []).append(n.id)
        return n

    def _edge(self, a, b, label=''):
        if (b, label) not in self.succ[a]:
            self.succ[a].append((b, label))
            self.pred[b].append((a, label))

    def _connect(self, dangling, target):
        for (src, label) in dangling:
            self._edge(src, target, label)

    def _prune(self):
        """Drop nodes unreachable from entry (e.g. code after return)."""
        seen = {self.entry}
        stack = [self.entry]
        while stack:
            x = stack.pop()
            for (y, _) in self.succ[x]:
                if y not in seen:
                    seen.add(y)
                    stack.append(y)
        self.reachable_ids = seen
        for n in self.nodes:
            if n.id not in seen:
                for (y, l) in self.succ[n.id]:
                    self.pred[y] = [(p, pl) for (p, pl) in self.pred[y] if p != n.id]
                self.succ[n.id] = []

    # ------------------------------------------------------------- exceptions
    def _handler_classes(self, h: ast.ExceptHandler):
        if h.type is None:
            return None
        types = h.type.elts if isinstance(h.type, ast.Tuple) else [h.type]
        out = []
        for t in types:
            q = None
            if self.project is not None:
                q = self.project.resolve_expr(self.func.module, t, self.func)
            out.append(q or ('?' + short(t)))
        return out

    def _match(self, exc: Optional[str], classes) -> str:
        if classes is None:
            return 'yes'
        res = 'no'
        for c in classes:
            if c in ('builtins.BaseException',):
                return 'yes'
            if exc is None:
                if c == 'builtins.Exception':
                    return 'yes'
                res = 'maybe'
                continue
            if c.startswith('?') or self.project is None:
                res = 'maybe'
                continue
            r = self.project.is_subclass(exc, c)
            if r is True:
                return 'yes'
            if r is None:
                res = 'maybe'
        return res

    def _raise_targets(self, frames, exc: Optional[str]) -> List[int]:
        targets: List[int] = []
        i = len(frames) - 1
        while i >= 0:
            fr = frames[i]
            if isinstance(fr, _Try):
                for (classes, hid) in fr.handlers:
                    m = self._match(exc, classes)
                    if m == 'yes':
                        targets.append(hid)
                        return targets
                    if m == 'maybe':
                        targets.append(hid)
            elif isinstance(fr, _Finally):
                outer = frames[:i]
                targets.append(self._finally_entry(fr, ('raise', exc), outer, lambda: self._raise_targets(outer, exc)))
                return targets
            i -= 1
        targets.append(self.xexit)
        return targets

    def _jump_targets(self, frames, kind) -> List[int]:
        """kind in {'break','continue','return'}"""
        i = len(frames) - 1
        while i >= 0:
            fr = frames[i]
            if isinstance(fr, _Loop) and kind in ('break', 'continue'):
                return [fr.brk if kind == 'break' else fr.cont]
            if isinstance(fr, _Finally):
                outer = frames[:i]
                return [self._finally_entry(fr, (kind,), outer, lambda: self._jump_targets(outer, kind))]
            i -= 1
        if kind == 'return':
            return [self.exit]
        raise UnknownIdiom('%s outside loop in %s' % (kind, self.func.qual))

    def _finally_entry(self, fr: _Finally, key, outer_frames, cont: Callable[[], List[int]]) -> int:
        if key in fr.cache:
            return fr.cache[key]
        saved = self._copy
        self._copy = (saved + '/' if saved else '') + '%s:%s' % (fr.tag, ':'.join(str(k) for k in key))
        j = self._new('join', None, None)
        fr.cache[key] = j.id
        out = self._block(fr.body, outer_frames, [(j.id, '')])
        self._copy = saved
        for t in cont():
            self._connect(out, t)
        return j.id

    def _exc_edges(self, nid, frames, exc=None):
        for t in self._raise_targets(frames, exc):
            self._edge(nid, t, 'exc')

    # ---------------------------------------------------------------- blocks
    def _block(self, stmts, frames, dangling):
        for s in stmts:
            if not dangling:
                # unreachable code; still build it so by_ast lookups work
                pass
            dangling = self._stmt(s, frames, dangling)
        return dangling

    def _simple(self, s, frames, dangling, may_raise=None) -> Node:
        n = self._new('stmt', s)
        self._connect(dangling, n.id)
        exprs = n.own()
        if any(_has_susp(e) for e in exprs):
            n.susp = True
        mr = may_raise if may_raise is not None else any(_may_raise_expr(e) for e in exprs)
        if mr:
            self._exc_edges(n.id, frames)
        return n

    def _stmt(self, s, frames, dangling):
        if isinstance(s, (ast.Expr, ast.Assign, ast.AugAssign, ast.AnnAssign, ast.Delete, ast.Pass,
                          ast.Import, ast.ImportFrom, ast.Global, ast.Nonlocal,
                          ast.FunctionDef, ast.AsyncFunctionDef, ast.ClassDef)):
            if isinstance(s, ast.Delete):
                n = self._simple(s, frames, dangling, may_raise=True)
            else:
                n = self._simple(s, frames, dangling)
            return [(n.id, '')]
        if isinstance(s, ast.Return):
            n = self._simple(s, frames, dangling)
            for t in self._jump_targets(frames, 'return'):
                self._edge(n.id, t, 'ret')
            return []
        if isinstance(s, ast.Raise):
            n = self._new('stmt', s)
            self._connect(dangling, n.id)
            if s.exc is not None and _has_susp(s.exc):
                n.susp = True
            exc = None
            if s.exc is not None:
                e = s.exc.func if isinstance(s.exc, ast.Call) else s.exc
                if self.project is not None:
                    q = self.project.resolve_expr(self.func.module, e, self.func)
                    if q and (q in self.project.classes or q.startswith('builtins.')):
                        exc = q
                # evaluating the constructor arguments may raise something else
                if isinstance(s.exc, ast.Call) and any(_may_raise_expr(a) for a in list(s.exc.args) + [k.value for k in s.exc.keywords]):
                    self._exc_edges(n.id, frames, None)
            elif self._handler_stack:
                cl = self._handler_classes(self._handler_stack[-1])
                if cl and len(cl) == 1 and not cl[0].startswith('?') and cl[0] not in ('builtins.Exception', 'builtins.BaseException'):
                    exc = cl[0]
            self._exc_edges(n.id, frames, exc)
            return []
        if isinstance(s, ast.Assert):
            n = self._new('stmt', s)
            self._connect(dangling, n.id)
            self._exc_edges(n.id, frames, 'builtins.AssertionError')
            if _may_raise_expr(s.test):
                self._exc_edges(n.id, frames, None)
            return [(n.id, '')]
        if isinstance(s, ast.If):
            n = self._new('test', s.test, s)
            self._connect(dangling, n.id)
            n.susp = _has_susp(s.test)
            if _may_raise_expr(s.test):
                self._exc_edges(n.id, frames)
            out = self._block(s.body, frames, [(n.id, 'T')])
            if s.orelse:
                out = out + self._block(s.orelse, frames, [(n.id, 'F')])
            else:
                out = out + [(n.id, 'F')]
            return out
        if isinstance(s, ast.While):
            n = self._new('test', s.test, s)
            self._connect(dangling, n.id)
            n.susp = _has_susp(s.test)
            if _may_raise_expr(s.test):
                self._exc_edges(n.id, frames)
            after = self._new('join', None, s)
            loop = _Loop(after.id, n.id)
            body_out = self._block(s.body, frames + [loop], [(n.id, 'T')])
            self._connect(body_out, n.id)
            const_true = isinstance(s.test, ast.Constant) and bool(s.test.value)
            if not const_true:
                if s.orelse:
                    o = self._block(s.orelse, frames, [(n.id, 'F')])
                    self._connect(o, after.id)
                else:
                    self._edge(n.id, after.id, 'F')
            return [(after.id, '')]
        if isinstance(s, (ast.For, ast.AsyncFor)):
            n = self._new('iter', None, s)
            self._connect(dangling, n.id)
            n.susp = isinstance(s, ast.AsyncFor) or _has_susp(s.iter)
            self._exc_edges(n.id, frames)
            after = self._new('join', None, s)
            loop = _Loop(after.id, n.id)
            body_out = self._block(s.body, frames + [loop], [(n.id, 'next')])
            self._connect(body_out, n.id)
            if s.orelse:
                o = self._block(s.orelse, frames, [(n.id, 'done')])
                self._connect(o, after.id)
            else:
                self._edge(n.id, after.id, 'done')
            return [(after.id, '')]
        if isinstance(s, (ast.With, ast.AsyncWith)):
            n = self._new('with', None, s)
            self._connect(dangling, n.id)
            n.susp = isinstance(s, ast.AsyncWith) or any(_has_susp(i.context_expr) for i in s.items)
            self._exc_edges(n.id, frames)
            return self._block(s.body, frames, [(n.id, '')])
        if isinstance(s, ast.Break):
            n = self._new('stmt', s)
            self._connect(dangling, n.id)
            for t in self._jump_targets(frames, 'break'):
                self._edge(n.id, t, 'brk')
            return []
        if isinstance(s, ast.Continue):
            n = self._new('stmt', s)
            self._connect(dangling, n.id)
            for t in self._jump_targets(frames, 'continue'):
                self._edge(n.id, t, 'cont')
            return []
        if isinstance(s, ast.Try) or (hasattr(ast, 'TryStar') and isinstance(s, getattr(ast, 'TryStar'))):
            return self._try(s, frames, dangling)
        raise UnknownIdiom('unsupported statement %s at %s' % (type(s).__name__, self.func.loc(s)))

    def _try(self, s, frames, dangling):
        base = list(frames)
        fin = None
        if s.finalbody:
            fin = _Finally(s.finalbody, 'fin@%d' % s.lineno)
            base = base + [fin]
        hnodes = []
        for h in s.handlers:
            hn = self._new('handler', h, s)
            hnodes.append((self._handler_classes(h), hn.id, h))
        body_frames = base + ([_Try([(c, i) for (c, i, _) in hnodes])] if hnodes else [])
        start = self._new('join', None, s)
        self._connect(dangling, start.id)
        out = self._block(s.body, body_frames, [(start.id, '')])
        if s.orelse:
            out = self._block(s.orelse, base, out)
        for (_c, hid, h) in hnodes:
            self._handler_stack.append(h)
            hout = self._block(h.body, base, [(hid, '')])
            self._handler_stack.pop()
            out = out + hout
        if fin is not None:
            if out:
                saved = self._copy
                self._copy = (saved + '/' if saved else '') + '%s:normal' % fin.tag
                j = self._new('join', None, None)
                self._connect(out, j.id)
                out = self._block(fin.body, frames, [(j.id, '')])
                self._copy = saved
        return out

    # ---------------------------------------------------------------- queries
    def node(self, nid) -> Node:
        return self.nodes[nid]

    def nodes_for(self, astnode) -> List[int]:
        return [i for i in self.by_ast.get(id(astnode), []) if i in self.reachable_ids]

    def live_nodes(self) -> List[Node]:
        return [n for n in self.nodes if n.id in self.reachable_ids]

    def n_edges(self):
        return sum(len(v) for v in self.succ.values())


_CFG_CACHE: Dict[Tuple[int, int, bool], CFG] = {}


def _control_flags(fnode) -> List[str]:
    """Locals that are pure control flags: every binding in the function is
    `name = True` / `name = False` (a plain Assign with that single target),
    the name is no parameter, not global/nonlocal, not touched by a nested
    function, and it occurs in at least one branch test."""
    params = {a.arg for a in fnode.args.args + fnode.args.kwonlyargs + getattr(fnode.args, 'posonlyargs', [])}
    if fnode.args.vararg:
        params.add(fnode.args.vararg.arg)
    if fnode.args.kwarg:
        params.add(fnode.args.kwarg.arg)
    const, other, tested, nested_names = {}, set(), set(), set()
    for x in walk_no_nested(fnode):
        if isinstance(x, (ast.FunctionDef, ast.AsyncFunctionDef, ast.Lambda, ast.ClassDef)):
            for y in ast.walk(x):
                if isinstance(y, ast.Name):
                    nested_names.add(y.id)
            continue
        if isinstance(x, (ast.Global, ast.Nonlocal)):
            other.update(x.names)
        elif isinstance(x, ast.Assign) and len(x.targets) == 1 and isinstance(x.targets[0], ast.Name) \
                and isinstance(x.value, ast.Constant) and isinstance(x.value.value, bool):
            const.setdefault(x.targets[0].id, []).append(x)
        elif isinstance(x, ast.Name) and isinstance(x.ctx, (ast.Store, ast.Del)):
            other.add(x.id)
        if isinstance(x, (ast.If, ast.While, ast.IfExp)):
            for y in ast.walk(x.test):
                if isinstance(y, ast.Name):
                    tested.add(y.id)
    out = []
    for name, assigns in const.items():
        # the Store-context Name of the constant assignments themselves was added to `other`: discount them
        stores = sum(1 for x in walk_no_nested(fnode) if isinstance(x, ast.Name) and x.id == name and isinstance(x.ctx, (ast.Store, ast.Del)))
        if stores == len(assigns) and name not in params and name not in nested_names and name in tested \
                and not any(isinstance(x, (ast.Global, ast.Nonlocal)) and name in x.names for x in walk_no_nested(fnode)):
            out.append(name)
    return sorted(out)


def _decide_test(e, val) -> Optional[bool]:
    """Truth value of a branch test under a valuation of control flags
    (name -> True/False), or None when it is not decided by the flags."""
    if isinstance(e, ast.Name):
        return val.get(e.id)
    if isinstance(e, ast.UnaryOp) and isinstance(e.op, ast.Not):
        r = _decide_test(e.operand, val)
        return None if r is None else (not r)
    if isinstance(e, ast.BoolOp):
        rs = [_decide_test(v, val) for v in e.values]
        if isinstance(e.op, ast.And):
            if any(r is False for r in rs):
                return False
            return True if all(r is True for r in rs) else None
        if any(r is True for r in rs):
            return True
        return False if all(r is False for r in rs) else None
    if isinstance(e, ast.Compare) and len(e.ops) == 1 and isinstance(e.ops[0], (ast.Is, ast.IsNot, ast.Eq, ast.NotEq)) \
            and isinstance(e.left, ast.Name) and isinstance(e.comparators[0], ast.Constant) and isinstance(e.comparators[0].value, bool):
        v = val.get(e.left.id)
        if v is None:
            return None
        same = (v is e.comparators[0].value)
        return same if isinstance(e.ops[0], (ast.Is, ast.Eq)) else (not same)
    return None


def refine_flags(cfg: CFG) -> CFG:
    """Path-sensitivity for pure control flags.  A refactoring that replaces
    `try/else`, `for/else` or an early return by `ok = False ... ok = True ...
    if ok:` creates paths in the plain CFG that no execution takes (handler
    taken, then the `if ok:` body).  The refined graph has one copy of a node
    per reachable valuation of the function's control flags and omits branch
    edges the valuation contradicts; everything else (kinds, labels, AST
    ownership, exits) is unchanged, so every path of the refined graph is a
    path of the original one and every feasible execution is still a path.
    Returned unchanged when the function has no control flag or when no edge
    is ever contradicted."""
    fnode = cfg.func.node
    flags = _control_flags(fnode) if isinstance(fnode, (ast.FunctionDef, ast.AsyncFunctionDef)) else []
    if not flags:
        return cfg
    fset = set(flags)

    def assigned(node):
        a = node.ast
        if node.kind == 'stmt' and isinstance(a, ast.Assign) and len(a.targets) == 1 and isinstance(a.targets[0], ast.Name) \
                and a.targets[0].id in fset and isinstance(a.value, ast.Constant) and isinstance(a.value.value, bool):
            return a.targets[0].id, a.value.value
        return None

    init = tuple((f, None) for f in flags)
    ids = {}
    order = []

    # liveness of each flag at node entry (backward may-analysis): a flag that no later test can read before it is
    # re-assigned carries no information, so copies that differ only in dead flags are merged (keeps the split local
    # to the region between the assignment and the last test)
    def reads(node):
        if node.kind == 'stmt' and assigned(node) is not None:
            return set()
        return {x.id for x in node.walk() if isinstance(x, ast.Name) and x.id in fset and isinstance(x.ctx, ast.Load)}

    live = {n.id: set() for n in cfg.live_nodes()}
    changed = True
    while changed:
        changed = False
        for n in cfg.live_nodes():
            out = set()
            for (y, _l) in cfg.succ[n.id]:
                out |= live.get(y, set())
            asg_ = assigned(n)
            if asg_ is not None:
                out = out - {asg_[0]}
            new_ = out | reads(n)
            if new_ != live[n.id]:
                live[n.id] = new_
                changed = True

    def get(nid, val):
        if nid in (cfg.exit, cfg.xexit):
            val = init  # one exit / xexit node
        else:
            lv = live.get(nid, set())
            val = tuple((f, (v if f in lv else None)) for f, v in val)
        k = (nid, val)
        if k not in ids:
            ids[k] = len(order)
            order.append(k)
        return ids[k]

    get(cfg.entry, init)
    edges = []
    pruned = 0
    i = 0
    while i < len(order):
        nid, val = order[i]
        src = i
        i += 1
        node = cfg.node(nid)
        vmap = dict(val)
        asg = assigned(node)
        decided = _decide_test(node.ast, vmap) if node.kind == 'test' and node.ast is not None else None
        for (y, l) in cfg.succ[nid]:
            if decided is not None and l in ('T', 'F') and (l == 'T') != decided:
                pruned += 1
                continue
            out = vmap
            if asg is not None and l != 'exc':
                out = dict(vmap)
                out[asg[0]] = asg[1]
            edges.append((src, get(y, tuple((f, out[f]) for f in flags)), l))
    if not pruned:
        return cfg
    new = CFG.__new__(CFG)
    new.func = cfg.func
    new.project = cfg.project
    new.nodes = []
    new.succ = {}
    new.pred = {}
    new.by_ast = {}
    keys_of = {}
    for k, lst in cfg.by_ast.items():
        for nid in lst:
            keys_of.setdefault(nid, []).append(k)
    for idx, (nid, val) in enumerate(order):
        o = cfg.node(nid)
        tag = ','.join('%s=%s' % (f, {True: 'T', False: 'F', None: '?'}[v]) for f, v in val if v is not None)
        n = Node(idx, o.kind, o.ast, o.stmt, o.copy)
        n.flags = tag
        n.lineno = o.lineno
        n.susp = o.susp
        new.nodes.append(n)
        new.succ[idx] = []
        new.pred[idx] = []
        for k in keys_of.get(nid, []):
            new.by_ast.setdefault(k, []).append(idx)
    for (a, b, l) in edges:
        if (b, l) not in new.succ[a]:
            new.succ[a].append((b, l))
            new.pred[b].append((a, l))
    new.entry = ids[(cfg.entry, init)]
    new.exit = get(cfg.exit, init) if (cfg.exit, init) in ids else None
    new.xexit = get(cfg.xexit, init) if (cfg.xexit, init) in ids else None
    # an exit that became unreachable still needs a node id (queries compare against it)
    for attr, onid in (('exit', cfg.exit), ('xexit', cfg.xexit)):
        if getattr(new, attr) is None or getattr(new, attr) >= len(new.nodes):
            o = cfg.node(onid)
            idx = len(new.nodes)
            new.nodes.append(Node(idx, o.kind, o.ast, o.stmt, o.copy))
            new.succ[idx] = []
            new.pred[idx] = []
            setattr(new, attr, idx)
    new._copy = ''
    new._handler_stack = []
    new.flag_refined = flags
    new._prune()
    return new


def cfg_of(func: Func, project: Project, refined: bool = False) -> CFG:
    """The statement CFG of a function.  With refined=True the graph is made
    path-sensitive for the function's pure control flags (refine_flags): opt-in,
    because a refined graph may hold several copies of a node, which rules that
    look for "the" node of a statement do not expect."""
    key = (id(project), id(func.node), bool(refined))
    c = _CFG_CACHE.get(key)
    if c is None:
        c = CFG(func, project) if not refined else refine_flags(cfg_of(func, project))
        _CFG_CACHE[key] = c
    return c
