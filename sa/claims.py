"""What each check claims (MANIFEST level_claimed.text / level_note / technique)."""

_NOTE = ('Trusted base: CPython ast, the engine in /verif/sa, the frozen idiom/exemption tables in the rule module. '
         'Source of truth is the .py text; compiled .so shadows and falcon/cyutil/*.pyx are not analysed. ')

CLAIMS = {
    'C01': {
        'text': 'Decides structural clauses of the router generator: atomic rejection (typestate mutate->undo->reject over add_route/insert), '
                'sibling precedence key literal<multi-field<single-field (abstract evaluation on node kinds derived from the constructor), '
                'delayed parameter assignment (params_stack alias/def-use), path-index guards, side-table discipline, conflict table and '
                'conservative fast_return pruning. Not decided: equality of find() with the DFS oracle on all route sets x paths. Added in the build round: only identifier-validated field names are rendered between quotes of the generated source (template text needs !r); every normal return of add_route re-assigns the finder slot; delayed constructs read only per-node unique generated names. Wave 4: a recompile publishes fresh side tables (no in-place reset), so a lookup in flight keeps a consistent finder/table pair (shared with C19 R6). Wave 5: any sort key (lambda or named function) is evaluated on five node kinds derived from the node constructor; every template-derived text is traced into every placeholder of the generated source and its validators are proved (findings F18, F19 fixed).',
        'note': _NOTE + 'The generated finder source is never produced or run; the generator is analysed.',
        'technique': 'typestate over CFG + abstract evaluation of sort key/conflict predicate + def-use of code-generation constructs',
    },
    'C02': {
        'text': 'Decides: route masks sinks/static (dominance in _get_responder), recency by head-insertion polarity of _sinks/_static_routes, '
                'refresh of the combined table after every writer and its order flag, Allow-list computation order in set_default_responders '
                '(eager OPTIONS snapshot, lazy 405 list), suffix discipline in map_http_methods, meta-method rejection. Not decided: regex semantics of sink prefixes. Wave 5: a meta-method guard placed in the responder selection must cover every selection (route, sink, static route, not found).',
        'note': _NOTE,
        'technique': 'dominance/reachability on CFG + insertion-order polarity + happens-before/def-use in closures',
    },
    'C03': {
        'text': 'Decides the stack discipline as far as framework control flow fixes it: WSGI and ASGI __call__ are event-language-equal over '
                '{META,REQ,CPL,PUSH,ROUTE,RSRC,RESP,HANDLE,OK,FAIL,PRESP,RENDER,X} (DFA equality after await-erasure); per-sibling typestate/dominance '
                'obligations of the documented discipline; prepare_middleware stack polarity; before/after hook order and once-ness; lifespan order, '
                'first-failure-stops. Every CFG path of the anchored functions is covered (loops by fixpoint). Added: registration order/mode wiring of the prepared stacks, mode separation of the static response stack, class-level hooks enumerate members across the MRO. Wave 4: a computed (non-constant) success flag is held to the conditions of the literal True; one lifespan handler loop per phase (no rollback loop); the responder-name pattern of class-level hooks is built from method tables covering COMBINED_METHODS. Wave 5: prepare_middleware is evaluated on the 8 component shapes x 2 modes; the dependent request loop ends only by exhaustion; the resource element of the responder selection comes from the router only.',
        'note': _NOTE + 'User middleware mutating prepared stacks at run time is outside the model.',
        'technique': 'event projection CFG->NFA->DFA language equality + typestate product + dominance queries',
    },
    'C04': {
        'text': 'Decides: all four raise windows are inside try/except Exception whose first action is _handle_exception and which re-raises only when '
                'unhandled; MRO-forward handler selection with latest-wins registration; reset-before-handler and HTTPStatus/HTTPError arms in both '
                '_handle_exception siblings; status/headers/body wiring of the compose helpers; Vary: Accept; to_dict/_to_xml field-set agreement; '
                'constant 4xx/5xx status per HTTPError subclass agreeing with its docstring; nothing client-triggerable raises before the first try '
                '(exception-escape analysis). Not decided: fidelity of JSON/XML encoding of arbitrary unicode. Added: the handler registry is written only by add_error_handler/__init__; after a handled rendering failure the handler\'s body is what is sent (known finding F14). Wave 4: the default Exception handler never converts the caught exception object to text outside a try (its __str__ is user code); q never decides whether a media range matches in the error-serializer negotiation (shared with C11 R8). Wave 5: the default serializer\'s media type is negotiated on every path (only exact-equality shortcuts); accept answers \'*/*\' for a missing and for a blank header on both stacks.',
        'note': _NOTE + 'Escape analysis assumes str/bytes/re/dict.get methods and in-range subscripts are total.',
        'technique': 'must-be-inside-try + CFG dominance + sibling language equality + exception-escape summaries + constant tables',
    },
    'C05': {
        'text': 'Decides: ASGI send-event typestate (INIT->STARTED->DONE; one start, only the last body event final, nothing after), single '
                'start_response call site on every normal path, body precedence text>data>media in the three render siblings, bodiless/typeless status '
                'sets and their branches, unconditional Content-Length = len(body sent) on non-HEAD body-bearing non-stream paths, stream close in '
                'finally on every streaming loop, SSE event terminator and status-line shape. Not decided: validity of user header values. Added: the WSGI stream wrapper never closes the stream outside close(). Wave 4: the rendered-media cache is reset by every writer of the media (shared with C12 R4). Wave 5: events passed to send by name are folded; a sent event object is never modified; bodiless/typeless status sets decided by value.',
        'note': _NOTE,
        'technique': 'typestate over CFG with folded send-event dicts + decision-order extraction + constant folding',
    },
    'C06': {
        'text': 'Whole-behaviour equality is not a static target. Decides the parity obligations between hand-duplicated siblings: override completeness of '
                'asgi.Request/Response (no WSGI-only state reachable), accessor parity (consulted header order, raised classes, exception-escape sets), '
                'constructor parity, dispatch parity (reuses C03 R1/C04/C05), test-driver key tables (unguarded reads subset of unconditional writes). Added: differing path transformations, access_route tail condition, response stores of the three render copies, definite assignment of per-request attributes in both constructors. Wave 4: result-kind parity (None / constant / header value on missing, blank, non-blank input) of factory-built and hand-written header accessors; bodiless/typeless sets (shared with C05 R4) and multipart parser siblings (shared with C13 R1) registered here. Wave 5: constructor value pipelines (raw input -> self.path / query_string) as (guard, transformation) pairs agree on both stacks; memo discipline of request accessors (shared with C09 R2).',
        'note': _NOTE,
        'technique': 'sibling comparison: reachability over effective member tables + escape-set parity + key-table agreement',
    },
    'C07': {
        'text': 'Decides budget/accounting/termination clauses: WSGI BoundedStream single gate (raw stream used only through the clamp), clamp covers the '
                'size domain (sign partition), deduction equals bytes obtained (io contract table); ASGI per-path conservation of '
                '(bytes handed on, _bytes_remaining, num_bytes_available, _pos), termination on disconnect/missing keys, lazy wrapping. '
                'Not decided: byte-for-byte prefix equality under all histories. Wave 4: size clamps are followed through same-class helper methods; every loop that consumes the body terminates on bytes obtained or the live budget, never on a countdown of requested sizes. Wave 5: only the gated read and the constructor write the WSGI budget (a forced reset needs a proved empty read of a positive request); ASGI draining operations leave buffer and budget empty on every return; increments of the position are clamped to the remaining budget (finding F21 fixed).',
        'note': _NOTE,
        'technique': 'who-may-call + sign/partition analysis + per-path linear symbolic evaluation (conservation laws)',
    },
    'C08': {
        'text': 'Decides: split-before-decode order in parse_query_string (def-use), totality (empty escape set), the typed-getter skeleton '
                '(last occurrence, conversion inside try -> 400-class error, store only on success, default/required, strict min/max), '
                'to_query_str encodes keys and values, both request classes pass the two options. Not decided: equality with the reference reading; cyutil/uri.pyx. Added: shared codec-table/decoder rules of C10, UTF-8 decoding of the raw ASGI query string, no memoised function hands out a mutable container. Wave 4: get_param_as_json hands the handler the byte length of the stream it builds (finding F17, fixed). Wave 5: typed getters never re-tokenise stored parameter values under default arguments.',
        'note': _NOTE + 'The pure-Python parse_query_string is analysed; the Cython twin replaces it when built.',
        'technique': 'def-use ordering + exception-escape summaries + per-getter skeleton conformance',
    },
    'C09': {
        'text': 'Decides: only 4xx HTTPError subclasses escape the typed request accessors (escape analysis over both request classes), memo discipline of '
                '_cached_* attributes, case-folding before header lookup, writer/reader format agreement (HTTP-date, ETag), Range decision table normal form. '
                'Not decided: agreement with an RFC-level parser on all valid values. Added: no local-time primitive anywhere in the package outside testing/bench (HTTP dates of naive datetimes are UTC), Forwarded values passed on verbatim (only names and the scheme are case-folded). Wave 4: astimezone(zone) only on a receiver known to be aware (package-wide sweep, shared with C15/C16); the ETag header formatter wraps only values not already ending in the closing quote; accessors that may answer None are iterated only with a fallback or behind a test. Wave 5: the entity-tag wildcard is produced only for the whole header value; every matched Forwarded pair creates its element; table-driven stores are read.',
        'note': _NOTE + 'Escape analysis assumptions as in C04; server-mandated keys are exempt by a frozen table.',
        'technique': 'exception-escape summaries + ownership of memo attributes + format-table agreement',
    },
    'C10': {
        'text': 'Round-trip equality over all strings is value-level and not decided. Decides the codec-table clauses: unreserved/delimiter alphabets equal RFC 3986, '
                "'%' and '+' excluded, upper-case %XX escape shape inside the decoder's key space, encoder bindings, the three decoder paths share one skeleton, "
                'for/else shape of the already-escaped check, parse_host return shapes. Wave 4: every verbatim pass-through of a part of the input is justified by a strip/membership fact over an alphabet without \'%\'; parse_host strips brackets on every path on which the host may be bracketed.',
        'note': _NOTE + 'cyutil/uri.pyx not analysed.',
        'technique': 'constant folding vs RFC tables + sibling skeleton comparison',
    },
    'C11': {
        'text': 'Decides: match_score tuple order by def-use role, sentinel below any real score, strict q>0 acceptance, documented value errors only '
                '(escape analysis), Handlers cache coherence over the full MRO including stdlib UserDict writers, resolver decision order. '
                'Not decided: numeric outcomes on adversarial range sets beyond the tuple order. Added: constructor-bypassing copies, bulk writers must clear on exceptional exits, values handed out by memoised parsing helpers are never mutated, every score-tuple return obeys the component roles. Wave 4: q never decides whether a range matches (R8); the resolver\'s escape set is {HTTPUnsupportedMediaType} (R4e); requested type and registered keys are compared in one case form (R9). Wave 5: the type/subtype part of match_score is evaluated on {*, a, b} x 4; case folds on pieces of the requested type; client_accepts/client_prefers shortcuts only by whole-value equality.',
        'note': _NOTE + 'UserDict/MutableMapping are read from the running interpreter\'s stdlib source.',
        'technique': 'def-use role identification + MRO writer inventory + exception-escape summaries',
    },
    'C12': {
        'text': 'Decides: parse-once typestate on both get_media siblings (cache tests dominate deserialization, error stored on every exceptional edge), '
                'handler error mapping (empty->MediaNotFound, ValueError->MediaMalformed, 400-class), codec agreement of serializer/deserializer, '
                'response render-cache reset on every media writer. Not decided: loads(dumps(d)) == d. Added: the media setter resets the render cache on every path; raw bytes are never handed to loads(). Wave 4: handler resolution compares requested type and registered keys in one case form (shared with C11 R9). Wave 5: the form serializer\'s quoting function escapes \'%\' unconditionally (encoder table derived from the factory calls in falcon/util/uri.py).',
        'note': _NOTE,
        'technique': 'typestate + sibling language equality + writer inventory',
    },
    'C13': {
        'text': 'Decides: sync and async multipart iterators are event-language-equal, limit thresholds in normal form, only MultipartParseError/'
                'HTTPInvalidHeader (400-class) escape the iterators and BodyPart accessors (escape analysis), delimiter evolution. '
                'Not decided: exact part contents under all chunkings. Added: header-size-capped read never splits a delimiter (shared with C14). Wave 5: part name/filename are the parsed parameter verbatim; the chunk normaliser keeps its minimum chunk length.',
        'note': _NOTE,
        'technique': 'sibling language equality + threshold normal forms + exception-escape summaries',
    },
    'C14': {
        'text': 'History x chunking equivalence with a flat cursor is value-level and not decided. Decides: _buffer_len == len(_buffer) preserved on every '
                'acyclic path (linear symbolic evaluation), read budget clamp and single call site of the source, verified delimiter consumption, '
                'tell()/eof expressed through the accounting fields. Added: sign partition of size normalisation, delimiter searches never look before the cursor nor stop short of a straddling delimiter, cursor conservation of every yielded/returned region (both readers). Wave 5: readline/read_until never return more than the cap; end-bounded searches carry the delimiter margin in both readers; 0 <= buffer position <= buffer length after every refill (finding F20 fixed).',
        'note': _NOTE + 'cyutil/reader.pyx not analysed.',
        'technique': 'per-path linear symbolic evaluation (invariant preservation) + who-may-call + dominance',
    },
    'C15': {
        'text': 'Decides: every _headers key is lower-case (reaching definition .lower() or literal), Set-Cookie guard dominance in the plain-header calls, '
                'both emitters read all three stores and emit one line per cookie, set_cookie parameter->attribute wiring with presence guards that do not '
                'conflate 0 with absent, URI-encoding transforms on URI-bearing helpers, header-property factory key consistency. '
                'Not decided: full map model; http.cookies round trip. Added: single pass over the iterable argument of set_headers, astimezone only on aware datetimes, ASCII-only fallback filename pattern, shared check-escaped/escape-table rules of C10. Wave 4: the cookie jar only grows (no del/pop/clear, rebound only from None to a fresh jar); dates formatted as UTC, never through the local zone (shared with C09 R4). Wave 5: the text rendered into both Content-Disposition forms is the filename parameter itself (provenance tables of identity/narrowing/rewriting calls).',
        'note': _NOTE,
        'technique': 'reaching definitions + guard dominance + parameter->attribute flow table',
    },
    'C16': {
        'text': 'Decides: containment lemma at every _open_file sink by must-dataflow of path facts (normalised, relative, no leading dot-dot, joined under the '
                'directory, no ".." component), ownership of file opening, range arithmetic conservation in _set_range/_BoundedFile, status wiring '
                '(304 before stream, 206+Content-Range iff range). Not decided: OS path resolution (normpath semantics trusted). Wave 4: every seek relative to the end of the file is clamped to [-size, 0]; HTTP dates are read as UTC, never through the local zone (shared with C09 R4). Wave 5: the path handed to io.open is the value the containment lemma was proved for, unchanged.',
        'note': _NOTE,
        'technique': 'forward must-dataflow of path facts + ownership + linear range identities',
    },
    'C17': {
        'text': 'Decides per-operation legality: accepted-state guard before every send/receive, accept/close state updates after the send, who may emit raw events, '
                'close on every exit of _handle_websocket and in all error handlers with the documented code mapping, close-code interval validation, payload type checks. '
                'Not decided: legality of the whole event stream for every responder x client script. Added: state updates only on the normal continuation of the send; shared disconnect-flag rule of C18. Wave 4: a failed send marks the socket CLOSED only behind a test that the error was classified as a connection loss, and the classifier can answer \'not a connection loss\'. Wave 5: the state set is read from the Enum and every member that some operation writes is classified (guards must treat every terminal member as closed); the cleanup fallback is reachable for any Exception; end-of-stream rule shared with C18.',
        'note': _NOTE,
        'technique': 'guard dominance + who-may-emit + close-on-all-exits + interval analysis of folded comparisons',
    },
    'C18': {
        'text': 'Losslessness under every interleaving is a schedule property and not decided. Decides the asyncio-specific necessary conditions: no suspension point '
                'between test and waiter registration, mutate-then-notify before the next suspension point, waiter cleared in finally, FIFO polarity '
                '(append/popleft), capacity gate dominating append, lifecycle of the pump task. Added: the pump-ended conclusion in receive() requires an un-notified waiter; every session-ending path reaches stop(). Wave 4: the disconnect marker may bypass the capacity wait only on an unbounded deque; a maxlen-bounded deque with a bypass drops messages. Wave 5: the receive path does not reach the sender-side disconnect flag through helpers or properties.',
        'note': _NOTE + 'asyncio preempts only at suspension points.',
        'technique': 'suspension-point-free window analysis on CFG + try/finally hygiene + queue polarity',
    },
    'C19': {
        'text': 'Decides necessary conditions of isolation: lazy-compile writes inside the lock with re-check and publish-after-build, no store to self.* on shared '
                'objects on the request path, inventory of module/class-level mutable state (immutable class defaults on per-request classes, memo purity), '
                'params/req/resp fresh per call. Not decided: serialisability of arbitrary request sets. Added: the finder slot is loaded before the tables are read in find(); no memoised function returns a mutable container it built. Wave 4: a recompile rebinds the router tables to fresh lists; no published table is emptied or reordered in place (R6). Wave 5: the finder call is read through one same-class helper; stores through local aliases of shared state; per-request methods of the shipped middleware are on the request path.',
        'note': _NOTE,
        'technique': 'lock-region containment + effects/ownership inventory + purity of memoised functions',
    },
    'C20': {
        'text': 'Decides the CORS decision table as far as it is the control flow of process_response: grants dominated by the Origin-present and origin-allowed gates, '
                'credentials only on the allowed branch with the origin echoed (wildcard killed), preflight withdrawal removes every grant, approve branch guards, '
                'constructor rejects wildcard inside iterables, single middleware instance. Added: the duplicate-CORS test counts registered and incoming components. Wave 4: the success flag handed to process_response is true only when no exception left the request cycle (shared with C03 R2).',
        'note': _NOTE,
        'technique': 'dominance by gates + kill analysis + abstract header-set interpretation',
    },
}
