"""./check <ID>|all [--tier quick|thorough] [--root DIR] [--evidence-dir DIR] [--replay FILE]"""

from __future__ import annotations

import argparse
import importlib
import json
import os
import sys
import time

sys.setrecursionlimit(10000)

from .model import AnalysisError, Project  # noqa: E402
from .report import Run, VERIF  # noqa: E402

ALL = ['C%02d' % i for i in range(1, 21)]


def run_property(prop: str, tier: str, root: str, evidence_dir: str, project=None, quiet=False) -> int:
    try:
        if project is None:
            project = Project(root)
        mod = importlib.import_module('sa.rules.%s' % prop.lower())
    except AnalysisError as e:
        print('ANALYSIS-ERROR %s: %s' % (prop, e))
        return 2
    except ModuleNotFoundError as e:
        print('ANALYSIS-ERROR %s: no rule module (%s)' % (prop, e))
        return 2
    run = Run(prop, tier, project, evidence_dir)
    try:
        mod.check(run)
    except AnalysisError as e:
        run.errors.append('%s: %s' % (prop, e))
    except Exception as e:  # never a traceback
        import traceback

        run.errors.append('%s: internal error %s: %s\n%s' % (prop, type(e).__name__, e, traceback.format_exc(limit=8)))
    return run.finish()


def main(argv=None) -> int:
    ap = argparse.ArgumentParser(prog='check')
    ap.add_argument('prop')
    ap.add_argument('--tier', default=os.environ.get('VERIF_TIER', 'quick'), choices=['quick', 'thorough'])
    ap.add_argument('--root', default=os.environ.get('VERIF_ROOT', '/repo'))
    ap.add_argument('--evidence-dir', default=os.path.join(VERIF, 'evidence'))
    ap.add_argument('--replay', default=None)
    ap.add_argument('--jobs', type=int, default=16)
    ap.add_argument('--only', default=None, help='selftest: comma-separated mutant name filter')
    args = ap.parse_args(argv)
    prop = args.prop
    if prop == 'selftest':
        from .selftest import driver

        return driver.main(args)
    if prop.lower() == 'all':
        rc = 0
        try:
            project = Project(args.root)
        except AnalysisError as e:
            print('ANALYSIS-ERROR: %s' % e)
            return 2
        for p in ALL:
            r = run_property(p, args.tier, args.root, args.evidence_dir, project)
            rc = max(rc, r) if rc != 1 else 1
            if r == 1:
                rc = 1
        return rc
    prop = prop.upper()
    if prop not in ALL:
        print('ANALYSIS-ERROR unknown property %s' % prop)
        return 2
    if args.replay:
        try:
            with open(args.replay) as f:
                rep = json.load(f)
            print('replaying %s rule %s in %s: %s' % (rep.get('property'), rep.get('rule'), rep.get('function'), rep.get('construct')))
        except Exception as e:
            print('ANALYSIS-ERROR cannot read replay file: %s' % e)
            return 2
    rc = run_property(prop, args.tier, args.root, args.evidence_dir)
    if args.tier == 'thorough':
        try:
            from .selftest import driver

            driver.sensitivity_into_evidence(prop, args)
        except Exception as e:  # sensitivity never changes the verdict
            print('note: sensitivity run skipped (%s: %s)' % (type(e).__name__, e))
    return rc


if __name__ == '__main__':
    try:
        sys.exit(main())
    except SystemExit:
        raise
    except BaseException as e:  # pragma: no cover
        print('ANALYSIS-ERROR internal: %s: %s' % (type(e).__name__, e))
        sys.exit(2)
