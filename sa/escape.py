"""E5: exception-escape summaries (DESIGN.md A.5).

esc(f, selfcls) = explicit raises ∪ conversion primitives ∪ esc(callees),
each filtered by the handlers enclosing its site, least fixpoint over the
resolved call graph.  `selfcls` is the class `self` is an instance of, so that
`self.m()` / `self.prop` inside an inherited method resolves to the override.
"""

from __future__ import annotations

import ast
from typing import Dict, List, Optional, Set, Tuple

from .model import (Class, Func, Project, attr_chain, dotted, func_owner_class, local_names, short,
                    walk_no_nested)

# exception class -> origin chain [(where, text)]
Summary = Dict[str, List[Tuple[str, str]]]

# ---------------------------------------------------------------------------
# frozen primitive table: callee (qualified or bare attr) -> classes raised on
# arbitrary (client-controlled) input
# ---------------------------------------------------------------------------
PRIM_CALLS = {
    'builtins.int': ['builtins.ValueError'],
    'builtins.float': ['builtins.ValueError'],
    'uuid.UUID': ['builtins.ValueError'],
    'json.loads': ['builtins.ValueError'],
    'datetime.datetime.strptime': ['builtins.ValueError'],
    'datetime.strptime': ['builtins.ValueError'],
    'datetime.datetime.fromisoformat': ['builtins.ValueError'],
    'datetime.date.fromisoformat': ['builtins.ValueError'],
    'builtins.next': ['builtins.StopIteration'],
}
# method names (receiver unknown) that are conversion primitives
PRIM_METHODS = {
    'strptime': ['builtins.ValueError'],
    'fromisoformat': ['builtins.ValueError'],
}
TOTAL_CODECS = {'latin1', 'latin-1', 'iso-8859-1', 'iso8859-1'}
UTF_CODECS = {'utf-8', 'utf8', 'utf_8'}

# request tables whose unguarded subscript raises KeyError for an absent key
REQUEST_TABLES = {
    ('self', 'env'), ('env',), ('self', '_asgi_headers'), ('self', 'scope'), ('scope',),
    ('self', '_cookies'), ('self', '_params'), ('self', '_cached_headers'),
}


class Escape:
    def __init__(self, project: Project, key_exempt: Optional[Dict[str, str]] = None,
                 site_exempt: Optional[Dict[Tuple[str, str], str]] = None,
                 receivers: Optional[Dict[str, str]] = None, max_depth: Optional[int] = None):
        self.p = project
        # server-mandated keys: key literal -> reason
        self.key_exempt = key_exempt or {}
        # (function qual, normalised construct) -> reason
        self.site_exempt = site_exempt or {}
        self.receivers = receivers or {}
        self.memo: Dict[Tuple[str, Optional[str]], Summary] = {}
        self.in_progress: Set[Tuple[str, Optional[str]]] = set()
        self.changed = False
        self.stable: Set[Tuple[str, Optional[str]]] = set()
        self._round_done: Set[Tuple[str, Optional[str]]] = set()
        self._guards: list = []
        self.sites_seen = 0
        self.calls_resolved = 0
        self.calls_external = 0
        self.exempt_used: Dict[str, str] = {}

    # ---------------------------------------------------------------- public
    def summary(self, func: Func, selfcls: Optional[Class] = None) -> Summary:
        if selfcls is None:
            selfcls = func_owner_class(func)
        key = (func.qual, selfcls.qual if selfcls else None)
        if key in self.stable:
            return self.memo[key]
        res: Summary = {}
        for _ in range(16):
            self.changed = False
            self.in_progress.clear()
            self._round_done = set()
            res = self._summ(func, selfcls)
            if not self.changed:
                break
        self.stable.update(self._round_done)
        return res

    # -------------------------------------------------------------- internals
    def _summ(self, func: Func, selfcls: Optional[Class]) -> Summary:
        key = (func.qual, selfcls.qual if selfcls else None)
        if key in self.stable or key in self._round_done:
            return self.memo[key]
        if key in self.in_progress:
            return self.memo.get(key, {})
        self.in_progress.add(key)
        out: Summary = {}
        saved_guards = self._guards
        self._guards = []
        self._block(func.node.body, func, selfcls, [], out, caught_ctx=None)
        self._guards = saved_guards
        self.in_progress.discard(key)
        old = self.memo.get(key)
        if old is None or set(old) != set(out):
            self.changed = True
        self.memo[key] = out
        self._round_done.add(key)
        return out

    # handlers: list of frames, each frame = list of (classes|None) per arm
    def _filter(self, exc: str, handlers) -> bool:
        """True if exc escapes all enclosing handler frames."""
        for frame in reversed(handlers):
            for classes in frame:
                if classes is None:
                    return False
                for c in classes:
                    if c == 'builtins.BaseException':
                        return False
                    if c.startswith('?'):
                        continue
                    r = self.p.is_subclass(exc, c)
                    if r is True:
                        return False
        return True

    def _add(self, out: Summary, exc: str, chain, handlers):
        if self._filter(exc, handlers):
            if exc not in out or len(chain) < len(out[exc]):
                out[exc] = chain

    def _handler_classes(self, h: ast.ExceptHandler, func: Func):
        if h.type is None:
            return None
        types = h.type.elts if isinstance(h.type, ast.Tuple) else [h.type]
        res = []
        for t in types:
            q = self.p.resolve_expr(func.module, t, func)
            res.append(q or ('?' + short(t)))
        return res

    def _block(self, stmts, func, selfcls, handlers, out, caught_ctx):
        for s in stmts:
            self._stmt(s, func, selfcls, handlers, out, caught_ctx)

    def _stmt(self, s, func, selfcls, handlers, out, caught_ctx):
        if isinstance(s, (ast.FunctionDef, ast.AsyncFunctionDef, ast.ClassDef)):
            return
        if isinstance(s, ast.Try):
            frame = [self._handler_classes(h, func) for h in s.handlers]
            body_out: Summary = {}
            self._block(s.body, func, selfcls, [], body_out, caught_ctx)
            # what each handler catches (for bare re-raise forwarding)
            for exc, chain in body_out.items():
                self._add(out, exc, chain, handlers + [frame])
            self._block(s.orelse, func, selfcls, handlers, out, caught_ctx)
            for h, classes in zip(s.handlers, frame):
                caught = {}
                for exc, chain in body_out.items():
                    if not self._filter(exc, [[classes]]):
                        caught[exc] = chain
                self._block(h.body, func, selfcls, handlers, out, (h.name, caught))
            self._block(s.finalbody, func, selfcls, handlers, out, caught_ctx)
            return
        if isinstance(s, ast.Raise):
            where = func.loc(s)
            if s.exc is None:
                if caught_ctx is not None:
                    for exc, chain in caught_ctx[1].items():
                        self._add(out, exc, chain, handlers)
                return
            e = s.exc.func if isinstance(s.exc, ast.Call) else s.exc
            if isinstance(e, ast.Name) and caught_ctx is not None and e.id == caught_ctx[0]:
                for exc, chain in caught_ctx[1].items():
                    self._add(out, exc, chain, handlers)
                return
            q = self.p.resolve_expr(func.module, e, func)
            if q and (q in self.p.classes or q.startswith('builtins.')):
                self._add(out, q, [(where, short(s, 100))], handlers)
            else:
                self._add(out, '?' + short(e, 60), [(where, short(s, 100))], handlers)
            if isinstance(s.exc, ast.Call):
                for a in list(s.exc.args) + [k.value for k in s.exc.keywords]:
                    self._expr(a, func, selfcls, handlers, out)
            return
        if isinstance(s, ast.If):
            self._expr(s.test, func, selfcls, handlers, out)
            guards = _in_guards(s.test)
            self._block(s.body, func, selfcls, handlers, out, caught_ctx) if not guards else self._guarded_block(
                s.body, func, selfcls, handlers, out, caught_ctx, guards)
            self._block(s.orelse, func, selfcls, handlers, out, caught_ctx)
            return
        if isinstance(s, (ast.While,)):
            self._expr(s.test, func, selfcls, handlers, out)
            self._block(s.body, func, selfcls, handlers, out, caught_ctx)
            self._block(s.orelse, func, selfcls, handlers, out, caught_ctx)
            return
        if isinstance(s, (ast.For, ast.AsyncFor)):
            self._expr(s.iter, func, selfcls, handlers, out)
            self._block(s.body, func, selfcls, handlers, out, caught_ctx)
            self._block(s.orelse, func, selfcls, handlers, out, caught_ctx)
            return
        if isinstance(s, (ast.With, ast.AsyncWith)):
            for it in s.items:
                self._expr(it.context_expr, func, selfcls, handlers, out)
            self._block(s.body, func, selfcls, handlers, out, caught_ctx)
            return
        if isinstance(s, ast.Assign):
            # tuple-unpacking of a split()/partition-free sequence
            for t in s.targets:
                if isinstance(t, (ast.Tuple, ast.List)) and _is_split_call(s.value):
                    self._prim(out, 'builtins.ValueError', func, s, handlers, 'tuple-unpacking of split()')
            self._expr(s.value, func, selfcls, handlers, out)
            for t in s.targets:
                self._expr(t, func, selfcls, handlers, out, store=True)
            return
        if isinstance(s, ast.Assert):
            return
        for child in ast.iter_child_nodes(s):
            if isinstance(child, ast.expr):
                self._expr(child, func, selfcls, handlers, out)

    def _guarded_block(self, stmts, func, selfcls, handlers, out, caught_ctx, guards):
        self._guards.append(guards)
        try:
            self._block(stmts, func, selfcls, handlers, out, caught_ctx)
        finally:
            self._guards.pop()

    def _prim(self, out, exc, func, node, handlers, why):
        cons = ' '.join(short(node, 200).split())
        ex = self.site_exempt.get((func.qual, cons))
        if ex is not None:
            self.exempt_used['%s :: %s' % (func.qual, cons)] = ex
            return
        self.sites_seen += 1
        self._add(out, exc, [(func.loc(node), '%s  [%s]' % (short(node, 90), why))], handlers)

    # -------------------------------------------------------------- exprs
    def _expr(self, e, func, selfcls, handlers, out, store=False):
        if e is None:
            return
        for n in _walk_self(e):
            if isinstance(n, ast.Call):
                self._call(n, func, selfcls, handlers, out)
            elif isinstance(n, ast.Attribute) and isinstance(n.ctx, ast.Load):
                self._attr_read(n, func, selfcls, handlers, out)
            elif isinstance(n, ast.Subscript) and isinstance(n.ctx, ast.Load):
                self._subscript(n, func, handlers, out)

    def _subscript(self, n: ast.Subscript, func, handlers, out):
        ch = attr_chain(n.value)
        if ch is None or ch not in REQUEST_TABLES:
            return
        key = n.slice
        kconst = key.value if isinstance(key, ast.Constant) else None
        if kconst is not None and kconst in self.key_exempt:
            self.exempt_used['%s[%r]' % ('.'.join(ch), kconst)] = self.key_exempt[kconst]
            return
        # guarded by an enclosing `if k in d:`
        ktxt = short(key)
        for g in getattr(self, '_guards', []):
            if (ktxt, '.'.join(ch)) in g:
                return
        self._prim(out, 'builtins.KeyError', func, n, handlers, 'unguarded request-table lookup')

    def _receiver_class(self, v, func, selfcls) -> Optional[str]:
        if isinstance(v, ast.Name):
            if v.id in ('self', 'cls') and selfcls is not None:
                return selfcls.qual
            # annotation on a parameter
            for a in func.node.args.args + func.node.args.kwonlyargs:
                if a.arg == v.id and a.annotation is not None:
                    q = self.p.resolve_expr(func.module, a.annotation, None)
                    if q in self.p.classes:
                        return q
            if v.id in self.receivers:
                return self.receivers[v.id]
        return None

    def _attr_read(self, n: ast.Attribute, func, selfcls, handlers, out):
        rc = self._receiver_class(n.value, func, selfcls)
        if rc is None:
            return
        meth = self.p.lookup_method(rc, n.attr)
        if meth is not None and meth.is_property():
            self.calls_resolved += 1
            sub = self._summ(meth, self.p.classes.get(rc))
            for exc, chain in sub.items():
                self._add(out, exc, [(func.loc(n), 'read of property %s' % short(n, 60))] + chain, handlers)

    def _call(self, n: ast.Call, func, selfcls, handlers, out):
        f = n.func
        # strict decode / encode primitives
        if isinstance(f, ast.Attribute) and f.attr in ('decode', 'encode'):
            codec, errors = _codec_args(n)
            if errors in (None, 'strict'):
                if f.attr == 'decode' and (codec is None or codec.lower() not in TOTAL_CODECS):
                    self._prim(out, 'builtins.UnicodeDecodeError', func, n, handlers, 'strict bytes.decode')
                elif f.attr == 'encode' and codec is not None and codec.lower() not in UTF_CODECS:
                    self._prim(out, 'builtins.UnicodeEncodeError', func, n, handlers, 'strict str.encode to a non-UTF codec')
        target = None
        # self.m() / receiver.m()
        if isinstance(f, ast.Attribute):
            rc = self._receiver_class(f.value, func, selfcls)
            if rc is not None:
                target = self.p.lookup_method(rc, f.attr)
                if target is not None:
                    self.calls_resolved += 1
                    sub = self._summ(target, self.p.classes.get(rc))
                    self._merge_call(out, sub, func, n, handlers)
                    return
            if f.attr in PRIM_METHODS and target is None:
                q = self.p.resolve_expr(func.module, f, func)
                if q is None or q not in self.p.funcs:
                    for exc in PRIM_METHODS[f.attr]:
                        self._prim(out, exc, func, n, handlers, 'conversion primitive .%s()' % f.attr)
                    return
        t = self.p.resolve_callable(func, f)
        if isinstance(t, Func):
            self.calls_resolved += 1
            sc = selfcls if (t.cls is not None and selfcls is not None and self.p.is_subclass(selfcls.qual, t.cls.qual)) else func_owner_class(t)
            sub = self._summ(t, sc)
            self._merge_call(out, sub, func, n, handlers)
            return
        if isinstance(t, Class):
            init = self.p.constructor(t)
            self.calls_resolved += 1
            if init is not None:
                sub = self._summ(init, t)
                self._merge_call(out, sub, func, n, handlers)
            return
        if isinstance(t, str):
            self.calls_external += 1
            if t in PRIM_CALLS:
                # constant arguments cannot fail
                if n.args and all(isinstance(a, ast.Constant) for a in n.args):
                    return
                if t == 'builtins.int' and n.args and _is_total_int_arg(n.args[0]):
                    return
                for exc in PRIM_CALLS[t]:
                    self._prim(out, exc, func, n, handlers, 'conversion primitive %s()' % t.split('.')[-1])
            return
        self.calls_external += 1

    def _merge_call(self, out, sub: Summary, func, n, handlers):
        for exc, chain in sub.items():
            self._add(out, exc, [(func.loc(n), 'call %s' % short(n.func, 60))] + chain, handlers)


def _walk_self(e):
    yield e
    yield from walk_no_nested(e)


def _codec_args(n: ast.Call):
    codec = None
    errors = None
    args = list(n.args)
    if args and isinstance(args[0], ast.Constant) and isinstance(args[0].value, str):
        codec = args[0].value
    elif args:
        codec = '?'
    if len(args) > 1 and isinstance(args[1], ast.Constant):
        errors = args[1].value
    elif len(args) > 1:
        errors = '?'
    for k in n.keywords:
        if k.arg == 'encoding':
            codec = k.value.value if isinstance(k.value, ast.Constant) else '?'
        if k.arg == 'errors':
            errors = k.value.value if isinstance(k.value, ast.Constant) else '?'
    return codec, errors


def _is_split_call(v) -> bool:
    return (isinstance(v, ast.Call) and isinstance(v.func, ast.Attribute)
            and v.func.attr in ('split', 'rsplit'))


def _is_total_int_arg(a) -> bool:
    # int(len(x)), int(<number literal>), int(a_bool)
    if isinstance(a, ast.Call) and isinstance(a.func, ast.Name) and a.func.id in ('len', 'round', 'ord', 'bool'):
        return True
    return False


def _in_guards(test) -> Set[Tuple[str, str]]:
    """`k in d` facts established on the true branch of `test`."""
    out = set()
    nodes = [test]
    if isinstance(test, ast.BoolOp) and isinstance(test.op, ast.And):
        nodes = list(test.values)
    for t in nodes:
        if isinstance(t, ast.Compare) and len(t.ops) == 1 and isinstance(t.ops[0], ast.In):
            d = dotted(t.comparators[0])
            if d:
                out.add((short(t.left), d))
    return out
