"""E3: path analyses over the CFG of cfg.py.

reachability with removed edges/nodes (dominance by edge), must-pass-through,
event projection -> NFA -> DFA -> language comparison, typestate product,
forward dataflow.
"""

from __future__ import annotations

from collections import deque
from typing import Callable, Dict, FrozenSet, Iterable, List, Optional, Sequence, Set, Tuple

from .cfg import CFG, Node

Edge = Tuple[int, int, str]


def reachable(cfg: CFG, starts: Iterable[int], avoid_nodes: Iterable[int] = (), avoid_edges: Iterable[Edge] = (),
              edge_filter: Optional[Callable[[int, int, str], bool]] = None) -> Set[int]:
    """Nodes reachable from `starts` (inclusive) without entering avoid_nodes
    or traversing avoid_edges."""
    avoid_n = set(avoid_nodes)
    avoid_e = set(avoid_edges)
    seen = set()
    stack = [s for s in starts if s not in avoid_n]
    seen.update(stack)
    while stack:
        x = stack.pop()
        for (y, l) in cfg.succ[x]:
            if y in seen or y in avoid_n or (x, y, l) in avoid_e:
                continue
            if edge_filter is not None and not edge_filter(x, y, l):
                continue
            seen.add(y)
            stack.append(y)
    return seen


def co_reachable(cfg: CFG, targets: Iterable[int], avoid_nodes: Iterable[int] = ()) -> Set[int]:
    avoid_n = set(avoid_nodes)
    seen = set(t for t in targets if t not in avoid_n)
    stack = list(seen)
    while stack:
        x = stack.pop()
        for (p, _l) in cfg.pred[x]:
            if p not in seen and p not in avoid_n:
                seen.add(p)
                stack.append(p)
    return seen


def no_exc(x, y, l):
    return l != 'exc'


def find_path(cfg: CFG, starts: Iterable[int], goals: Iterable[int], avoid_nodes: Iterable[int] = (),
              avoid_edges: Iterable[Edge] = (), edge_filter=None) -> Optional[List[int]]:
    """Shortest path (list of node ids) from any start to any goal."""
    goals = set(goals)
    avoid_n = set(avoid_nodes)
    avoid_e = set(avoid_edges)
    prev: Dict[int, Optional[int]] = {}
    dq = deque()
    for s in starts:
        if s not in avoid_n:
            prev[s] = None
            dq.append(s)
    while dq:
        x = dq.popleft()
        if x in goals:
            path = []
            while x is not None:
                path.append(x)
                x = prev[x]
            return list(reversed(path))
        for (y, l) in cfg.succ[x]:
            if y in prev or y in avoid_n or (x, y, l) in avoid_e:
                continue
            if edge_filter is not None and not edge_filter(x, y, l):
                continue
            prev[y] = x
            dq.append(y)
    return None


def describe_path(cfg: CFG, path: Sequence[int], limit=14) -> List[str]:
    out = []
    for nid in path:
        n = cfg.node(nid)
        if n.kind == 'join':
            continue
        out.append('%s:%s %s' % (cfg.func.file, n.lineno, n.text()))
    if len(out) > limit:
        out = out[: limit // 2] + ['...'] + out[-limit // 2:]
    return out


def dominated_by_edge(cfg: CFG, node: int, edge: Edge) -> bool:
    """Every path entry -> node traverses `edge`."""
    return node not in reachable(cfg, [cfg.entry], avoid_edges=[edge])


def dominated_by_nodes(cfg: CFG, node: int, through: Iterable[int]) -> bool:
    """Every path entry -> node passes through one of `through`."""
    through = set(through)
    if node in through:
        return True
    return node not in reachable(cfg, [cfg.entry], avoid_nodes=through)


def must_pass(cfg: CFG, src: Iterable[int], dst: Iterable[int], through: Iterable[int], edge_filter=None) -> Optional[List[int]]:
    """None if every path src -> dst passes through `through`; otherwise a
    counter-example path."""
    return find_path(cfg, src, dst, avoid_nodes=through, edge_filter=edge_filter)


def edges_out(cfg: CFG, nid: int, label: str) -> List[Edge]:
    return [(nid, y, l) for (y, l) in cfg.succ[nid] if l == label]


# ---------------------------------------------------------------------------
# event projection and automata
# ---------------------------------------------------------------------------

Labeler = Callable[[Node], Sequence[str]]


class NFA:
    """epsilon-NFA; states are ints; accepting set; transitions dict
    state -> list[(label|None, state)]."""

    def __init__(self):
        self.trans: Dict[int, List[Tuple[Optional[str], int]]] = {}
        self.start = 0
        self.accept: Set[int] = set()
        self.origin: Dict[Tuple[int, str, int], int] = {}  # (s,label,t) -> cfg node id
        self._n = 0

    def new(self) -> int:
        s = self._n
        self._n += 1
        self.trans[s] = []
        return s

    def add(self, s, label, t, origin=None):
        self.trans[s].append((label, t))
        if label is not None and origin is not None:
            self.origin[(s, label, t)] = origin


def project(cfg: CFG, labeler: Labeler, accept_exit=True, accept_xexit: Optional[str] = None,
            edge_labeler: Optional[Callable[[int, int, str], Optional[str]]] = None,
            start: Optional[int] = None, stop_nodes: Iterable[int] = ()) -> NFA:
    """CFG -> epsilon-NFA over the labeler's alphabet.

    Each CFG node n becomes in(n) --l1--> ... --lk--> out(n); CFG edges become
    epsilon (or the label given by edge_labeler).  Events of a node are
    considered to have happened before its exceptional edges are taken only if
    the labeler says so by returning labels prefixed with '^' (pre-exception
    events); by default a node's events happen on its *normal* out-edges only
    and its exceptional out-edges leave from in(n).
    accept_xexit: if given, reaching XEXIT emits that pseudo-event and accepts.
    """
    nfa = NFA()
    ins: Dict[int, int] = {}
    mids: Dict[int, int] = {}
    outs: Dict[int, int] = {}
    stop = set(stop_nodes)
    live = cfg.reachable_ids
    for n in cfg.nodes:
        if n.id not in live:
            continue
        i = nfa.new()
        ins[n.id] = i
        labels = list(labeler(n)) if n.kind not in ('entry', 'exit', 'xexit') else []
        cur = i
        for lab in [l for l in labels if l.startswith('^')]:
            nxt = nfa.new()
            nfa.add(cur, lab[1:], nxt, n.id)
            cur = nxt
        mids[n.id] = cur
        for lab in [l for l in labels if not l.startswith('^')]:
            nxt = nfa.new()
            nfa.add(cur, lab, nxt, n.id)
            cur = nxt
        outs[n.id] = cur
    for n in cfg.nodes:
        if n.id not in live or n.id in stop:
            continue
        for (y, l) in cfg.succ[n.id]:
            src = mids[n.id] if l == 'exc' else outs[n.id]
            lab = edge_labeler(n.id, y, l) if edge_labeler else None
            nfa.add(src, lab, ins[y], n.id)
    nfa.start = ins[start if start is not None else cfg.entry]
    if accept_exit and cfg.exit in outs:
        nfa.accept.add(outs[cfg.exit])
    for s in stop:
        if s in outs:
            nfa.accept.add(outs[s])
    if accept_xexit is not None and cfg.xexit in outs:
        fin = nfa.new()
        nfa.add(outs[cfg.xexit], accept_xexit, fin, cfg.xexit)
        nfa.accept.add(fin)
    return nfa


class DFA:
    def __init__(self):
        self.trans: Dict[int, Dict[str, int]] = {}
        self.start = 0
        self.accept: Set[int] = set()
        self.origin: Dict[Tuple[int, str], int] = {}

    def alphabet(self):
        a = set()
        for d in self.trans.values():
            a.update(d)
        return a


def determinise(nfa: NFA) -> DFA:
    def closure(states: Iterable[int]) -> FrozenSet[int]:
        seen = set(states)
        stack = list(seen)
        while stack:
            s = stack.pop()
            for (lab, t) in nfa.trans[s]:
                if lab is None and t not in seen:
                    seen.add(t)
                    stack.append(t)
        return frozenset(seen)

    dfa = DFA()
    start = closure([nfa.start])
    ids = {start: 0}
    dfa.trans[0] = {}
    if start & nfa.accept:
        dfa.accept.add(0)
    work = [start]
    while work:
        S = work.pop()
        sid = ids[S]
        moves: Dict[str, Set[int]] = {}
        orig: Dict[str, int] = {}
        for s in S:
            for (lab, t) in nfa.trans[s]:
                if lab is not None:
                    moves.setdefault(lab, set()).add(t)
                    o = nfa.origin.get((s, lab, t))
                    if o is not None and lab not in orig:
                        orig[lab] = o
        for lab, ts in moves.items():
            T = closure(ts)
            if T not in ids:
                ids[T] = len(ids)
                dfa.trans[ids[T]] = {}
                if T & nfa.accept:
                    dfa.accept.add(ids[T])
                work.append(T)
            dfa.trans[sid][lab] = ids[T]
            if lab in orig:
                dfa.origin[(sid, lab)] = orig[lab]
    return dfa


def _trim(dfa: DFA) -> Set[int]:
    """States from which an accepting state is reachable."""
    rev: Dict[int, Set[int]] = {}
    for s, d in dfa.trans.items():
        for t in d.values():
            rev.setdefault(t, set()).add(s)
    live = set(dfa.accept)
    stack = list(live)
    while stack:
        x = stack.pop()
        for p in rev.get(x, ()):
            if p not in live:
                live.add(p)
                stack.append(p)
    return live


def language_diff(a: DFA, b: DFA) -> Optional[Tuple[List[str], str]]:
    """None if L(a) == L(b); otherwise (shortest distinguishing word, which)
    where which is 'left-only' or 'right-only'."""
    la, lb = _trim(a), _trim(b)
    DEAD = -1
    start = (a.start if a.start in la else DEAD, b.start if b.start in lb else DEAD)
    prev = {start: None}
    dq = deque([start])
    while dq:
        (x, y) = dq.popleft()
        ax = x != DEAD and x in a.accept
        by = y != DEAD and y in b.accept
        if ax != by:
            word = []
            cur = (x, y)
            while prev[cur] is not None:
                cur, lab = prev[cur]
                word.append(lab)
            return list(reversed(word)), ('left-only' if ax else 'right-only')
        labs = set()
        if x != DEAD:
            labs.update(a.trans[x])
        if y != DEAD:
            labs.update(b.trans[y])
        for lab in sorted(labs):
            nx = a.trans[x].get(lab, DEAD) if x != DEAD else DEAD
            ny = b.trans[y].get(lab, DEAD) if y != DEAD else DEAD
            if nx != DEAD and nx not in la:
                nx = DEAD
            if ny != DEAD and ny not in lb:
                ny = DEAD
            if nx == DEAD and ny == DEAD:
                continue
            key = (nx, ny)
            if key not in prev:
                prev[key] = ((x, y), lab)
                dq.append(key)
    return None


def language_included(a: DFA, b: DFA) -> Optional[List[str]]:
    """None if L(a) ⊆ L(b), else a shortest word in L(a) \\ L(b)."""
    la = _trim(a)
    DEAD = -1
    start = (a.start, b.start)
    if a.start not in la:
        return None
    prev = {start: None}
    dq = deque([start])
    while dq:
        (x, y) = dq.popleft()
        if x in a.accept and (y == DEAD or y not in b.accept):
            word = []
            cur = (x, y)
            while prev[cur] is not None:
                cur, lab = prev[cur]
                word.append(lab)
            return list(reversed(word))
        for lab, nx in sorted(a.trans[x].items()):
            if nx not in la:
                continue
            ny = b.trans[y].get(lab, DEAD) if y != DEAD else DEAD
            key = (nx, ny)
            if key not in prev:
                prev[key] = ((x, y), lab)
                dq.append(key)
    return None


def words(dfa: DFA, limit=20, maxlen=12) -> List[List[str]]:
    """A few shortest accepted words (for evidence samples)."""
    live = _trim(dfa)
    out = []
    dq = deque([(dfa.start, [])])
    seen_count = 0
    while dq and len(out) < limit and seen_count < 20000:
        s, w = dq.popleft()
        seen_count += 1
        if s in dfa.accept:
            out.append(w)
        if len(w) >= maxlen:
            continue
        for lab, t in sorted(dfa.trans[s].items()):
            if t in live:
                dq.append((t, w + [lab]))
    return out


# ---------------------------------------------------------------------------
# typestate
# ---------------------------------------------------------------------------

ERROR = '!ERROR'


def typestate(cfg: CFG, labeler: Labeler, delta: Callable[[str, str], str], init: str,
              exit_ok: Optional[Callable[[str], bool]] = None, xexit_ok: Optional[Callable[[str], bool]] = None,
              events_before_exc: bool = False, start: Optional[int] = None,
              edge_delta: Optional[Callable[[str, int, int, str], str]] = None
              ) -> Tuple[Optional[Tuple[List[int], str, str]], int, int]:
    """Product of the CFG with a property automaton.

    delta(state, label) -> new state or ERROR.  Returns (counterexample, n_states,
    n_transitions); counterexample = (path of cfg node ids, state, reason).
    A node's events are applied on its normal out-edges; on 'exc' out-edges
    they are applied only if events_before_exc (conservative choice per rule).
    """
    start_n = start if start is not None else cfg.entry
    init_key = (start_n, init)
    prev = {init_key: None}
    dq = deque([init_key])
    ntrans = 0
    label_cache: Dict[int, List[str]] = {}

    def labels_of(nid):
        if nid not in label_cache:
            n = cfg.node(nid)
            label_cache[nid] = list(labeler(n)) if n.kind not in ('entry', 'exit', 'xexit') else []
        return label_cache[nid]

    def trace(key, reason, st):
        path = []
        cur = key
        while cur is not None:
            path.append(cur[0])
            cur = prev[cur]
        return (list(reversed(path)), st, reason)

    while dq:
        key = dq.popleft()
        nid, st = key
        if nid == cfg.exit:
            if exit_ok is not None and not exit_ok(st):
                return trace(key, 'normal exit in state %s' % (st,), st), len(prev), ntrans
            continue
        if nid == cfg.xexit:
            if xexit_ok is not None and not xexit_ok(st):
                return trace(key, 'exceptional exit in state %s' % (st,), st), len(prev), ntrans
            continue
        bad = None
        st_mid = st
        labs = labels_of(nid)
        for lab in [l for l in labs if l.startswith('^')]:
            nxt = delta(st_mid, lab[1:])
            if nxt == ERROR:
                bad = lab[1:]
                break
            st_mid = nxt
        st_after = st_mid
        if bad is None:
            for lab in [l for l in labs if not l.startswith('^')]:
                nxt = delta(st_after, lab)
                if nxt == ERROR:
                    bad = lab
                    break
                st_after = nxt
        if bad is not None:
            return trace(key, 'event %s in state %s' % (bad, (st_after,)), st_after), len(prev), ntrans
        for (y, l) in cfg.succ[nid]:
            s2 = st_after if (l != 'exc' or events_before_exc) else st_mid
            if edge_delta is not None:
                s2 = edge_delta(s2, nid, y, l)
                if s2 is None:
                    continue  # infeasible edge in this state (pruned by the rule)
                if s2 == ERROR:
                    prev[(y, ERROR)] = key
                    return trace((y, ERROR), 'edge %s->%s (%s)' % (nid, y, l), ERROR), len(prev), ntrans
            k2 = (y, s2)
            ntrans += 1
            if k2 not in prev:
                prev[k2] = key
                dq.append(k2)
    return None, len(prev), ntrans


# ---------------------------------------------------------------------------
# forward dataflow (sets of facts; must = intersection, may = union)
# ---------------------------------------------------------------------------


def forward(cfg: CFG, transfer: Callable[[Node, FrozenSet, str], FrozenSet], init: FrozenSet = frozenset(),
            must: bool = True, universe: Optional[FrozenSet] = None) -> Dict[int, FrozenSet]:
    """Facts holding at the *entry* of each node. transfer(node, in_facts,
    edge_label) -> facts on that out-edge."""
    TOP = None
    IN: Dict[int, Optional[FrozenSet]] = {n.id: TOP for n in cfg.live_nodes()}
    IN[cfg.entry] = init
    work = deque([cfg.entry])
    while work:
        x = work.popleft()
        fx = IN[x]
        if fx is None:
            continue
        for (y, l) in cfg.succ[x]:
            out = transfer(cfg.node(x), fx, l)
            cur = IN.get(y)
            if cur is None:
                new = out
            else:
                new = (cur & out) if must else (cur | out)
            if new != cur:
                IN[y] = new
                work.append(y)
    return {k: (v if v is not None else frozenset()) for k, v in IN.items()}
