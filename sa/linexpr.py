"""E4: linear symbolic evaluator (DESIGN.md section 2 and appendix A.4).

Straight-line abstract execution of ONE acyclic CFG path over linear forms
``sum(c_i * atom_i) + c_0``.  Atoms (hashable tuples):

    ('v', 'self._x')      value of a name / attribute chain at the path start
    ('len', atom)         len() of an atomic value
    ('min'|'max', lins)   opaque min()/max() that keeps its arguments
    ('sub', atom, key)    atom[<constant key>]
    ('in', key, atom)     <constant key> in atom   (only as a truth atom)
    ('sym', text, n)      fresh symbol (call result, loop item, havoc)
    ('t', text, n)        TAINTED symbol: a len-lemma whose side condition was
                          not among the path facts (see Env.notes)

Values are ``Lin`` (numbers and unknown scalars), ``Seq`` (a sequence with a
symbolic length), ``NONE`` or ``Konst`` (other constants).  Facts are linear
forms known to be <= 0 on the path; proofs are bounded syntactic matching of
a goal against facts and built-in axioms (len >= 0, min(a,b) <= a, ...) --
no solver.  ``Env.assume`` returns the list of feasible forks (disjunctive
outcomes are split, contradictory ones dropped) which is what gives the
sign/partition analysis of guards.
"""

from __future__ import annotations

import ast
import itertools
from typing import Callable, Dict, Iterator, List, Optional, Sequence, Tuple

from .model import UnknownIdiom, dotted, short

_ids = itertools.count(1)


class Lin:
    __slots__ = ('t', 'c')

    def __init__(self, terms=None, c=0):
        self.t = {a: k for a, k in (terms or {}).items() if k != 0}
        self.c = c

    @staticmethod
    def const(c):
        return Lin(None, c)

    @staticmethod
    def atom(a):
        return Lin({a: 1}, 0)

    def __add__(self, o):
        o = _lin(o)
        t = dict(self.t)
        for a, k in o.t.items():
            t[a] = t.get(a, 0) + k
        return Lin(t, self.c + o.c)

    def __neg__(self):
        return self.scale(-1)

    def __sub__(self, o):
        return self + (-_lin(o))

    def scale(self, k):
        return Lin({a: v * k for a, v in self.t.items()}, self.c * k)

    @property
    def is_const(self):
        return not self.t

    def lone(self):
        """The atom if this form is exactly 1*atom, else None."""
        if self.c == 0 and len(self.t) == 1:
            (a, k), = self.t.items()
            return a if k == 1 else None
        return None

    def atoms(self):
        return set(self.t)

    def key(self):
        return (tuple(sorted(self.t.items(), key=repr)), self.c)

    def __eq__(self, o):
        return isinstance(o, Lin) and self.t == o.t and self.c == o.c

    def __hash__(self):
        return hash(self.key())

    def tainted(self):
        return any(_tainted(a) for a in self.t)

    def __repr__(self):
        parts = []
        for a, k in sorted(self.t.items(), key=repr):
            s = atom_text(a)
            parts.append(('%+d*%s' % (k, s)) if abs(k) != 1 else ('+' if k > 0 else '-') + s)
        if self.c or not parts:
            parts.append('%+d' % self.c)
        return ''.join(parts).lstrip('+')


def _lin(x):
    return x if isinstance(x, Lin) else Lin.const(x)


def _tainted(a):
    return a[0] == 't' or any(_tainted(x) for x in a[1:] if isinstance(x, tuple) and x and isinstance(x[0], str))


def atom_text(a) -> str:
    k = a[0]
    if k == 'v':
        return a[1]
    if k == 'len':
        return 'len(%s)' % atom_text(a[1])
    if k in ('min', 'max'):
        return '%s(%s)' % (k, ', '.join(repr(x) for x in a[1]))
    if k == 'sub':
        return '%s[%r]' % (atom_text(a[1]), a[2])
    if k == 'in':
        return '(%r in %s)' % (a[1], atom_text(a[2]))
    return '%s<%s#%d>' % ('?' if k == 't' else '', a[1], a[2])


class Seq:
    """A sequence value (bytes, list) whose length is the linear form `length`."""
    __slots__ = ('length', 'ident')

    def __init__(self, length, ident=None):
        self.length = _lin(length)
        self.ident = ident if ident is not None else ('sym', 'seq', next(_ids))

    def __repr__(self):
        return 'Seq(len=%r)' % (self.length,)


class Konst:
    __slots__ = ('value',)

    def __init__(self, value):
        self.value = value

    def __repr__(self):
        return 'Konst(%r)' % (self.value,)


NONE = Konst(None)


def fresh(text='x', tainted=False):
    return ('t' if tainted else 'sym', text, next(_ids))


class Env:
    """Abstract state on one path: variable bindings + path facts."""

    def __init__(self, on_call: Optional[Callable] = None):
        self.vars: Dict[str, object] = {}
        self.facts: List[Lin] = []          # each L means L <= 0
        self.neq: List[Lin] = []            # each L means L != 0
        self.truth: Dict[tuple, bool] = {}  # truthiness of atoms
        self.is_none: Dict[tuple, bool] = {}
        self.kind: Dict[tuple, str] = {}    # atom -> 'int' | 'seq' (declared by the rule)
        self.notes: List[str] = []          # unproved len-lemma side conditions
        self.log: List[tuple] = []          # ('yield'|'return'|'raise'|..., value, node) + whatever hooks add
        self.on_call = on_call
        self.ghost: Dict[str, object] = {}  # free for rule bookkeeping (copied on fork)

    def fork(self) -> 'Env':
        e = Env(self.on_call)
        e.vars = dict(self.vars)
        e.facts = list(self.facts)
        e.neq = list(self.neq)
        e.truth = dict(self.truth)
        e.is_none = dict(self.is_none)
        e.kind = dict(self.kind)
        e.notes = list(self.notes)
        e.log = list(self.log)
        e.ghost = dict(self.ghost)
        return e

    # ------------------------------------------------------------ declarations
    def var(self, name: str) -> Lin:
        """Symbol for the path-start value of a name/attribute chain."""
        return Lin.atom(('v', name))

    def declare(self, name: str, kind: str) -> Lin:
        self.kind[('v', name)] = kind
        return self.var(name)

    def add_le(self, a, b=0):
        """Record a <= b.  Returns False if that contradicts the path facts."""
        d = _lin(a) - _lin(b)
        if d.is_const:
            return d.c <= 0
        if self._le0(Lin.const(1) - d):      # d >= 1 already known
            return False
        if d not in self.facts:
            self.facts.append(d)
        return True

    def add_eq(self, a, b=0):
        d = _lin(a) - _lin(b)
        if any(d == n or d == -n for n in self.neq):
            return False
        return self.add_le(d) and self.add_le(-d)

    def add_ne(self, a, b=0):
        d = _lin(a) - _lin(b)
        if d.is_const:
            return d.c != 0
        if self.prove_eq(d, 0):
            return False
        self.neq.append(d)
        if self._le0(-d):                # integers: d >= 0 and d != 0  =>  d >= 1
            return self.add_le(1, d)
        if self._le0(d):
            return self.add_le(d, -1)
        return True

    # ------------------------------------------------------------------ proofs
    def _axioms(self, d: Lin, depth) -> Iterator[Lin]:
        for a, k in d.t.items():
            if a[0] == 'len' and k < 0:
                yield -Lin.atom(a)
            elif a[0] == 'min':
                if k > 0:
                    for x in a[1]:
                        yield Lin.atom(a) - x
                elif depth > 1 and all(self._le0(-x, depth - 1) for x in a[1]):
                    yield -Lin.atom(a)
            elif a[0] == 'max' and k < 0:
                for x in a[1]:
                    yield x - Lin.atom(a)
            elif k < 0 and self.kind.get(a) == 'nat':
                yield -Lin.atom(a)

    def _le0(self, d: Lin, depth=3) -> bool:
        if d.is_const:
            return d.c <= 0
        if depth <= 0:
            return False
        for f in itertools.chain(self.facts, self._axioms(d, depth)):
            if f.atoms() & d.atoms() and self._le0(d - f, depth - 1):
                return True
        return False

    def prove_le(self, a, b=0) -> bool:
        return self._le0(_lin(a) - _lin(b))

    def prove_lt(self, a, b=0) -> bool:
        return self._le0(_lin(a) - _lin(b) + Lin.const(1))

    def prove_eq(self, a, b=0) -> bool:
        d = _lin(a) - _lin(b)
        return (d.is_const and d.c == 0) or (self._le0(d) and self._le0(-d))

    @staticmethod
    def same(a, b) -> bool:
        """Syntactic equality after normalisation (A.4)."""
        return _lin(a) == _lin(b)

    # -------------------------------------------------------------- evaluation
    def length(self, v, what='value') -> Lin:
        if isinstance(v, Seq):
            return v.length
        if isinstance(v, Konst) and isinstance(v.value, (bytes, str, tuple)):
            return Lin.const(len(v.value))
        if isinstance(v, Lin) and v.lone() is not None:
            return Lin.atom(('len', v.lone()))
        self.notes.append('len() of %s not modelled' % what)
        return Lin.atom(fresh('len(%s)' % what, tainted=True))

    def eval(self, e):
        if isinstance(e, ast.Await):
            return self.eval(e.value)
        if isinstance(e, ast.Constant):
            v = e.value
            if v is None:
                return NONE
            if isinstance(v, int):
                return Lin.const(int(v))
            return Seq(len(v), ('k', v)) if isinstance(v, (bytes, str)) else Konst(v)
        if isinstance(e, (ast.Name, ast.Attribute)):
            d = dotted(e)
            if d is None:
                self.eval(e.value)
                return Lin.atom(fresh(short(e, 40)))
            return self.vars[d] if d in self.vars else Lin.atom(('v', d))
        if isinstance(e, ast.UnaryOp) and isinstance(e.op, ast.USub):
            v = self.eval(e.operand)
            return -v if isinstance(v, Lin) else Lin.atom(fresh(short(e, 40)))
        if isinstance(e, ast.BinOp):
            return self._binop(e, self.eval(e.left), e.op, self.eval(e.right))
        if isinstance(e, ast.Call):
            return self._call(e)
        if isinstance(e, ast.Subscript):
            return self._subscript(e)
        if isinstance(e, ast.IfExp):
            d = self.decide(e.test)
            if d is not None:
                return self.eval(e.body if d else e.orelse)
            return Lin.atom(fresh(short(e, 40)))
        if isinstance(e, (ast.Yield, ast.YieldFrom)):
            v = self.eval(e.value) if e.value is not None else NONE
            self.log.append(('yield', v, e))
            return Lin.atom(fresh('sent'))
        if isinstance(e, (ast.List, ast.Tuple)) and not any(isinstance(x, ast.Starred) for x in e.elts):
            for x in e.elts:
                self.eval(x)
            return Seq(len(e.elts))
        for sub in ast.iter_child_nodes(e):       # evaluate for the hooks' sake
            if isinstance(sub, ast.expr) and not isinstance(sub, (ast.Lambda, ast.GeneratorExp, ast.ListComp, ast.SetComp, ast.DictComp)):
                self.eval(sub)
        return Lin.atom(fresh(short(e, 40)))

    def _binop(self, e, a, op, b):
        if isinstance(op, (ast.Add, ast.Sub)):
            if isinstance(a, Lin) and isinstance(b, Lin) and not self._seqish(a) and not self._seqish(b):
                return a + b if isinstance(op, ast.Add) else a - b
            if isinstance(op, ast.Add) and (isinstance(a, Seq) or isinstance(b, Seq) or self._seqish(a) or self._seqish(b)):
                return Seq(self.length(a, short(e.left, 30)) + self.length(b, short(e.right, 30)))
        if isinstance(op, ast.Mult) and isinstance(a, Lin) and isinstance(b, Lin) and (a.is_const or b.is_const):
            return b.scale(a.c) if a.is_const else a.scale(b.c)
        if isinstance(op, ast.Pow) and isinstance(a, Lin) and isinstance(b, Lin) and a.is_const and b.is_const and 0 <= b.c < 4096:
            return Lin.const(a.c ** b.c)
        return Lin.atom(fresh(short(e, 40)))

    def _seqish(self, v):
        return isinstance(v, Lin) and v.lone() is not None and self.kind.get(v.lone()) == 'seq'

    def minmax(self, which: str, args: Sequence[Lin]):
        """min/max simplified under the path facts, else an opaque atom that keeps its arguments."""
        args = list(args)
        for x in args:
            if all(self.prove_le(x, y) if which == 'min' else self.prove_le(y, x) for y in args if y is not x):
                return x
        return Lin.atom((which, tuple(sorted(args, key=lambda l: repr(l.key())))))

    def _call(self, e: ast.Call):
        f = e.func
        if isinstance(f, ast.Name) and f.id in ('len', 'min', 'max') and not e.keywords and f.id not in self.vars:
            vals = [self.eval(a) for a in e.args]
            if f.id == 'len' and len(vals) == 1:
                return self.length(vals[0], short(e.args[0], 40))
            if f.id != 'len' and len(vals) >= 2 and all(isinstance(v, Lin) for v in vals):
                return self.minmax(f.id, vals)
            return Lin.atom(fresh(short(e, 40)))
        if self.on_call is not None:
            r = self.on_call(self, e)
            if r is not None:
                return r
        if isinstance(f, ast.Attribute):
            self.eval(f.value)
        for a in list(e.args) + [k.value for k in e.keywords]:
            self.eval(a.value if isinstance(a, ast.Starred) else a)
        return Lin.atom(fresh(short(e, 40)))

    def _subscript(self, e: ast.Subscript):
        base = self.eval(e.value)
        s = e.slice
        if not isinstance(s, ast.Slice):
            k = self.eval(s)
            if isinstance(base, Lin) and base.lone() is not None and (isinstance(k, Konst) or isinstance(k, Seq) and k.ident[0] == 'k' or isinstance(k, Lin) and k.is_const):
                key = k.value if isinstance(k, Konst) else (k.ident[1] if isinstance(k, Seq) else k.c)
                return Lin.atom(('sub', base.lone(), key))
            return Lin.atom(fresh(short(e, 40)))
        if s.step is not None:
            return Lin.atom(fresh(short(e, 40)))
        n = self.length(base, short(e.value, 40))
        lo = self.eval(s.lower) if s.lower is not None else None
        hi = self.eval(s.upper) if s.upper is not None else None
        if not all(x is None or isinstance(x, Lin) for x in (lo, hi)):
            return Seq(Lin.atom(fresh('len(%s)' % short(e, 40), tainted=True)))
        conds = []
        if lo is None and hi is None:
            return Seq(n)
        if lo is None:
            conds, res = [(Lin.const(0), hi), (hi, n)], hi
        elif hi is None:
            conds, res = [(Lin.const(0), lo), (lo, n)], n - lo
        else:
            conds, res = [(Lin.const(0), lo), (lo, hi), (hi, n)], hi - lo
        missing = ['%r <= %r' % (a, b) for (a, b) in conds if not self.prove_le(a, b)]
        if missing:
            self.notes.append('len(%s): side condition %s not among the path facts' % (short(e, 60), ' and '.join(missing)))
            return Seq(Lin.atom(fresh('len(%s)' % short(e, 40), tainted=True)))
        return Seq(res)

    # -------------------------------------------------------------- statements
    def assign(self, target, value):
        if isinstance(target, (ast.Name, ast.Attribute)) and dotted(target) is not None:
            d = dotted(target)
            for k in [k for k in self.vars if k.startswith(d + '.')]:
                del self.vars[k]
            self.vars[d] = value
        elif isinstance(target, (ast.Tuple, ast.List)):
            for t in target.elts:
                self.assign(t.value if isinstance(t, ast.Starred) else t, Lin.atom(fresh(short(t, 30))))
        else:  # subscript / attribute of a non-chain: evaluate, bind nothing
            for sub in ast.iter_child_nodes(target):
                if isinstance(sub, ast.expr):
                    self.eval(sub)

    def havoc(self, names: Sequence[str], text='havoc'):
        for n in names:
            self.vars[n] = Lin.atom(fresh('%s:%s' % (text, n)))

    def exec(self, s):
        """Execute one simple statement (the `.ast` of a CFG 'stmt' node)."""
        if isinstance(s, ast.Assign):
            # simultaneous assignment `a, b = x, y`: all right-hand sides are
            # evaluated first, then bound element-wise
            if (isinstance(s.value, (ast.Tuple, ast.List)) and len(s.targets) == 1 and isinstance(s.targets[0], (ast.Tuple, ast.List))
                    and len(s.targets[0].elts) == len(s.value.elts)
                    and not any(isinstance(e, ast.Starred) for e in list(s.targets[0].elts) + list(s.value.elts))):
                vals = [self.eval(e) for e in s.value.elts]
                for t, v in zip(s.targets[0].elts, vals):
                    self.assign(t, v)
                return
            v = self.eval(s.value)
            for t in s.targets:
                self.assign(t, v)
        elif isinstance(s, ast.AnnAssign):
            if s.value is not None:
                self.assign(s.target, self.eval(s.value))
        elif isinstance(s, ast.AugAssign):
            cur = self.eval(s.target)
            self.assign(s.target, self._binop(ast.BinOp(s.target, s.op, s.value), cur, s.op, self.eval(s.value)))
        elif isinstance(s, ast.Expr):
            self.eval(s.value)
        elif isinstance(s, ast.Return):
            self.log.append(('return', self.eval(s.value) if s.value is not None else NONE, s))
        elif isinstance(s, ast.Raise):
            self.log.append(('raise', None, s))
        elif isinstance(s, ast.Assert):
            self.log.append(('assert', None, s))
        elif isinstance(s, (ast.Pass, ast.Break, ast.Continue, ast.Import, ast.ImportFrom, ast.Global, ast.Nonlocal,
                            ast.FunctionDef, ast.AsyncFunctionDef, ast.ClassDef)):
            pass
        else:
            raise UnknownIdiom('linexpr: unsupported statement %s' % short(s, 60))

    # ---------------------------------------------------------------- branches
    def assume(self, test, truth: bool) -> List['Env']:
        """Feasible refinements of this state in which `test` evaluates to `truth`
        (disjunctive outcomes are split; contradictory ones dropped)."""
        if isinstance(test, ast.UnaryOp) and isinstance(test.op, ast.Not):
            return self.assume(test.operand, not truth)
        if isinstance(test, ast.BoolOp):
            conj = isinstance(test.op, ast.And) == truth      # every operand must have outcome `truth`
            if conj:
                envs = [self]
                for v in test.values:
                    envs = [e2 for e1 in envs for e2 in e1.assume(v, truth)]
                return envs
            out, prefix = [], [self]                          # first operand with outcome `truth`, earlier ones not
            for v in test.values:
                out += [e2 for e1 in prefix for e2 in e1.assume(v, truth)]
                prefix = [e2 for e1 in prefix for e2 in e1.assume(v, not truth)]
            return out
        if isinstance(test, ast.Compare) and len(test.ops) > 1:
            parts, left = [], test.left
            for op, right in zip(test.ops, test.comparators):
                parts.append(ast.Compare(left, [op], [right]))
                left = right
            return self.assume(ast.BoolOp(ast.And(), parts), truth)
        e = self.fork()
        return [e] if e._assume_atomic(test, truth) else []

    def _assume_atomic(self, test, truth) -> bool:
        if isinstance(test, ast.Compare):
            op = test.ops[0]
            if isinstance(op, (ast.In, ast.NotIn)):
                k, c = self.eval(test.left), self.eval(test.comparators[0])
                key = k.ident[1] if isinstance(k, Seq) and k.ident[0] == 'k' else None
                if key is not None and isinstance(c, Lin) and c.lone() is not None:
                    return self._set(self.truth, ('in', key, c.lone()), truth == isinstance(op, ast.In))
                return True
            a, b = self.eval(test.left), self.eval(test.comparators[0])
            if isinstance(op, (ast.Is, ast.IsNot, ast.Eq, ast.NotEq)) and (a is NONE or b is NONE):
                o = b if a is NONE else a
                pos = truth == isinstance(op, (ast.Is, ast.Eq))
                if o is NONE:
                    return pos
                if isinstance(o, Lin) and o.lone() is not None and self.kind.get(o.lone()) not in ('int', 'seq', 'nat'):
                    return self._set(self.is_none, o.lone(), pos)
                return not pos
            if not (isinstance(a, Lin) and isinstance(b, Lin)):
                return True
            for x in (a, b):     # a value in arithmetic comparison is not None
                if x.lone() is not None and self.is_none.get(x.lone()) and isinstance(op, (ast.Lt, ast.LtE, ast.Gt, ast.GtE)):
                    return False
            if isinstance(op, (ast.Eq, ast.NotEq)):
                if a.lone() is not None and self.is_none.get(a.lone()) or b.lone() is not None and self.is_none.get(b.lone()):
                    return truth == isinstance(op, ast.NotEq)      # None == <number> is False
                return self.add_eq(a, b) if truth == isinstance(op, ast.Eq) else self.add_ne(a, b)
            if isinstance(op, (ast.Gt, ast.GtE)):
                a, b, op = b, a, (ast.Lt() if isinstance(op, ast.Gt) else ast.LtE())
            if isinstance(op, ast.Lt):
                return self.add_le(a + Lin.const(1), b) if truth else self.add_le(b, a)
            if isinstance(op, ast.LtE):
                return self.add_le(a, b) if truth else self.add_le(b + Lin.const(1), a)
            return True
        v = self.eval(test)
        if v is NONE:
            return not truth
        if isinstance(v, Konst):
            return bool(v.value) == truth
        if isinstance(v, Seq):
            return self.add_le(1, v.length) if truth else self.add_eq(v.length, 0)
        if v.is_const:
            return bool(v.c) == truth
        a = v.lone()
        if a is None:
            return self.add_ne(v, 0) if truth else self.add_eq(v, 0)
        if truth and self.is_none.get(a):
            return False
        if not self._set(self.truth, a, truth):
            return False
        k = self.kind.get(a)
        if k == 'seq':
            return self.add_le(1, Lin.atom(('len', a))) if truth else self.add_eq(Lin.atom(('len', a)), 0)
        if k in ('int', 'nat') or self.is_none.get(a) is False:
            # (for a non-None value of unknown type the numeric reading is vacuous unless it is a number)
            return self.add_ne(v, 0) if truth else self.add_eq(v, 0)
        if truth:
            self.is_none[a] = False
        return True

    @staticmethod
    def _set(table, key, val) -> bool:
        if table.get(key, val) != val:
            return False
        table[key] = val
        return True

    def decide(self, test) -> Optional[bool]:
        """True/False when only one outcome of `test` is feasible on this path, else None."""
        t, f = bool(self.assume(test, True)), bool(self.assume(test, False))
        return None if t == f else t


# ---------------------------------------------------------------------------
# acyclic paths over the CFG of cfg.py
# ---------------------------------------------------------------------------

Step = Tuple[int, str]      # (node id, label of the out-edge taken)


def loop_heads(cfg) -> List[int]:
    return [n.id for n in cfg.live_nodes() if n.kind == 'iter' or (n.kind == 'test' and isinstance(n.stmt, ast.While) and n.ast is n.stmt.test)]


def local_edges(cfg):
    """Edge filter: normal edges, plus exceptional edges that are caught locally."""
    def ok(a, b, l):
        return l != 'exc' or cfg.node(b).kind == 'handler'
    return ok


def paths_from(cfg, start: int, cuts, edge_ok=None, limit=4000) -> Iterator[Tuple[List[Step], int]]:
    """Every simple path start -> (next node in `cuts` | exit | xexit | dead end).
    Yields (steps, end node); `start` itself may be a cut (loop head)."""
    cuts = set(cuts)
    count = [0]

    def rec(n, steps, seen):
        for (y, l) in cfg.succ[n]:
            if edge_ok is not None and not edge_ok(n, y, l):
                continue
            st = steps + [(n, l)]
            if y in cuts or y in (cfg.exit, cfg.xexit) or not cfg.succ[y]:
                count[0] += 1
                if count[0] > limit:
                    raise UnknownIdiom('linexpr: more than %d acyclic paths in %s' % (limit, cfg.func.qual))
                yield st, y
            elif y in seen:
                raise UnknownIdiom('linexpr: cycle without a cut point in %s at %s' % (cfg.func.qual, cfg.node(y).text()))
            else:
                yield from rec(y, st, seen | {y})

    yield from rec(start, [], {start})


def segments(cfg, extra_cuts=(), edge_ok=None) -> Iterator[Tuple[int, List[Step], int]]:
    """All acyclic segments between cut points (entry, loop heads, extra_cuts)."""
    cuts = set(loop_heads(cfg)) | set(extra_cuts)
    for c in [cfg.entry] + sorted(cuts):
        for steps, end in paths_from(cfg, c, cuts, edge_ok or local_edges(cfg)):
            yield c, steps, end


def run_steps(env: Env, cfg, steps: Sequence[Step], on_node: Optional[Callable] = None) -> List[Env]:
    """Execute a path; returns the feasible final states (forks from disjunctive guards).
    A statement left through its exceptional edge has no effect; `for` targets get fresh symbols."""
    envs = [env]
    for (nid, label) in steps:
        n = cfg.node(nid)
        nxt = []
        for e in envs:
            if on_node is not None:
                on_node(e, n, label)
            if n.kind == 'stmt':
                if label != 'exc' or isinstance(n.ast, ast.Raise):
                    e.exec(n.ast)
                nxt.append(e)
            elif n.kind == 'test':
                nxt.extend(e.assume(n.ast, label == 'T') if label in ('T', 'F') else [e])
            elif n.kind == 'iter':
                if label == 'next':
                    e.eval(n.stmt.iter)
                    e.assign(n.stmt.target, Lin.atom(fresh('item:' + short(n.stmt.target, 30))))
                nxt.append(e)
            else:
                nxt.append(e)
        envs = nxt
        if not envs:
            break
    return envs
