"""E0/E1/E7: source model, name/callee resolution, class MRO, constant folding.

Nothing from the analysed repository is imported or executed: every fact is
read off the syntax trees of ``<root>/falcon/**/*.py``.
"""

from __future__ import annotations

import ast
import builtins
import os
import sys
from typing import Dict, Iterator, List, Optional, Tuple, Union


class AnalysisError(Exception):
    """The analysis cannot run (vanished anchor, unknown idiom) -> exit 2."""


class AnchorError(AnalysisError):
    pass


class UnknownIdiom(AnalysisError):
    pass


UNKNOWN = type('UNKNOWN', (), {'__repr__': lambda s: 'UNKNOWN', '__bool__': lambda s: False})()


def unparse(node) -> str:
    """Canonical text of a node (quotes/whitespace normalised by ast.unparse)."""
    if node is None:
        return ''
    try:
        return ast.unparse(node)
    except Exception:  # pragma: no cover
        return ast.dump(node)


def short(node, n=160) -> str:
    s = ' '.join(unparse(node).split())
    return s if len(s) <= n else s[: n - 3] + '...'


class Func:
    def __init__(self, node, qual, module, cls=None, parent=None):
        self.node = node
        self.qual = qual
        self.name = node.name
        self.module = module
        self.cls: Optional['Class'] = cls
        self.parent: Optional['Func'] = parent
        self.nested: Dict[str, 'Func'] = {}
        self.is_async = isinstance(node, ast.AsyncFunctionDef)
        self.decorators = [unparse(d) for d in node.decorator_list]

    @property
    def file(self):
        return self.module.relpath

    @property
    def lineno(self):
        return self.node.lineno

    def loc(self, node=None):
        n = node if node is not None and hasattr(node, 'lineno') else self.node
        return '%s:%d' % (self.module.relpath, n.lineno)

    def params(self) -> List[str]:
        a = self.node.args
        names = [x.arg for x in a.posonlyargs + a.args]
        if a.vararg:
            names.append(a.vararg.arg)
        names += [x.arg for x in a.kwonlyargs]
        if a.kwarg:
            names.append(a.kwarg.arg)
        return names

    def is_property(self):
        return any(d == 'property' or d.endswith('.getter') for d in self.decorators)

    def is_setter(self):
        return any(d.endswith('.setter') or d.endswith('.deleter') for d in self.decorators)

    def __repr__(self):
        return '<Func %s>' % self.qual


class Class:
    def __init__(self, node, qual, module):
        self.node = node
        self.qual = qual
        self.name = node.name
        self.module = module
        self.methods: Dict[str, Func] = {}
        # setters/deleters of properties, keyed '<name>.setter'
        self.accessors: Dict[str, Func] = {}
        self.attrs: Dict[str, ast.AST] = {}  # class-level name -> value expr
        self.attr_nodes: Dict[str, ast.stmt] = {}
        self.base_exprs = list(node.bases)
        self.bases: List[str] = []  # qualified names, filled by Project

    @property
    def file(self):
        return self.module.relpath

    def loc(self, node=None):
        n = node if node is not None else self.node
        return '%s:%d' % (self.module.relpath, n.lineno)

    def __repr__(self):
        return '<Class %s>' % self.qual


_CMP_SWAP = {ast.Lt: ast.Gt, ast.Gt: ast.Lt, ast.LtE: ast.GtE, ast.GtE: ast.LtE, ast.Eq: ast.Eq, ast.NotEq: ast.NotEq}


class _Canon(ast.NodeTransformer):
    """Semantics-preserving canonical form applied to every parsed module so
    that rules see one spelling of equivalent code:

    * Yoda comparisons: `CONST op x` -> `x op' CONST` (single comparison, the
      left operand a literal, the right one not);
    * a two-armed `if not c: A else: B` (B not an elif chain) -> `if c: B else: A`.

    Line numbers are kept; construct texts in reports are the canonical form."""

    def visit_Compare(self, n):
        self.generic_visit(n)
        def lit(e):
            return isinstance(e, ast.Constant) or (isinstance(e, ast.UnaryOp) and isinstance(e.op, (ast.USub, ast.UAdd))
                                                   and isinstance(e.operand, ast.Constant))

        if len(n.ops) == 1 and type(n.ops[0]) in _CMP_SWAP and lit(n.left) and not lit(n.comparators[0]):
            new = ast.Compare(left=n.comparators[0], ops=[_CMP_SWAP[type(n.ops[0])]()], comparators=[n.left])
            return ast.copy_location(new, n)
        return n

    def visit_If(self, n):
        self.generic_visit(n)
        if (isinstance(n.test, ast.UnaryOp) and isinstance(n.test.op, ast.Not) and n.orelse
                and not (len(n.orelse) == 1 and isinstance(n.orelse[0], ast.If))):
            new = ast.If(test=n.test.operand, body=n.orelse, orelse=n.body)
            return ast.copy_location(new, n)
        return n


class Module:
    def __init__(self, name, path, relpath, source, is_pkg):
        self.name = name
        self.path = path
        self.relpath = relpath
        self.source = source
        self.is_pkg = is_pkg
        self.tree = _Canon().visit(ast.parse(source, filename=path))
        self.imports: Dict[str, str] = {}
        self.star_imports: List[str] = []
        self.functions: Dict[str, Func] = {}
        self.classes: Dict[str, Class] = {}
        self.consts: Dict[str, ast.AST] = {}  # top-level NAME = expr (last wins)
        self.const_nodes: Dict[str, ast.stmt] = {}
        self.all_funcs: List[Func] = []

    @property
    def package(self):
        return self.name if self.is_pkg else self.name.rpartition('.')[0]

    def __repr__(self):
        return '<Module %s>' % self.name


def _iter_toplevel(stmts):
    """Top-level statements, looking through `if`/`try` wrappers (import
    fallbacks, TYPE_CHECKING blocks)."""
    for s in stmts:
        if isinstance(s, ast.If):
            t = s.test
            if (isinstance(t, ast.Name) and t.id == 'TYPE_CHECKING') or (isinstance(t, ast.Attribute) and t.attr == 'TYPE_CHECKING'):
                # typing-only block: keep its imports (name resolution), ignore
                # its stubs (they are not the runtime definitions)
                for x in _iter_toplevel(s.body):
                    if isinstance(x, (ast.Import, ast.ImportFrom)):
                        yield x
                yield from _iter_toplevel(s.orelse)
                continue
            yield from _iter_toplevel(s.body)
            yield from _iter_toplevel(s.orelse)
        elif isinstance(s, ast.Try):
            yield from _iter_toplevel(s.body)
            for h in s.handlers:
                yield from _iter_toplevel(h.body)
            yield from _iter_toplevel(s.orelse)
            yield from _iter_toplevel(s.finalbody)
        else:
            yield s


def _clear_analysis_caches():
    """Module-level memo tables of the engine and of the rule modules are keyed
    by `id()` of AST nodes.  A node id is only unique while the node is alive:
    when one process analyses several trees in sequence (self-test, seeded
    runs) the nodes of an earlier Project are freed and a new function node may
    get a recycled id, so a stale entry would describe ANOTHER function.  Every
    dict named *_CACHE / *_cache in the `sa` package is therefore emptied
    whenever a new Project is built (entries of an older Project that is still
    alive are merely recomputed)."""
    import sys
    for name, mod in list(sys.modules.items()):
        if mod is None or not (name == 'sa' or name.startswith('sa.')):
            continue
        for k, v in list(vars(mod).items()):
            if isinstance(v, dict) and k.lower().endswith('_cache'):
                v.clear()



class Project:
    """All modules under <root>/falcon, indexed."""

    def __init__(self, root: str, pkg: str = 'falcon', extra_files: Optional[Dict[str, str]] = None):
        _clear_analysis_caches()
        self.root = os.path.abspath(root)
        self.pkg = pkg
        self.modules: Dict[str, Module] = {}
        self.funcs: Dict[str, Func] = {}
        self.classes: Dict[str, Class] = {}
        self.not_analysed: List[str] = []
        self.parse_errors: List[str] = []
        self._mro_cache: Dict[str, List[str]] = {}
        pkgdir = os.path.join(self.root, pkg)
        if not os.path.isdir(pkgdir):
            raise AnchorError('package directory %s not found' % pkgdir)
        for dirpath, dirnames, filenames in os.walk(pkgdir):
            dirnames[:] = sorted(d for d in dirnames if d != '__pycache__')
            for fn in sorted(filenames):
                full = os.path.join(dirpath, fn)
                rel = os.path.relpath(full, self.root)
                if fn.endswith('.pyx'):
                    self.not_analysed.append(rel)
                    continue
                if not fn.endswith('.py'):
                    continue
                modname = rel[:-3].replace(os.sep, '.')
                is_pkg = False
                if modname.endswith('.__init__'):
                    modname = modname[: -len('.__init__')]
                    is_pkg = True
                try:
                    with open(full, encoding='utf-8') as f:
                        src = f.read()
                    self._add_module(modname, full, rel, src, is_pkg)
                except SyntaxError as e:
                    self.parse_errors.append('%s: %s' % (rel, e))
        if extra_files:
            for modname, src in extra_files.items():
                self._add_module(modname, '<synthetic:%s>' % modname, '<synthetic:%s>' % modname, src, False)
        if self.parse_errors:
            raise AnalysisError('syntax errors: ' + '; '.join(self.parse_errors))
        for m in self.modules.values():
            for c in m.classes.values():
                c.bases = [self.resolve_expr(m, b) or ('?' + unparse(b)) for b in c.base_exprs]

    # ------------------------------------------------------------------ index
    def _add_module(self, modname, full, rel, src, is_pkg):
        m = Module(modname, full, rel, src, is_pkg)
        self.modules[modname] = m
        self._index_module(m)

    def _index_module(self, m: Module):
        for s in _iter_toplevel(m.tree.body):
            if isinstance(s, ast.Import):
                for a in s.names:
                    if a.asname:
                        m.imports[a.asname] = a.name
                    else:
                        top = a.name.split('.')[0]
                        m.imports[top] = top
            elif isinstance(s, ast.ImportFrom):
                base = s.module or ''
                if s.level:
                    parts = m.package.split('.')
                    if s.level > 1:
                        parts = parts[: -(s.level - 1)]
                    base = '.'.join(parts + ([s.module] if s.module else []))
                for a in s.names:
                    if a.name == '*':
                        m.star_imports.append(base)
                    else:
                        m.imports[a.asname or a.name] = base + '.' + a.name
            elif isinstance(s, (ast.FunctionDef, ast.AsyncFunctionDef)):
                f = self._index_func(s, m.name + '.' + s.name, m, None, None)
                m.functions[s.name] = f
            elif isinstance(s, ast.ClassDef):
                self._index_class(s, m)
            elif isinstance(s, ast.Assign):
                for t in s.targets:
                    if isinstance(t, ast.Name):
                        m.consts[t.id] = s.value
                        m.const_nodes[t.id] = s
                    elif isinstance(t, ast.Tuple) and isinstance(s.value, ast.Tuple) and len(t.elts) == len(s.value.elts):
                        for te, ve in zip(t.elts, s.value.elts):
                            if isinstance(te, ast.Name):
                                m.consts[te.id] = ve
                                m.const_nodes[te.id] = s
            elif isinstance(s, ast.AnnAssign) and isinstance(s.target, ast.Name) and s.value is not None:
                m.consts[s.target.id] = s.value
                m.const_nodes[s.target.id] = s

    def _index_class(self, node, m: Module, prefix=None):
        qual = (prefix or m.name) + '.' + node.name
        c = Class(node, qual, m)
        if prefix is None:
            m.classes[node.name] = c
        self.classes[qual] = c
        for s in _iter_toplevel(node.body):
            if isinstance(s, (ast.FunctionDef, ast.AsyncFunctionDef)):
                f = self._index_func(s, qual + '.' + s.name, m, c, None, register=False)
                if f.is_setter():
                    kind = [d for d in f.decorators if d.endswith('.setter') or d.endswith('.deleter')][0]
                    key = s.name + '.' + kind.rsplit('.', 1)[1]
                    c.accessors[key] = f
                    f.qual = qual + '.' + key
                    self.funcs[f.qual] = f
                else:
                    c.methods[s.name] = f
                    self.funcs[f.qual] = f
            elif isinstance(s, ast.Assign):
                for t in s.targets:
                    if isinstance(t, ast.Name):
                        c.attrs[t.id] = s.value
                        c.attr_nodes[t.id] = s
            elif isinstance(s, ast.AnnAssign) and isinstance(s.target, ast.Name):
                if s.value is not None:
                    c.attrs[s.target.id] = s.value
                    c.attr_nodes[s.target.id] = s
            elif isinstance(s, ast.ClassDef):
                self._index_class(s, m, prefix=qual)
        return c

    def _index_func(self, node, qual, m, cls, parent, register=True):
        f = Func(node, qual, m, cls, parent)
        if register:
            self.funcs[qual] = f
        m.all_funcs.append(f)
        # nested defs (directly nested at any statement depth, not inside
        # another def/class)
        for sub in _walk_no_nested(node):
            if isinstance(sub, (ast.FunctionDef, ast.AsyncFunctionDef)) and sub is not node:
                nf = self._index_func(sub, qual + '.' + sub.name, m, cls, f, register=False)
                # several nested defs may share a name (sync/async variants in
                # branches); keep the first under the plain key, all under #n
                if sub.name in f.nested:
                    k = 2
                    while '%s#%d' % (sub.name, k) in f.nested:
                        k += 1
                    nf.qual = '%s.%s#%d' % (qual, sub.name, k)
                    f.nested['%s#%d' % (sub.name, k)] = nf
                else:
                    f.nested[sub.name] = nf
                self.funcs[nf.qual] = nf
        return f

    # ---------------------------------------------------------------- lookups
    def module(self, name) -> Module:
        try:
            return self.modules[name]
        except KeyError:
            raise AnchorError('module %s not found' % name)

    def func(self, qual) -> Func:
        try:
            return self.funcs[qual]
        except KeyError:
            raise AnchorError('function %s not found' % qual)

    def cls(self, qual) -> Class:
        try:
            return self.classes[qual]
        except KeyError:
            raise AnchorError('class %s not found' % qual)

    def has_func(self, qual):
        return qual in self.funcs

    def all_functions(self, prefix='falcon.', exclude=('falcon.bench', 'falcon.cmd')) -> Iterator[Func]:
        for q, f in self.funcs.items():
            if q.startswith(prefix) and not any(q.startswith(e) for e in exclude):
                yield f

    # --------------------------------------------------------------- names
    def canonical(self, qual: str, _depth=0) -> str:
        """Follow re-exports: 'falcon.HTTPError' -> 'falcon.http_error.HTTPError'."""
        if _depth > 12 or not qual:
            return qual
        if qual in self.funcs or qual in self.classes or qual in self.modules:
            return qual
        head, _, tail = qual.rpartition('.')
        if not head:
            return qual
        chead = self.canonical(head, _depth + 1)
        if chead in self.modules:
            m = self.modules[chead]
            if tail in m.imports:
                return self.canonical(m.imports[tail], _depth + 1)
            if tail in m.functions or tail in m.classes or tail in m.consts:
                return chead + '.' + tail
            sub = chead + '.' + tail
            if sub in self.modules:
                return sub
            for star in m.star_imports:
                cand = self.canonical(star + '.' + tail, _depth + 1)
                sm = cand.rpartition('.')[0]
                if cand in self.funcs or cand in self.classes or cand in self.modules:
                    return cand
                if sm in self.modules and tail in self.modules[sm].consts:
                    return cand
            return chead + '.' + tail
        if chead in self.classes:
            return chead + '.' + tail
        return chead + '.' + tail

    def resolve_expr(self, m: Module, expr, func: Optional[Func] = None) -> Optional[str]:
        """Qualified name denoted by a Name/Attribute chain, or None."""
        if isinstance(expr, ast.Name):
            name = expr.id
            f = func
            while f is not None:
                if name in f.nested:
                    return f.nested[name].qual
                if name in _local_names(f):
                    return None
                f = f.parent
            if name in m.functions or name in m.classes or name in m.consts:
                return m.name + '.' + name
            if name in m.imports:
                return self.canonical(m.imports[name])
            for star in m.star_imports:
                cand = self.canonical(star + '.' + name)
                head = cand.rpartition('.')[0]
                if cand in self.funcs or cand in self.classes:
                    return cand
                if head in self.modules and name in self.modules[head].consts:
                    return cand
            if hasattr(builtins, name):
                return 'builtins.' + name
            return None
        if isinstance(expr, ast.Attribute):
            base = self.resolve_expr(m, expr.value, func)
            if base is None:
                return None
            return self.canonical(base + '.' + expr.attr)
        if isinstance(expr, ast.Subscript):
            # Generic[...] bases etc.
            return self.resolve_expr(m, expr.value, func)
        return None

    # ----------------------------------------------------------------- MRO
    def mro(self, cqual: str) -> List[str]:
        """C3 linearisation over package classes; external bases kept as
        opaque names at the position Python would put them."""
        if cqual in self._mro_cache:
            return self._mro_cache[cqual]
        c = self.classes.get(cqual)
        if c is None:
            return [cqual]
        seqs = [self.mro(b) for b in c.bases] + [list(c.bases)]
        res = [cqual]
        seqs = [list(s) for s in seqs if s]
        while seqs:
            for s in seqs:
                cand = s[0]
                if not any(cand in t[1:] for t in seqs):
                    break
            else:
                cand = seqs[0][0]  # inconsistent; degrade
            res.append(cand)
            seqs = [[x for x in s if x != cand] for s in seqs]
            seqs = [s for s in seqs if s]
        self._mro_cache[cqual] = res
        return res

    def lookup_method(self, cqual: str, name: str, after: Optional[str] = None) -> Optional[Func]:
        mro = self.mro(cqual)
        if after is not None and after in mro:
            mro = mro[mro.index(after) + 1:]
        for k in mro:
            c = self.classes.get(k)
            if c is not None and name in c.methods:
                return c.methods[name]
        return None

    def lookup_class_attr(self, cqual: str, name: str):
        for k in self.mro(cqual):
            c = self.classes.get(k)
            if c is not None and name in c.attrs:
                return c, c.attrs[name]
        return None, None

    def is_subclass(self, cqual: str, base: str) -> Optional[bool]:
        """True/False when decidable; None when an opaque base intervenes."""
        if cqual == base:
            return True
        mro = self.mro(cqual)
        if base in mro:
            return True
        # builtin-to-builtin
        cb = _builtin_class(cqual)
        bb = _builtin_class(base)
        if cb is not None and bb is not None:
            return issubclass(cb, bb)
        # package class with builtin ancestors
        opaque = False
        for k in mro:
            kb = _builtin_class(k)
            if kb is not None and bb is not None and issubclass(kb, bb):
                return True
            if k not in self.classes and kb is None:
                opaque = True
        return None if opaque else False

    def subclasses(self, base: str) -> List[str]:
        return [q for q in self.classes if self.is_subclass(q, base)]

    # --------------------------------------------------------------- callee
    def callee(self, func: Func, call: ast.Call) -> Union[Func, Class, str, None]:
        return self.resolve_callable(func, call.func)

    def resolve_callable(self, func: Func, fexpr) -> Union[Func, Class, str, None]:
        m = func.module
        if isinstance(fexpr, ast.Attribute):
            v = fexpr.value
            # self.m / cls.m
            if isinstance(v, ast.Name) and v.id in ('self', 'cls') and func_owner_class(func) is not None:
                meth = self.lookup_method(func_owner_class(func).qual, fexpr.attr)
                if meth is not None:
                    return meth
                return None
            # super().m
            if (
                isinstance(v, ast.Call)
                and isinstance(v.func, ast.Name)
                and v.func.id == 'super'
                and func_owner_class(func) is not None
            ):
                oc = func_owner_class(func)
                meth = self.lookup_method(oc.qual, fexpr.attr, after=oc.qual)
                if meth is not None:
                    return meth
                # external base: name it
                for b in self.mro(oc.qual)[1:]:
                    if b not in self.classes:
                        return b + '.' + fexpr.attr
                return None
        q = self.resolve_expr(m, fexpr, func)
        if q is None:
            return None
        if q in self.funcs:
            return self.funcs[q]
        if q in self.classes:
            return self.classes[q]
        # Class.method via canonical 'pkg.mod.Class.meth'
        head, _, tail = q.rpartition('.')
        if head in self.classes:
            meth = self.lookup_method(head, tail)
            if meth is not None:
                return meth
        # module-level alias of a function: X = other_func / X = factory(...)
        if head in self.modules and tail in self.modules[head].consts:
            val = self.modules[head].consts[tail]
            if isinstance(val, (ast.Name, ast.Attribute)):
                q2 = self.resolve_expr(self.modules[head], val)
                if q2 and q2 != q:
                    if q2 in self.funcs:
                        return self.funcs[q2]
                    if q2 in self.classes:
                        return self.classes[q2]
                    return q2
        return q

    def constructor(self, c: Class) -> Optional[Func]:
        return self.lookup_method(c.qual, '__init__')

    # ------------------------------------------------------------- folding
    def fold(self, m: Module, expr, cls: Optional[Class] = None, func: Optional[Func] = None, _depth=0):
        """Fold a constant expression; UNKNOWN if not a constant."""
        if _depth > 20:
            return UNKNOWN
        f = lambda e: self.fold(m, e, cls, func, _depth + 1)  # noqa: E731
        if isinstance(expr, ast.Constant):
            return expr.value
        if isinstance(expr, (ast.Tuple, ast.List, ast.Set)):
            vals = [f(e) for e in expr.elts]
            if any(v is UNKNOWN for v in vals):
                return UNKNOWN
            try:
                if isinstance(expr, ast.Tuple):
                    return tuple(vals)
                if isinstance(expr, ast.List):
                    return list(vals)
                return frozenset(vals)
            except TypeError:
                return UNKNOWN
        if isinstance(expr, ast.Dict):
            if any(k is None for k in expr.keys):
                return UNKNOWN
            ks = [f(k) for k in expr.keys]
            vs = [f(v) for v in expr.values]
            if any(x is UNKNOWN for x in ks):
                return UNKNOWN
            try:
                return {k: v for k, v in zip(ks, vs)}
            except TypeError:
                return UNKNOWN
        if isinstance(expr, ast.BinOp):
            l, r = f(expr.left), f(expr.right)
            if l is UNKNOWN or r is UNKNOWN:
                return UNKNOWN
            try:
                if isinstance(expr.op, ast.Add):
                    return l + r
                if isinstance(expr.op, ast.Sub):
                    return l - r
                if isinstance(expr.op, ast.Mult):
                    return l * r
                if isinstance(expr.op, ast.BitOr):
                    return l | r
                if isinstance(expr.op, ast.Mod) and isinstance(l, (int, float)):
                    return l % r
                if isinstance(expr.op, ast.Pow) and isinstance(l, int) and isinstance(r, int) and 0 <= r < 64:
                    return l ** r
                if isinstance(expr.op, ast.FloorDiv):
                    return l // r
            except Exception:
                return UNKNOWN
            return UNKNOWN
        if isinstance(expr, ast.UnaryOp):
            v = f(expr.operand)
            if v is UNKNOWN:
                return UNKNOWN
            try:
                if isinstance(expr.op, ast.USub):
                    return -v
                if isinstance(expr.op, ast.Not):
                    return not v
            except Exception:
                return UNKNOWN
            return UNKNOWN
        if isinstance(expr, ast.Call):
            fn = expr.func
            if isinstance(fn, ast.Name) and fn.id in ('frozenset', 'set', 'tuple', 'list') and not expr.keywords:
                if not expr.args:
                    return {'frozenset': frozenset(), 'set': frozenset(), 'tuple': (), 'list': []}[fn.id]
                if len(expr.args) == 1:
                    v = f(expr.args[0])
                    if v is UNKNOWN:
                        return UNKNOWN
                    try:
                        return {'frozenset': frozenset, 'set': frozenset, 'tuple': tuple, 'list': list}[fn.id](v)
                    except TypeError:
                        return UNKNOWN
            if isinstance(fn, ast.Name) and fn.id in ('len', 'str', 'int') and len(expr.args) == 1 and not expr.keywords:
                v = f(expr.args[0])
                if v is UNKNOWN:
                    return UNKNOWN
                try:
                    return {'len': len, 'str': str, 'int': int}[fn.id](v)
                except Exception:
                    return UNKNOWN
            if isinstance(fn, ast.Attribute) and fn.attr in ('encode', 'lower', 'upper') and not expr.args and not expr.keywords:
                v = f(fn.value)
                if isinstance(v, str):
                    return getattr(v, fn.attr)()
            if isinstance(fn, ast.Attribute) and fn.attr == 'union' and not expr.keywords:
                v = f(fn.value)
                others = [f(a) for a in expr.args]
                if isinstance(v, frozenset) and all(isinstance(o, (frozenset, tuple, list)) for o in others):
                    out = set(v)
                    for o in others:
                        out |= set(o)
                    return frozenset(out)
            return UNKNOWN
        if isinstance(expr, ast.Name):
            name = expr.id
            if func is not None:
                fn_ = func
                while fn_ is not None:
                    if name in _local_names(fn_):
                        return UNKNOWN
                    fn_ = fn_.parent
            if cls is not None and name in cls.attrs:
                return self.fold(m, cls.attrs[name], cls, None, _depth + 1)
            if name in m.consts:
                return self.fold(m, m.consts[name], None, None, _depth + 1)
            q = self.resolve_expr(m, expr)
            if q:
                return self._fold_qual(q, _depth + 1)
            return UNKNOWN
        if isinstance(expr, ast.Attribute):
            if isinstance(expr.value, ast.Name) and expr.value.id in ('self', 'cls') and cls is not None:
                c, val = self.lookup_class_attr(cls.qual, expr.attr)
                if val is not None:
                    return self.fold(c.module, val, c, None, _depth + 1)
                return UNKNOWN
            q = self.resolve_expr(m, expr, func)
            if q:
                v = self._fold_qual(q, _depth + 1)
                if v is not UNKNOWN:
                    return v
            # Enum-ish member .value
            if expr.attr == 'value':
                return f(expr.value)
            return UNKNOWN
        if isinstance(expr, ast.JoinedStr):
            parts = []
            for v in expr.values:
                if isinstance(v, ast.Constant):
                    parts.append(str(v.value))
                elif isinstance(v, ast.FormattedValue) and v.format_spec is None and v.conversion == -1:
                    x = f(v.value)
                    if x is UNKNOWN:
                        return UNKNOWN
                    parts.append(str(x))
                else:
                    return UNKNOWN
            return ''.join(parts)
        return UNKNOWN

    def _fold_qual(self, q: str, _depth=0):
        head, _, tail = q.rpartition('.')
        if head in self.modules:
            m = self.modules[head]
            if tail in m.consts:
                return self.fold(m, m.consts[tail], None, None, _depth + 1)
        if head in self.classes:
            c, val = self.lookup_class_attr(head, tail)
            if val is not None:
                return self.fold(c.module, val, c, None, _depth + 1)
        return UNKNOWN


# ---------------------------------------------------------------------------
# helpers
# ---------------------------------------------------------------------------


def func_owner_class(func: Func) -> Optional[Class]:
    """Class whose `self` is visible in func (closures inside methods see it)."""
    f = func
    while f is not None:
        if f.cls is not None:
            return f.cls
        f = f.parent
    return None


def _builtin_class(q: str):
    name = q.split('.')[-1] if q.startswith('builtins.') or '.' not in q else None
    if name is None:
        return _EXTERNAL_CLASSES.get(q)
    obj = getattr(builtins, name, None)
    return obj if isinstance(obj, type) else None


def _external_classes():
    import json
    import asyncio
    import uuid  # noqa: F401

    d = {
        'json.JSONDecodeError': json.JSONDecodeError,
        'json.decoder.JSONDecodeError': json.JSONDecodeError,
        'asyncio.CancelledError': asyncio.CancelledError,
        'asyncio.TimeoutError': asyncio.TimeoutError,
    }
    return d


_EXTERNAL_CLASSES = _external_classes()


def _walk_no_nested(node) -> Iterator[ast.AST]:
    """Walk the body of a def without entering nested defs/classes/lambdas
    (the nested def node itself is yielded)."""
    stack = list(ast.iter_child_nodes(node))
    while stack:
        n = stack.pop()
        yield n
        if isinstance(n, (ast.FunctionDef, ast.AsyncFunctionDef, ast.ClassDef, ast.Lambda)):
            continue
        stack.extend(ast.iter_child_nodes(n))


walk_no_nested = _walk_no_nested

_LOCALS_CACHE: Dict[int, frozenset] = {}


def _local_names(f: Func) -> frozenset:
    key = id(f.node)
    if key in _LOCALS_CACHE:
        return _LOCALS_CACHE[key]
    names = set(f.params())
    globs = set()
    for n in _walk_no_nested(f.node):
        if isinstance(n, ast.Name) and isinstance(n.ctx, (ast.Store, ast.Del)):
            names.add(n.id)
        elif isinstance(n, (ast.Global, ast.Nonlocal)):
            globs.update(n.names)
        elif isinstance(n, ast.ExceptHandler) and n.name:
            names.add(n.name)
        elif isinstance(n, (ast.Import, ast.ImportFrom)):
            for a in n.names:
                names.add((a.asname or a.name).split('.')[0])
    names -= globs
    names -= set(f.nested)  # nested defs are resolved, not opaque locals
    res = frozenset(names)
    _LOCALS_CACHE[key] = res
    return res


local_names = _local_names


def calls_in(node, include_nested=False) -> List[ast.Call]:
    out = []
    it = ast.walk(node) if include_nested else _walk_with_self(node)
    for n in it:
        if isinstance(n, ast.Call):
            out.append(n)
    return out


def _walk_with_self(node):
    yield node
    yield from _walk_no_nested(node)


def attr_chain(expr) -> Optional[Tuple[str, ...]]:
    """('self','_headers') for self._headers; None if not a pure chain."""
    parts = []
    while isinstance(expr, ast.Attribute):
        parts.append(expr.attr)
        expr = expr.value
    if isinstance(expr, ast.Name):
        parts.append(expr.id)
        return tuple(reversed(parts))
    return None


def dotted(expr) -> Optional[str]:
    c = attr_chain(expr)
    return '.'.join(c) if c else None


def is_name(expr, name) -> bool:
    return isinstance(expr, ast.Name) and expr.id == name


def const_str(expr) -> Optional[str]:
    if isinstance(expr, ast.Constant) and isinstance(expr.value, str):
        return expr.value
    return None


def stdlib_source(modname: str) -> Optional[str]:
    """Source text of a pure-Python stdlib module of the *running* interpreter
    (parsed, never imported for its behaviour)."""
    base = os.path.dirname(os.__file__)
    cand = os.path.join(base, *modname.split('.'))
    for p in (cand + '.py', os.path.join(cand, '__init__.py')):
        if os.path.isfile(p):
            with open(p, encoding='utf-8') as f:
                return f.read()
    return None
