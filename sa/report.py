"""Obligations, violations, known findings, evidence files, exit codes."""

from __future__ import annotations

import json
import os
import sys
import time
import traceback
from typing import Any, Dict, List, Optional

from .model import AnalysisError, Project, short, unparse

VERIF = os.path.dirname(os.path.dirname(os.path.abspath(__file__)))


def norm_construct(node_or_text) -> str:
    if isinstance(node_or_text, str):
        return ' '.join(node_or_text.split())
    return ' '.join(unparse(node_or_text).split())


class Violation:
    def __init__(self, prop, rule, func, construct, message, where, witness=None, runtime_witness=None):
        self.prop = prop
        self.rule = rule
        self.func = func
        self.construct = construct
        self.message = message
        self.where = where
        self.witness = witness or []
        self.runtime_witness = runtime_witness
        self.known: Optional[dict] = None

    @property
    def key(self):
        return '%s :: %s' % (self.func, self.construct)

    def to_json(self):
        return {
            'property': self.prop,
            'rule': self.rule,
            'function': self.func,
            'construct': self.construct,
            'key': self.key,
            'where': self.where,
            'message': self.message,
            'witness_path': self.witness,
            'predicted_runtime_witness': self.runtime_witness,
        }


class Run:
    def __init__(self, prop: str, tier: str, project: Project, evidence_dir: str, known_path: Optional[str] = None):
        self.prop = prop
        self.tier = tier
        self.project = project
        self.evidence_dir = evidence_dir
        self.t0 = time.time()
        self.obligations: List[dict] = []
        self.violations: List[Violation] = []
        self.errors: List[str] = []
        self.assumptions: List[str] = []
        self.samples: List[Any] = []
        self.rule_stats: Dict[str, Dict[str, Any]] = {}
        self.analysed_funcs: set = set()
        self.cfg_nodes = 0
        self.cfg_edges = 0
        self.calls_resolved = 0
        self.calls_unresolved = 0
        self.extra: Dict[str, Any] = {}
        self.current_rule = '?'
        self.known = _load_known(known_path or os.path.join(VERIF, 'known_findings.json'), prop)
        self._seen_cfg = set()

    # ---------------------------------------------------------------- rules
    def rule(self, rid: str, fn, doc: str = '', floor: int = 1):
        """Run one rule; AnalysisError -> analysis error (exit 2)."""
        self.current_rule = rid
        st = self.rule_stats.setdefault(rid, {'doc': doc, 'instances': 0, 'violations': 0, 'floor': floor})
        try:
            fn(self)
            if st['instances'] < floor:
                raise AnalysisError(
                    'rule %s matched %d instance(s), below the floor %d confirmed on the reference tree '
                    '(anchor moved or idiom changed)' % (rid, st['instances'], floor)
                )
        except AnalysisError as e:
            self.errors.append('%s %s: %s' % (self.prop, rid, e))
            st['error'] = str(e)
        except RecursionError as e:  # pragma: no cover
            self.errors.append('%s %s: recursion limit (%s)' % (self.prop, rid, e))
        except Exception as e:
            tb = traceback.format_exc(limit=6)
            self.errors.append('%s %s: internal error %s: %s\n%s' % (self.prop, rid, type(e).__name__, e, tb))
            st['error'] = '%s: %s' % (type(e).__name__, e)

    def use(self, func):
        """Record that a function was analysed (and its CFG size if built)."""
        self.analysed_funcs.add(func.qual)

    def use_cfg(self, cfg):
        self.analysed_funcs.add(cfg.func.qual)
        if id(cfg) not in self._seen_cfg:
            self._seen_cfg.add(id(cfg))
            self.cfg_nodes += len(cfg.reachable_ids)
            self.cfg_edges += cfg.n_edges()

    def ok(self, what: str, where: str = '', construct=None):
        """A discharged obligation."""
        st = self.rule_stats[self.current_rule]
        st['instances'] += 1
        ob = {'rule': self.current_rule, 'what': what, 'where': where, 'verdict': 'holds'}
        if construct is not None:
            ob['construct'] = norm_construct(construct)[:200]
        self.obligations.append(ob)

    def fail(self, what: str, func, construct, where: str = '', witness=None, runtime_witness=None):
        """A violated obligation."""
        st = self.rule_stats[self.current_rule]
        st['instances'] += 1
        st['violations'] += 1
        fq = func if isinstance(func, str) else func.qual
        cons = norm_construct(construct)
        if not where and not isinstance(func, str):
            where = func.loc(construct if hasattr(construct, 'lineno') else None)
        v = Violation(self.prop, self.current_rule, fq, cons, what, where, witness, runtime_witness)
        for k in self.known:
            if k.get('rule') == v.rule and k.get('key') == v.key and k.get('status') == 'known':
                v.known = k
        self.violations.append(v)
        self.obligations.append({'rule': self.current_rule, 'what': what, 'where': where, 'construct': cons[:200],
                                 'verdict': 'known-finding' if v.known else 'VIOLATED'})

    def check(self, cond: bool, what: str, func, construct, where: str = '', witness=None, runtime_witness=None):
        if cond:
            self.ok(what, where or (func.loc(construct if hasattr(construct, 'lineno') else None) if not isinstance(func, str) else ''), construct)
        else:
            self.fail(what, func, construct, where, witness, runtime_witness)
        return cond

    def assume(self, text: str):
        if text not in self.assumptions:
            self.assumptions.append(text)

    def sample(self, obj):
        if len(self.samples) < 12:
            self.samples.append(obj)

    # --------------------------------------------------------------- finish
    def finish(self) -> int:
        wall = time.time() - self.t0
        os.makedirs(self.evidence_dir, exist_ok=True)
        vdir = os.path.join(self.evidence_dir, '%s.violations' % self.prop)
        new = [v for v in self.violations if v.known is None]
        known = [v for v in self.violations if v.known is not None]
        # replay files
        if os.path.isdir(vdir):
            for fn in os.listdir(vdir):
                try:
                    os.unlink(os.path.join(vdir, fn))
                except OSError:
                    pass
        lines = []
        for i, v in enumerate(new):
            os.makedirs(vdir, exist_ok=True)
            p = os.path.join(vdir, '%d.json' % i)
            with open(p, 'w') as f:
                json.dump(v.to_json(), f, indent=1)
            lines.append('VIOLATION property=%s replay=%s' % (self.prop, p))
            lines.append('  rule %s at %s in %s: %s' % (v.rule, v.where, v.func, v.message))
            lines.append('  construct: %s' % v.construct[:200])
            for w in v.witness[:16]:
                lines.append('    | %s' % w)
        for v in known:
            lines.append('KNOWN-FINDING: property=%s rule=%s %s [%s] %s' % (self.prop, v.rule, v.known.get('what', v.message), v.where, v.construct[:120]))
        for e in self.errors:
            lines.append('ANALYSIS-ERROR %s' % e)
        n_ob = len(self.obligations)
        n_ok = sum(1 for o in self.obligations if o['verdict'] == 'holds')
        distinct = len({(o['rule'], o.get('where', ''), o.get('construct', ''), o['what']) for o in self.obligations})
        samples = self.samples or self.obligations[:6]
        if not samples:
            samples = [{'note': 'no obligations generated'}]
        ev = {
            'property_id': self.prop,
            'tier': self.tier,
            'seed': int(os.environ.get('VERIF_SEED', '0') or 0),
            'level': 'other',
            'coverage': {
                'explanation': (
                    'Static analysis of the source text under %s (nothing imported or executed). '
                    'Each obligation is one rule instance (a structural necessary condition of the property) '
                    'evaluated on a specific construct; see rules/obligation_list. The check decides these '
                    'clauses, not the behavioural statement as a whole.' % os.path.join(self.project.root, 'falcon')
                ),
                'obligations': n_ob,
                'discharged': n_ok,
                'evaluations': max(n_ob, 1),
                'distinct_nontrivial': distinct,
                'rule': 'one evaluation per (rule, construct) pair found by the rule enumerators on the current tree; '
                        'distinct = distinct (rule, location, construct, statement) tuples',
                'samples': samples,
                'exhaustive': False,
                'files_parsed': len(self.project.modules),
                'functions_indexed': len(self.project.funcs),
                'functions_analysed': sorted(self.analysed_funcs),
                'cfg_nodes': self.cfg_nodes,
                'cfg_edges': self.cfg_edges,
                'rules': self.rule_stats,
                'obligation_list': self.obligations[:400],
                'known_findings_matched': [v.to_json() for v in known],
                'new_violations': [v.to_json() for v in new],
                'analysis_errors': self.errors,
                'not_analysed': self.project.not_analysed,
                'checker_cmd': './check %s --tier %s' % (self.prop, self.tier),
                'trusted_base': ['CPython ast module', 'the rule tables in sa/rules/%s.py' % self.prop.lower()],
            },
            'assumptions': self.assumptions,
            'wall_s': round(wall, 3),
            'violations': len(new),
        }
        ev['coverage'].update(self.extra)
        with open(os.path.join(self.evidence_dir, '%s.json' % self.prop), 'w') as f:
            json.dump(ev, f, indent=1, default=str)
        summary = '%s %s: %d obligations, %d hold, %d known finding(s), %d new violation(s), %d analysis error(s); %.2fs' % (
            self.prop, self.tier, n_ob, n_ok, len(known), len(new), len(self.errors), wall)
        lines.append(summary)
        print('\n'.join(lines))
        sys.stdout.flush()
        if new:
            return 1
        if self.errors:
            return 2
        return 0


def _load_known(path, prop) -> List[dict]:
    if not os.path.isfile(path):
        return []
    try:
        with open(path) as f:
            data = json.load(f)
    except Exception:
        return []
    return [e for e in data.get('findings', []) if e.get('property') == prop]
