"""Event alphabet over the two App.__call__ implementations (shared by C03,
C04, C05, C06).  Roles are identified by def-use from contract names, never
by position:

* the three prepared stacks are the components of the tuple unpacked from
  ``self._middleware`` (positions 0/1/2 = request / resource / response);
* the responder/params/resource locals are the components of the tuple
  unpacked from ``self._get_responder(...)``;
* the success flag is the 4th positional argument of the process_response
  call.
"""

from __future__ import annotations

import ast
from typing import Dict, List, Optional, Set

from ..cfg import CFG, Node, cfg_of
from ..model import AnchorError, Func, Project, UnknownIdiom, dotted, short
from .common import implied, is_attr, is_self_attr, mentions, nodes_within, strip_await, walk_self

WSGI_CALL = 'falcon.app.App.__call__'
ASGI_CALL = 'falcon.asgi.app.App.__call__'


class AppFlow:
    def __init__(self, project: Project, qual: str):
        self.p = project
        self.func = project.func(qual)
        self.cfg = cfg_of(self.func, project, refined=True)  # path-sensitive for pure control flags (try/else -> flag refactorings)
        self.is_asgi = self.func.is_async
        fn = self.func.node
        self.req_stack = self.rsrc_stack = self.resp_stack = None
        self.responder = self.params = self.resource = None
        self.route_stmt = None
        for n in walk_self(fn):
            if isinstance(n, ast.Assign) and len(n.targets) == 1 and isinstance(n.targets[0], ast.Tuple):
                t = n.targets[0]
                v = strip_await(n.value)
                if is_self_attr(v, '_middleware') and len(t.elts) == 3 and all(isinstance(e, ast.Name) for e in t.elts):
                    self.req_stack, self.rsrc_stack, self.resp_stack = [e.id for e in t.elts]
                if (isinstance(v, ast.Call) and dotted(v.func) == 'self._get_responder' and len(t.elts) == 4
                        and all(isinstance(e, ast.Name) for e in t.elts[:3])):
                    self.responder, self.params, self.resource = [e.id for e in t.elts[:3]]
                    self.route_stmt = n
        if self.req_stack is None:
            # the prepared stacks may also be picked by index: `mw = self._middleware; a = mw[0]; b = mw[1]; c = mw[2]`
            # (or `self._middleware[i]` directly)
            holders = {x.targets[0].id for x in walk_self(fn) if isinstance(x, ast.Assign) and len(x.targets) == 1
                       and isinstance(x.targets[0], ast.Name) and is_self_attr(strip_await(x.value), '_middleware')}
            by_idx = {}
            for x in walk_self(fn):
                if isinstance(x, ast.Assign) and len(x.targets) == 1 and isinstance(x.targets[0], ast.Name) \
                        and isinstance(x.value, ast.Subscript) and isinstance(x.value.slice, ast.Constant) \
                        and isinstance(x.value.slice.value, int) \
                        and (is_self_attr(x.value.value, '_middleware')
                             or (isinstance(x.value.value, ast.Name) and x.value.value.id in holders)):
                    by_idx.setdefault(x.value.slice.value, set()).add(x.targets[0].id)
            if sorted(by_idx) == [0, 1, 2] and all(len(v) == 1 for v in by_idx.values()):
                self.req_stack, self.rsrc_stack, self.resp_stack = [next(iter(by_idx[i])) for i in (0, 1, 2)]
        if None in (self.req_stack, self.responder):
            raise AnchorError('%s: cannot find the unpacking of self._middleware / self._get_responder()' % qual)
        # loops
        self.req_loops: List[ast.AST] = []
        self.rsrc_loops: List[ast.AST] = []
        self.resp_loops: List[ast.AST] = []
        def _once_bound(name):
            binds = [a for a in walk_self(fn) if isinstance(a, ast.Assign) and len(a.targets) == 1
                     and isinstance(a.targets[0], ast.Name) and a.targets[0].id == name]
            stores = sum(1 for x in walk_self(fn) if isinstance(x, ast.Name) and x.id == name and isinstance(x.ctx, (ast.Store, ast.Del)))
            return binds[0].value if len(binds) == 1 and stores == 1 else None

        def _iter_expr(it):
            # a loop may run over a local bound once to the stack expression (`stack = a or b; for m in stack:`)
            if isinstance(it, ast.Name) and it.id not in (self.req_stack, self.rsrc_stack, self.resp_stack):
                v = _once_bound(it.id)
                if v is not None:
                    return v
            return it

        self._iter_expr = _iter_expr
        for n in walk_self(fn):
            if isinstance(n, (ast.For, ast.AsyncFor)):
                names = {x.id for x in walk_self(_iter_expr(n.iter)) if isinstance(x, ast.Name)}
                if self.req_stack in names:
                    self.req_loops.append(n)
                elif self.rsrc_stack in names:
                    self.rsrc_loops.append(n)
                elif self.resp_stack in names:
                    self.resp_loops.append(n)
        if not self.req_loops or not self.rsrc_loops or len(self.resp_loops) != 1:
            raise AnchorError('%s: middleware loops not found (req=%d rsrc=%d resp=%d)' % (
                qual, len(self.req_loops), len(self.rsrc_loops), len(self.resp_loops)))
        # callee names of the loop variables
        self.req_fn: Set[str] = set()
        self.dep_resp_var: Set[str] = set()
        for l in self.req_loops:
            if isinstance(l.target, ast.Name):
                self.req_fn.add(l.target.id)
            elif isinstance(l.target, ast.Tuple) and len(l.target.elts) == 2 and all(isinstance(e, ast.Name) for e in l.target.elts):
                self.req_fn.add(l.target.elts[0].id)
                self.dep_resp_var.add(l.target.elts[1].id)
            else:
                raise UnknownIdiom('%s: request loop target %s' % (qual, short(l.target)))
        self.rsrc_fn = {l.target.id for l in self.rsrc_loops if isinstance(l.target, ast.Name)}
        rl = self.resp_loops[0]
        if not isinstance(rl.target, ast.Name):
            raise UnknownIdiom('%s: response loop target' % qual)
        self.resp_fn = rl.target.id
        # success flag = 4th positional arg of the PRESP call
        self.flag = None
        for c in walk_self(rl):
            if isinstance(c, ast.Call) and isinstance(c.func, ast.Name) and c.func.id == self.resp_fn and len(c.args) >= 4:
                if isinstance(c.args[3], ast.Name):
                    self.flag = c.args[3].id
        if self.flag is None:
            raise AnchorError('%s: process_response call with 4 positional args not found' % qual)
        # dependent stack: the other name in the response loop's iter
        self.dep_stack = None
        for x in walk_self(self._iter_expr(rl.iter)):
            if isinstance(x, ast.Name) and x.id != self.resp_stack:
                self.dep_stack = x.id
        # render region: the try statement containing the body rendering
        self.render_try = None
        for n in walk_self(fn):
            if isinstance(n, ast.Try):
                for c in walk_self(ast.Module(body=n.body, type_ignores=[])):
                    if isinstance(c, ast.Call) and isinstance(c.func, ast.Attribute) and c.func.attr in ('_get_body', 'render_body'):
                        self.render_try = n
        if self.render_try is None:
            raise AnchorError('%s: body-rendering try statement not found' % qual)
        self.render_nodes = nodes_within(self.cfg, self.render_try.body)

    # ------------------------------------------------------------ labelling
    def _is_complete(self, e):
        if isinstance(e, ast.Name):
            ok = getattr(self, '_cs_nodes', None)
            if ok is None:
                ok = self._cs_nodes = {id(x) for name, tests in self._complete_snapshots().items() for t in tests
                                       for x in ast.walk(t) if isinstance(x, ast.Name) and x.id == name}
            return id(e) in ok
        return isinstance(e, ast.Attribute) and e.attr == 'complete'

    def _handle_locals(self):
        """locals that only ever hold the outcome of `self._handle_exception(...)`:
        `handled = self._handle_exception(...); if not handled: raise` reads like
        `if not self._handle_exception(...): raise`"""
        hl = getattr(self, '_hl', None)
        if hl is None:
            good, bad = set(), set()
            for a in walk_self(self.func.node):
                tg, val = [], None
                if isinstance(a, ast.Assign):
                    tg, val = a.targets, a.value
                elif isinstance(a, (ast.AnnAssign, ast.AugAssign, ast.NamedExpr)):
                    tg, val = [a.target], getattr(a, 'value', None)
                elif isinstance(a, (ast.For, ast.AsyncFor)):
                    tg, val = [a.target], None
                for t in tg:
                    for x in ast.walk(t):
                        if isinstance(x, ast.Name):
                            v = strip_await(val) if val is not None else None
                            if isinstance(a, ast.Assign) and isinstance(t, ast.Name) and isinstance(v, ast.Call) \
                                    and dotted(v.func) == 'self._handle_exception':
                                good.add(x.id)
                            else:
                                bad.add(x.id)
            hl = self._hl = good - bad
        return hl

    def _is_handle(self, e):
        e = strip_await(e)
        if isinstance(e, ast.Name) and e.id in self._handle_locals():
            return True
        return isinstance(e, ast.Call) and dotted(e.func) == 'self._handle_exception'

    def _complete_snapshots(self):
        """{local name: [test statements]}: `c = resp.complete` immediately followed (next statement of the same block)
        by an `if`/`while` whose test reads c, c bound nowhere else: at that test c IS resp.complete (nothing ran in
        between).  A snapshot tested any later is not looked through."""
        cs = getattr(self, '_cs', None)
        if cs is None:
            cs = {}
            stores = {}
            for x in walk_self(self.func.node):
                if isinstance(x, ast.Name) and isinstance(x.ctx, (ast.Store, ast.Del)):
                    stores[x.id] = stores.get(x.id, 0) + 1
            for blk in walk_self(self.func.node):
                for field in ('body', 'orelse', 'finalbody'):
                    stmts = getattr(blk, field, None)
                    if not isinstance(stmts, list):
                        continue
                    for a, b in zip(stmts, stmts[1:]):
                        if isinstance(a, ast.Assign) and len(a.targets) == 1 and isinstance(a.targets[0], ast.Name) \
                                and isinstance(a.value, ast.Attribute) and a.value.attr == 'complete' and stores.get(a.targets[0].id) == 1 \
                                and isinstance(b, (ast.If, ast.While)):
                            cs.setdefault(a.targets[0].id, []).append(b.test)
            self._cs = cs
        return cs

    def _is_resource(self, e):
        return isinstance(e, ast.Name) and e.id == self.resource

    def _is_indep(self, e):
        return is_self_attr(e, '_independent_middleware')

    def labels(self, n: Node) -> List[str]:
        out: List[str] = []
        if n.kind == 'join':
            if n.stmt is self.render_try and not n.copy:
                out.append('RENDER')
            return out
        if n.kind == 'iter':
            return out
        for x in n.walk():
            if isinstance(x, ast.Compare) and any(is_self_attr(c, '_META_METHODS') for c in x.comparators):
                out.append('META')
            if isinstance(x, ast.Call):
                f = x.func
                if isinstance(f, ast.Name):
                    if f.id in self.req_fn:
                        out.append('^REQ')
                    elif f.id in self.rsrc_fn:
                        out.append('^RSRC')
                    elif f.id == self.resp_fn:
                        out.append('^PRESP')
                    elif f.id == self.responder:
                        out.append('^RESP')
                    elif f.id == 'start_response':
                        out.append('START')
                    elif f.id == 'send':
                        out.append('SEND')
                d = dotted(f)
                if d == 'self._get_responder':
                    out.append('^ROUTE')
                elif d == 'self._handle_exception':
                    out.append('^HANDLE')
                elif isinstance(f, ast.Attribute) and f.attr in ('insert', 'append', 'appendleft') and isinstance(f.value, ast.Name) and f.value.id == self.dep_stack:
                    if (f.attr == 'insert' and x.args and isinstance(x.args[0], ast.Constant) and x.args[0].value == 0) \
                            or (f.attr == 'appendleft' and len(x.args) == 1):  # deque.appendleft(x) is insert(0, x)
                        out.append('PUSH_HEAD')
                    else:
                        out.append('PUSH_OTHER')
        if n.kind == 'stmt' and isinstance(n.ast, (ast.Assign, ast.AnnAssign)):
            tgts = n.ast.targets if isinstance(n.ast, ast.Assign) else [n.ast.target]
            if any(isinstance(t, ast.Name) and t.id == self.flag for t in tgts):
                v = n.ast.value
                while isinstance(v, ast.UnaryOp) and isinstance(v.op, ast.Not) and isinstance(v.operand, ast.Constant) \
                        and isinstance(v.operand.value, bool):
                    v = ast.Constant(value=not v.operand.value)  # `not True` / `not False` folded
                if isinstance(v, ast.Constant) and v.value is True:
                    out.append('OK')
                elif isinstance(v, ast.Constant) and v.value is False:
                    out.append('FAIL')
                else:
                    out.append('FLAG?')
        # order: keep source order of events within a node by position
        return out

    def edge_label(self, a: int, b: int, l: str) -> Optional[str]:
        n = self.cfg.node(a)
        if l == 'exc':
            return 'X'
        if n.kind == 'test' and l in ('T', 'F'):
            truth = l == 'T'
            evs = []
            r = implied(n.ast, truth, self._is_complete)
            if r is not None:
                evs.append('CPL+' if r else 'CPL-')
            elif mentions(n.ast, self._is_complete):
                evs.append('CPL?')
            r = implied(n.ast, truth, self._is_handle)
            if r is not None:
                evs.append('HOK' if r else 'HFAIL')
            r = implied(n.ast, truth, self._is_resource)
            if r is not None:
                evs.append('RES+' if r else 'RES-')
            r = implied(n.ast, truth, self._is_indep)
            if r is not None:
                evs.append('IND+' if r else 'IND-')
            if evs:
                return '.'.join(evs)
        return None

    def nodes_labelled(self, label: str) -> List[int]:
        out = []
        for n in self.cfg.live_nodes():
            if n.kind in ('entry', 'exit', 'xexit'):
                continue
            labs = [l.lstrip('^') for l in self.labels(n)]
            if label in labs:
                out.append(n.id)
        return out

    def edges_labelled(self, part: str):
        out = []
        for n in self.cfg.live_nodes():
            for (y, l) in self.cfg.succ[n.id]:
                lab = self.edge_label(n.id, y, l)
                if lab and part in lab.split('.'):
                    out.append((n.id, y, l))
        return out
