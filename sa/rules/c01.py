"""C01 - compiled router (DESIGN.md section 3, C01).

The rules analyse the *generator* (`CompiledRouter.add_route`, `_generate_ast`,
`_compile`, the `_Cx*` constructs), never the generated finder.

R1  atomic rejection: typestate mutate -> undo -> reject in add_route's nested
    helpers, one run per rejection site; validation precedes the first mutation.
R2  sort key (lambda or any plain def, several returns allowed) abstractly
    evaluated on the node kinds derived from CompiledRouterNode.__init__ for
    0/1/2/3+ field expressions: literal; single field = whole segment; single
    field with literal text around it (is_complex, num_fields == 1); multi-field.
    Required: literal < every complex kind < plain single field.
R3  param-writing constructs (found from their templates) only via the stack;
    emission loop <-> route return pairing; object-level alias analysis of the
    per-sibling stack (a `.copy()` is demanded only where the callee extends
    its argument); a construct pushed on the stack (rendered only at the
    matched route's return) reads only the finder's parameters and generated
    variables whose name is unique per node -- "shared vs unique" is read off
    the construct classes (fixed template text / attribute not built from a
    constructor argument = shared).
R4  path[i] constructs: i <= level, emitted under this level's length guard
    (must-dataflow along the `parent = ...` chain).
R5  idx = len(T) / T.append pairing; idx -> construct -> template -> generated
    table name -> header position -> argument of every self._find(...) call;
    _compile hands over and keeps the objects it filled.
R6  fixed generated names (match/groups/fragment) assigned before read;
    constructs whose generated variable name is referenced are emitted.
    (Placement of the *numbered* variables across levels is not decided.)
R7  conflicts_with evaluated on the 3x3 kinds (multi x multi not judged).  The (single, single) cell must be an
    unconditional conflict: when it is not a constant of the kinds it is re-read with two abstract values (text of a
    segment / a test on such text); an answer decided by the text is a violation, an unreadable one stays exit 2.
R8  fast_return update region evaluated on all sibling sets of size <= 3;
    `return None` constructs only under the flag.
R9  every value a construct's src() renders into a line of the generated
    source (between quotes, in a comment, in code position) is an int / a
    generated name / a constant, template text whose validator excludes what
    the position cannot take, or goes through !r; each validator relied on
    (identifier pattern incl. its end anchor, converter-map keys, whitespace
    outside field expressions per segment) is its own obligation.
R3(d) also decides that the *numbered* generated variables (field_value_N, dict_match_N, dict_groups_N) are unique
    along a root-to-leaf path: N is read from its creation site and must be len(<parameter stack>) + k (same k at every
    site of one name template; `enumerate(.., start=len(stack) + k)` with an unconditional push per iteration counts);
    an index restarted per node (literal, enumerate/range from a constant, a local counter) is a violation.
R9  also reads a hand-written escape (`<attr>.replace(c, c')...`, one-character patterns) fed to a placeholder: the chain is
    evaluated on {backslash, ', ", CR, LF, ordinary characters}; between quotes a class is handled iff quote+image+quote
    denotes the character again (ast.literal_eval).  repr(<attr>) fed to a plain placeholder counts as !r.
R18 each group of the field-expression pattern (fname / cname / argstr) is `<class>*` whose class excludes exactly the
    delimiters that end the group (table FIELD_GROUP_EXCLUDES): text the pattern does not match is not rejected anywhere,
    it silently becomes a literal segment.
R13 built-in converters (BUILTIN table): __init__ + convert() are interpreted concretely on a probe set per converter
    and documented option set and compared with the tabled documented behaviour (conversion primitive, documented
    options, whitespace screening of int/float): an additional veto in front of the primitive, a dropped veto, another
    value or an exception are violations; vetoes implied by the primitive's own rejection are silent.
R14 find() is interpreted up to the finder call on probe paths: the finder gets uri.lstrip('/').split('/') unchanged.
R3-R5, R10, R14 locate the finder call `self._find(...)` directly or through one
    same-class helper (`*tables` / local aliases of router attributes resolved).
"""

from __future__ import annotations

import ast
from typing import Dict, List, Optional, Set, Tuple

from .. import flow
from ..cfg import cfg_of
from ..escape import Escape
from ..model import AnchorError, Class, Func, UnknownIdiom, dotted, short, walk_no_nested
from . import c01_helpers as H
from .common import ancestors, enclosing_map, single, walk_self

ROUTER = H.ROUTER
NODE = H.NODE

LIST_MUTATORS = {'append', 'insert', 'remove', 'extend', 'clear', 'pop', 'sort', 'reverse', 'update', 'setdefault',
                 'add', 'discard', 'popitem', '__setitem__', '__delitem__'}


# ---------------------------------------------------------------------------
# R1 atomic rejection
# ---------------------------------------------------------------------------

def _escape(p) -> Escape:
    """E5 instance; the one path-insensitive artefact on this code is checked
    before it is exempted (DESIGN 1.3 item 7)."""
    site_exempt = {}
    if p.has_func(ROUTER + '._compile'):
        comp = p.func(ROUTER + '._compile')
        # `scope['find']`: `scope` is E5's name for the ASGI scope table; here it
        # is exempt only if it is a local bound to a dict display in this function
        defs = [n for n in walk_self(comp.node)
                if isinstance(n, (ast.Assign, ast.AnnAssign))
                and any(isinstance(t, ast.Name) and t.id == 'scope' for t in (n.targets if isinstance(n, ast.Assign) else [n.target]))]
        def empty_or_display(v) -> bool:
            # a dict display, or `dict()` with no arguments (the empty display by another spelling)
            return isinstance(v, ast.Dict) or (isinstance(v, ast.Call) and isinstance(v.func, ast.Name) and v.func.id == 'dict'
                                               and not v.args and not v.keywords and p.resolve_callable(comp, v.func) in ('builtins.dict', None))

        if defs and all(empty_or_display(d.value) for d in defs):
            for n in walk_self(comp.node):
                if isinstance(n, ast.Subscript) and isinstance(n.value, ast.Name) and n.value.id == 'scope':
                    site_exempt[(comp.qual, ' '.join(short(n, 200).split()))] = \
                        'local dict filled by exec() of the generated source, not a request table'
    # `next(it, default)`: with a default, exhaustion answers the default -- StopIteration (E5's primitive for builtins.next)
    # does not leave the call.  The one-argument form stays a raising primitive.
    mod = p.modules.get(ROUTER.rsplit('.', 1)[0])
    for g in (mod.all_funcs if mod is not None else ()):
        for n in walk_self(g.node):
            if isinstance(n, ast.Call) and isinstance(n.func, ast.Name) and n.func.id == 'next' and len(n.args) == 2 and not n.keywords \
                    and not any(isinstance(a, ast.Starred) for a in n.args) and p.resolve_callable(g, n.func) in ('builtins.next', None):
                site_exempt[(g.qual, ' '.join(short(n, 200).split()))] = 'next() with a default does not raise StopIteration'
    return Escape(p, site_exempt=site_exempt)


def _call_summary(p, E: Escape, f: Func, call: ast.Call) -> dict:
    t = p.callee(f, call)
    if isinstance(t, Func):
        return E.summary(t)
    if isinstance(t, Class):
        init = p.constructor(t)
        return E.summary(init, t) if init is not None else {}
    return {}


def _fresh_names(p, f: Func, cls_qual: str) -> Set[str]:
    """Locals every binding of which is a construction `cls_qual(...)`."""
    binds: Dict[str, List[Optional[ast.AST]]] = {}
    for n in walk_self(f.node):
        if isinstance(n, ast.Assign):
            for t in n.targets:
                for nm in H._target_names(t):
                    binds.setdefault(nm, []).append(n.value if isinstance(t, ast.Name) else None)
        elif isinstance(n, (ast.AnnAssign, ast.AugAssign)) and isinstance(n.target, ast.Name):
            binds.setdefault(n.target.id, []).append(n.value if isinstance(n, ast.AnnAssign) else None)
        elif isinstance(n, (ast.For, ast.AsyncFor)):
            for nm in H._target_names(n.target):
                binds.setdefault(nm, []).append(None)
        elif isinstance(n, ast.NamedExpr) and isinstance(n.target, ast.Name):
            binds.setdefault(n.target.id, []).append(None)
    out = set()
    for nm, vals in binds.items():
        if nm in f.params():
            continue
        if vals and all(isinstance(v, ast.Call) and _is_class(p.callee(f, v), cls_qual) for v in vals):
            out.add(nm)
    return out


def _is_class(t, qual) -> bool:
    return isinstance(t, Class) and t.qual == qual


def _local_displays(f: Func) -> Set[str]:
    """Locals bound only to list/dict/set displays or comprehensions
    (containers created by this activation; writes to them are not writes to
    the route tree)."""
    binds: Dict[str, List[bool]] = {}
    for n in walk_self(f.node):
        if isinstance(n, (ast.Assign, ast.AnnAssign)):
            targets = n.targets if isinstance(n, ast.Assign) else [n.target]
            for t in targets:
                for nm in H._target_names(t):
                    ok = isinstance(t, ast.Name) and isinstance(n.value, (ast.List, ast.Dict, ast.Set, ast.ListComp, ast.DictComp, ast.SetComp))
                    binds.setdefault(nm, []).append(ok)
        elif isinstance(n, (ast.For, ast.AsyncFor)):
            for nm in H._target_names(n.target):
                binds.setdefault(nm, []).append(False)
    return {nm for nm, oks in binds.items() if all(oks) and nm not in f.params()}


def _param_uses(callee: Func, pos: int) -> Set[str]:
    """How the callee uses its positional parameter `pos`: subset of
    {'read', 'write', 'escape'} ('write' = stores to / mutates the object,
    'escape' = the object itself may be stored or passed on)."""
    a = callee.node.args
    params = [x.arg for x in a.posonlyargs + a.args]
    if callee.cls is not None and params and params[0] in ('self', 'cls'):
        params = params[1:]
    if pos >= len(params):
        return {'escape'}
    name = params[pos]
    parent = enclosing_map(callee.node)
    out: Set[str] = set()
    for n in ast.walk(callee.node):
        if isinstance(n, ast.Name) and n.id == name:
            if not isinstance(n.ctx, ast.Load):
                out.add('escape')
                continue
            par = parent.get(id(n))
            if isinstance(par, ast.Attribute) and par.value is n:
                if isinstance(par.ctx, ast.Load):
                    up = parent.get(id(par))
                    if isinstance(up, ast.Call) and up.func is par and par.attr == 'setdefault':
                        # `d.setdefault(k, v)` is the guarded item store `if k not in d: d[k] = v` (dict only): judged like the
                        # subscript store `d[k] = v`, which is 'escape' below (the responder table is filled in before it is
                        # attached to a node; a store into it is not a route-tree event)
                        out.add('escape')
                    elif isinstance(up, ast.Call) and up.func is par and par.attr in LIST_MUTATORS:
                        out.add('write')
                    else:
                        out.add('read')
                else:
                    out.add('write')
            elif isinstance(par, ast.Compare):
                out.add('read')
            else:
                out.add('escape')
    return out


class _St:
    """Typestate value (a plain tuple would trip the %-formatting in
    flow.typestate's exit messages)."""

    __slots__ = ('out', 'ovw', 'inflight')

    def __init__(self, out=frozenset(), ovw=frozenset(), inflight=False):
        self.out, self.ovw, self.inflight = out, ovw, inflight

    def _k(self):
        return (self.out, self.ovw, self.inflight)

    def __eq__(self, o):
        return isinstance(o, _St) and self._k() == o._k()

    def __hash__(self):
        return hash(self._k())

    def __repr__(self):
        return 'outstanding=%s overwritten=%s' % (sorted(o[2] for o in self.out), sorted(o[1] for o in self.ovw))


class _TreeEvents:
    """Route-tree mutation events of one function (labels per CFG node)."""

    def __init__(self, p, f: Func):
        self.p = p
        self.f = f
        # (flag-sensitive graph: `ok = False; try: ..; ok = True; finally: if not ok: <undo>` has no path "raised, then undo skipped";
        #  it is the plain graph when the function has no pure control flag)
        self.cfg = cfg_of(f, p, refined=True)
        self.fresh = _fresh_names(p, f, NODE)
        self.local = _local_displays(f)
        self.labels: Dict[int, List[tuple]] = {}
        parent = enclosing_map(f.node)
        consumed: Set[int] = set()
        for n in self.cfg.live_nodes():
            labs: List[tuple] = []
            for c in n.calls():
                if not isinstance(c.func, ast.Attribute):
                    t = p.callee(f, c)
                    if isinstance(t, Func) and not any(isinstance(a, ast.Starred) for a in c.args):
                        for i, a in enumerate(c.args):
                            if isinstance(a, ast.Name) and a.id not in self.fresh and a.id not in self.local \
                                    and 'write' in _param_uses(t, i):
                                labs.append(('OVW', '%s via %s' % (a.id, t.name), '', short(c, 100)))
                    continue
                meth = c.func.attr
                recv = c.func.value
                base = recv
                while isinstance(base, (ast.Attribute, ast.Subscript)):
                    base = base.value
                node_args = [a for a in c.args if (isinstance(a, ast.Name) and a.id in self.fresh)
                             or (isinstance(a, ast.Call) and _is_class(p.callee(f, a), NODE))]
                if meth in ('append', 'insert') and node_args:
                    arg = c.args[-1]
                    if arg is not node_args[-1] or len(node_args) != 1 or c.keywords:
                        raise UnknownIdiom('%s: node insertion of unknown shape %s' % (f.qual, short(c, 80)))
                    rt = dotted(recv)
                    if rt is None:
                        raise UnknownIdiom('%s: node list %s is not a plain name/attribute chain' % (f.qual, short(recv, 60)))
                    nm = arg.id if isinstance(arg, ast.Name) else '<anonymous>'
                    labs.append(('MUT', rt, nm, short(c, 100)))
                    consumed.update(id(a) for a in node_args)
                elif meth == 'remove' and node_args:
                    rt = dotted(recv)
                    if rt is None or len(c.args) != 1 or not isinstance(c.args[0], ast.Name):
                        raise UnknownIdiom('%s: node removal of unknown shape %s' % (f.qual, short(c, 80)))
                    labs.append(('UNDO', rt, c.args[0].id, short(c, 100)))
                    consumed.add(id(c.args[0]))
                elif meth in LIST_MUTATORS:
                    # mutating a container created by this activation, or the
                    # inside of a node that is new (it counts through its append)
                    if isinstance(base, ast.Name) and (base.id in self.local or base.id in self.fresh):
                        continue
                    # a mutator call this rule has no model for, on an object
                    # that is not local to the activation
                    if isinstance(base, ast.Name) and self._is_plain_local_set(base.id):
                        continue
                    raise UnknownIdiom('%s: unmodelled mutator call %s' % (f.qual, short(c, 80)))
            # attribute / subscript stores
            if n.kind == 'stmt' and isinstance(n.ast, (ast.Assign, ast.AugAssign, ast.AnnAssign, ast.Delete)):
                a = n.ast
                targets = a.targets if isinstance(a, (ast.Assign, ast.Delete)) else [a.target]
                flat = []
                for t in targets:
                    flat.extend(t.elts if isinstance(t, (ast.Tuple, ast.List)) else [t])
                for t in flat:
                    if isinstance(t, (ast.Attribute, ast.Subscript)):
                        base = t
                        while isinstance(base, (ast.Attribute, ast.Subscript)):
                            base = base.value
                        if isinstance(base, ast.Name) and (base.id in self.fresh or base.id in self.local):
                            if isinstance(base, ast.Name) and base.id in self.fresh:
                                consumed.add(id(base))
                            continue
                        labs.append(('OVW', short(t, 80), '', short(a, 100)))
            for nm in H.node_defs(n):
                labs.append(('REBIND', nm, '', ''))
            if labs:
                self.labels[n.id] = labs
        # every other use of a fresh node must be harmless
        for x in walk_self(f.node):
            if isinstance(x, ast.Name) and x.id in self.fresh and isinstance(x.ctx, ast.Load) and id(x) not in consumed:
                par = parent.get(id(x))
                if isinstance(par, ast.Attribute) and par.value is x:
                    continue
                if isinstance(par, ast.Compare):
                    continue  # identity / membership tests do not store the node
                if isinstance(par, ast.Call) and x in par.args:
                    t = p.callee(f, par)
                    if isinstance(t, Func) and not any(isinstance(a, ast.Starred) for a in par.args) \
                            and 'escape' not in _param_uses(t, par.args.index(x)):
                        continue  # reads it, or fills in the new node's own fields
                raise UnknownIdiom('%s: new node %s escapes through %s' % (f.qual, x.id, short(par, 80)))

    def _is_plain_local_set(self, name) -> bool:
        """`used_names: Set[str] = set()`-style local containers."""
        vals = []
        for n in walk_self(self.f.node):
            if isinstance(n, (ast.Assign, ast.AnnAssign)):
                targets = n.targets if isinstance(n, ast.Assign) else [n.target]
                for t in targets:
                    if isinstance(t, ast.Name) and t.id == name:
                        vals.append(n.value)
        if not vals or name in self.f.params():
            return False
        return all(isinstance(v, ast.Call) and isinstance(v.func, ast.Name) and v.func.id in ('set', 'list', 'dict') and not v.args
                   for v in vals)

    def mutates(self) -> bool:
        return any(l[0] in ('MUT', 'OVW') for labs in self.labels.values() for l in labs)


def _reject_nodes(p, E, f: Func, cfg) -> Dict[int, Tuple[str, Optional[Set[str]]]]:
    """CFG node -> (description, exception classes or None when unknown)."""
    out: Dict[int, Tuple[str, Optional[Set[str]]]] = {}
    for n in cfg.live_nodes():
        if n.kind == 'stmt' and isinstance(n.ast, ast.Raise):
            classes = None
            if n.ast.exc is not None:
                e = n.ast.exc.func if isinstance(n.ast.exc, ast.Call) else n.ast.exc
                q = p.resolve_expr(f.module, e, f)
                if q and (q in p.classes or q.startswith('builtins.')):
                    classes = {q}
            out[n.id] = ('raise', classes)
            continue
        classes: Set[str] = set()
        for c in n.calls():
            classes.update(_call_summary(p, E, f, c))
        if classes:
            known = {c for c in classes if not c.startswith('?')}
            out[n.id] = ('call raising ' + ', '.join(sorted(k.rsplit('.', 1)[-1] for k in classes)),
                         known if known == classes else None)
    return out


def _feasible_exc_targets(p, f: Func, cfg, nid: int, classes: Optional[Set[str]]) -> Set[int]:
    """Exceptional successors of `nid` that an exception of one of `classes`
    can take (the CFG lists, innermost first, every handler an *unknown*
    exception might reach; a handler that certainly catches the class ends
    the propagation)."""
    targets = [y for (y, l) in cfg.succ[nid] if l == 'exc']
    if classes is None:
        return set(targets)
    out: Set[int] = set()
    for c in classes:
        for y in targets:
            tn = cfg.node(y)
            if tn.kind != 'handler':
                out.add(y)  # finally copy or exceptional exit
                break
            h = tn.ast
            if h.type is None:
                out.add(y)
                break
            verdict = False
            for t in (h.type.elts if isinstance(h.type, ast.Tuple) else [h.type]):
                q = p.resolve_expr(f.module, t, f)
                r = p.is_subclass(c, q) if q else None
                if r is True:
                    verdict = True
                    break
                if r is None:
                    verdict = None
            if verdict is True:
                out.add(y)
                break
            if verdict is None:
                out.add(y)
    return out


def r1_atomic_rejection(run):
    p = run.project
    add = p.func(ROUTER + '.add_route')
    E = _escape(p)
    nested = [g for g in add.nested.values()]
    if not nested:
        raise AnchorError('add_route has no nested insertion helper')
    events = {g.qual: _TreeEvents(p, g) for g in nested}
    events[add.qual] = _TreeEvents(p, add)
    mutating = {q for q, ev in events.items() if ev.mutates() and q != add.qual}
    if not mutating:
        raise AnchorError('no function nested in add_route mutates the route tree (append of a new CompiledRouterNode / '
                          'store to an existing node)')

    # ---- (a) typestate inside each mutating helper
    n_checked = 0
    for q in sorted(mutating):
        ev = events[q]
        f, cfg = ev.f, ev.cfg
        run.use_cfg(cfg)
        rejects = _reject_nodes(p, E, f, cfg)
        if not rejects:
            continue  # a helper that mutates but cannot reject has nothing to undo
        n_checked += 1
        raise_nodes = {n.id for n in cfg.live_nodes() if n.kind == 'stmt' and isinstance(n.ast, ast.Raise)}

        def labeler(n, ev=ev):
            return ['|'.join(l) for l in ev.labels.get(n.id, [])]

        def delta(st, lab, f=f):
            out, ovw, inflight = st.out, st.ovw, st.inflight
            kind, a, b, text = lab.split('|', 3)
            if kind == 'MUT':
                return _St(out | {(a, b, text)}, ovw, inflight)
            if kind == 'UNDO':
                hit = {o for o in out if o[0] == a and o[1] == b}
                if not hit and out:
                    raise UnknownIdiom('%s: %s does not name a node appended on this path' % (f.qual, text))
                return _St(out - hit, ovw, inflight)
            if kind == 'OVW':
                if a in {o[0] for o in ovw}:
                    raise UnknownIdiom('%s: %s stored twice on one path (save/restore idiom is not modelled)' % (f.qual, a))
                return _St(out, ovw | {(a, text)}, inflight)
            if kind == 'REBIND':
                if any(a in (o[0].split('.')[0], o[1]) for o in out):
                    raise UnknownIdiom('%s: %s is rebound while an appended node is outstanding' % (f.qual, a))
            return st

        for r in sorted(rejects):
            rn = cfg.node(r)

            feasible = _feasible_exc_targets(p, f, cfg, r, rejects[r][1])

            def edge_delta(st, a, b, l, r=r, feasible=feasible):
                if l != 'exc':
                    return st
                if a == r:
                    return _St(st.out, st.ovw, True) if b in feasible else None
                if st.inflight and a in raise_nodes:
                    return st
                # any other exception is not the rejection under test: it is followed
                # only into a local handler (EAFP control flow), never out of the function
                return st if cfg.node(b).kind == 'handler' else None

            cex, nst, ntr = flow.typestate(cfg, labeler, delta, _St(), xexit_ok=lambda st: not st.out and not st.ovw,
                                           edge_delta=edge_delta)
            what = ('%s: when this rejection leaves the function, every route-tree mutation made by this activation '
                    'has been undone (%s)' % (f.name, rejects[r][0]))
            if cex is None:
                run.ok(what, '%s:%s' % (f.file, rn.lineno), rn.ast)
            else:
                path, st, _reason = cex
                muts = sorted(o[2] for o in st.out) + sorted(o[1] for o in st.ovw)
                run.fail(what, f, '%s ; %s' % (' ; '.join(muts), short(rn.ast, 120)),
                         where='%s:%s' % (f.file, rn.lineno), witness=flow.describe_path(cfg, path),
                         runtime_witness='a template rejected at this point after its leading segments created/overwrote nodes '
                                         '(e.g. add_route("/a/{x}/{p:path}/c") is refused and leaves "/a/{x}" behind, so '
                                         'add_route("/a/{y}") is refused too although a fresh router accepts it)')

    if n_checked == 0:
        raise AnchorError('no helper of add_route both mutates the route tree and can reject')

    # ---- (b) in add_route every rejection precedes the first mutation
    ev = events[add.qual]
    cfg = ev.cfg
    run.use_cfg(cfg)
    mut_nodes: Set[int] = set()
    for n in cfg.live_nodes():
        if any(l[0] in ('MUT', 'OVW') for l in ev.labels.get(n.id, [])):
            mut_nodes.add(n.id)
        for c in n.calls():
            t = p.callee(add, c)
            if isinstance(t, Func) and t.qual in mutating:
                mut_nodes.add(n.id)
    if not mut_nodes:
        raise AnchorError('add_route never calls its mutating helper')
    rejects = _reject_nodes(p, E, add, cfg)
    if not rejects:
        raise AnchorError('add_route: no validation step that can reject was found')
    for r in sorted(rejects):
        rn = cfg.node(r)
        local = lambda x, y, l: l != 'exc' or cfg.node(y).kind == 'handler'  # noqa: E731
        starts = [y for m in mut_nodes for (y, l) in cfg.succ[m] if local(m, y, l)]
        path = flow.find_path(cfg, starts, [r], edge_filter=local)
        run.check(path is None, 'add_route: this rejection (%s) cannot happen after the route tree was mutated' % rejects[r][0],
                  add, rn.ast if rn.ast is not None else rn.text(), where='%s:%s' % (add.file, rn.lineno),
                  witness=flow.describe_path(cfg, path) if path else None,
                  runtime_witness='a template refused by this validation step after its nodes were already inserted')


# ---------------------------------------------------------------------------
# shared anchors of the generator
# ---------------------------------------------------------------------------

def _generator(p):
    gen = p.func(ROUTER + '._generate_ast')
    cfg = cfg_of(gen, p)
    return gen, cfg


def _main_loop(p, gen: Func) -> ast.For:
    """The sibling loop: the outermost `for` whose body makes the recursive
    call to the generator itself."""
    def recursive(n):
        return any(isinstance(c, ast.Call) and p.callee(gen, c) is gen for c in walk_self(n))

    loops = [n for n in walk_self(gen.node) if isinstance(n, ast.For) and recursive(n)]
    outer = [l for l in loops if not any(o is not l and any(x is l for x in walk_self(o)) for o in loops)]
    return single(outer, 'sibling loop containing the recursive call', gen.qual)


def _recursive_calls(p, gen: Func, root=None) -> List[ast.Call]:
    return [c for c in walk_self(root if root is not None else gen.node) if isinstance(c, ast.Call) and p.callee(gen, c) is gen]


def _param_index(f: Func, name: str) -> int:
    a = f.node.args
    names = [x.arg for x in a.posonlyargs + a.args]
    if name not in names:
        raise AnchorError('%s has no parameter %s' % (f.qual, name))
    return names.index(name)


def _call_arg(f: Func, call: ast.Call, pname: str):
    """Argument expression bound to parameter `pname` of method f at `call`
    (receiver `self.` call: positional index shifted by one)."""
    for k in call.keywords:
        if k.arg == pname:
            return k.value
        if k.arg is None:
            raise UnknownIdiom('%s: **kwargs at %s' % (f.qual, short(call, 60)))
    if any(isinstance(a, ast.Starred) for a in call.args):
        raise UnknownIdiom('%s: *args at %s' % (f.qual, short(call, 60)))
    idx = _param_index(f, pname)
    if f.cls is not None and isinstance(call.func, ast.Attribute):
        idx -= 1
    if 0 <= idx < len(call.args):
        return call.args[idx]
    return None  # default value


def _node_kinds(run) -> Dict[str, H.Rec]:
    p = run.project
    init = p.func(NODE + '.__init__')
    cfg = cfg_of(init, p)
    run.use_cfg(cfg)
    kinds = H.derive_node_kinds(p, cfg)
    recs = H.kind_records(kinds)
    run.extra['c01_node_kinds'] = sorted('fields=%s,is_var=%s,is_complex=%s,num_fields=%s' % k[:4] for k in kinds)
    run.extra['c01_node_kind_attrs'] = {nm: {a: repr(v) for a, v in sorted(r.attrs.items())} for nm, r in sorted(recs.items())}
    return recs


def _resolver(p, f: Func):
    """Evaluator hook: a name/attribute that is not a local of the evaluated
    code and resolves to a plain-signature def of the analysed tree (module
    level function, `self.<method>`) evaluates to that def."""
    def res(e):
        try:
            t = p.resolve_callable(f, e)
        except Exception:
            return None
        if isinstance(t, Func) and isinstance(t.node, ast.FunctionDef) and H.plain_signature(t.node):
            is_method = t.cls is not None and isinstance(e, ast.Attribute)
            return H.Closure(t.node, {}, drop_first=is_method)
        return None
    return res


# ---------------------------------------------------------------------------
# R2 sibling precedence key
# ---------------------------------------------------------------------------

def _sorted_call_of_loop(p, gen, cfg, loop):
    """(sorted-call | None, flipped, iterated-name)"""
    it = loop.iter
    flipped = False
    if isinstance(it, ast.Call) and p.resolve_callable(gen, it.func) == 'builtins.reversed' and len(it.args) == 1:
        flipped = True
        it = it.args[0]
    if isinstance(it, ast.Call):
        return it, flipped, None
    if not isinstance(it, ast.Name):
        raise UnknownIdiom('%s: sibling loop iterates %s' % (gen.qual, short(loop.iter, 60)))
    rd = H.ReachingDefs(cfg)
    iter_node = single([i for i in cfg.nodes_for(loop) if cfg.node(i).kind == 'iter' and not cfg.node(i).copy], 'loop header', gen.qual)
    defs = rd.at(iter_node, it.id)
    if defs == frozenset([H.ENTRY_DEF]):
        return None, flipped, it.id
    if len(defs) != 1:
        raise UnknownIdiom('%s: %d definitions of %s reach the sibling loop' % (gen.qual, len(defs), it.id))
    val = rd.def_value(next(iter(defs)), it.id)
    if not isinstance(val, ast.Call):
        raise UnknownIdiom('%s: siblings come from %s' % (gen.qual, short(val, 60) if val is not None else 'a non-assignment'))
    return val, flipped, it.id


def r2_sort_key(run):
    p = run.project
    gen, cfg = _generator(p)
    run.use_cfg(cfg)
    kinds = _node_kinds(run)
    loop = _main_loop(p, gen)
    call, flipped, name = _sorted_call_of_loop(p, gen, cfg, loop)
    W = ('routes /a/{x}, /a/{x}.{y}, /a/{x}.json and /a/b on one level: a lookup of /a/b (or /a/1.2, /a/r.json) answered by the '
         'plain single-field route /a/{x}')
    if call is None:
        in_place = [c for c in walk_self(gen.node) if isinstance(c, ast.Call) and isinstance(c.func, ast.Attribute)
                    and c.func.attr == 'sort' and isinstance(c.func.value, ast.Name) and c.func.value.id == name]
        if in_place:
            raise UnknownIdiom('%s: in-place %s is not modelled' % (gen.qual, short(in_place[0], 60)))
        for lo, hi in _precedence_pairs(kinds):
            run.fail('%s siblings are emitted before %s siblings (they are emitted in insertion order)' % (lo, hi),
                     gen, 'for %s in %s [unsorted: %s before %s]' % (short(loop.target), short(loop.iter), lo, hi),
                     where=gen.loc(loop), runtime_witness=W)
        return
    if p.resolve_callable(gen, call.func) != 'builtins.sorted' or len(call.args) != 1:
        raise UnknownIdiom('%s: siblings are ordered by %s' % (gen.qual, short(call, 80)))
    key = None
    for k in call.keywords:
        if k.arg == 'key':
            key = k.value
        elif k.arg == 'reverse':
            if not (isinstance(k.value, ast.Constant) and isinstance(k.value.value, bool)):
                raise UnknownIdiom('%s: non-constant reverse= in %s' % (gen.qual, short(call, 80)))
            flipped ^= k.value.value
        else:
            raise UnknownIdiom('%s: %s' % (gen.qual, short(call, 80)))
    if key is None:
        raise UnknownIdiom('%s: sorted() without key= orders node objects' % gen.qual)
    E = H.Evaluator(gen.qual, resolver=_resolver(p, gen))
    clo = E.ev(key, {})
    if not isinstance(clo, H.Closure) or len(clo.params()) != 1:
        raise UnknownIdiom('%s: sort key %s is neither a lambda nor a plain one-argument function of the analysed tree' % (
            gen.qual, short(key, 60)))
    if isinstance(key, ast.Lambda):
        construct = key
    else:
        construct = 'key=%s [def %s(%s)]' % (short(key, 60), clo.node.name, ', '.join(a.arg for a in clo.node.args.args))
    vals = {}
    for nm, rec in kinds.items():
        if clo.body is not None:
            v = E.call_closure(clo, [rec])
        else:
            # a def with several statements / returns: run it (a branch the evaluator cannot decide is an unknown idiom)
            env = dict(clo.env)
            env[clo.params()[0]] = rec
            kind, v = H.Interp(E, gen.qual).block(clo.stmts, env)
            if kind != 'return' or v is None:
                raise UnknownIdiom('%s: sort key %s does not return a value on a %s node' % (gen.qual, short(key, 60), nm))
        if v is H.UNK or not isinstance(v, (int, bool, tuple)):
            raise UnknownIdiom('%s: sort key %s cannot be evaluated on a %s node' % (gen.qual, short(key, 80), nm))
        vals[nm] = v
    run.sample({'rule': 'R2', 'sort_key': short(key, 120), 'values': {k: repr(v) for k, v in vals.items()}, 'reversed': flipped})
    for lo, hi in _precedence_pairs(kinds):
        try:
            ok = (vals[lo] > vals[hi]) if flipped else (vals[lo] < vals[hi])
        except TypeError:
            raise UnknownIdiom('%s: sort key values %r / %r are not comparable' % (gen.qual, vals[lo], vals[hi]))
        run.check(ok, 'sort key places %s nodes strictly before %s nodes (key values %r, %r%s)' % (
            KIND_TEXT[lo], KIND_TEXT[hi], vals[lo], vals[hi], ', reversed' if flipped else ''), gen, construct,
            where=gen.loc(key), runtime_witness=W)


KIND_TEXT = {'literal': 'literal', 'single': 'single-field ({x})', 'affix': 'single-field-with-literal-text ({x}.json, "complex")',
             'multi': 'multi-field ({x}-{y})', 'multi3': 'multi-field (3+ fields)'}


def _precedence_pairs(kinds) -> List[Tuple[str, str]]:
    """literal < every complex kind < plain single field."""
    cx = [k for k in H.COMPLEX_KINDS if k in kinds]
    return [('literal', k) for k in cx] + [(k, 'single') for k in cx] + [('literal', 'single')]


# ---------------------------------------------------------------------------
# R7 conflict table
# ---------------------------------------------------------------------------

class _Val:
    """Abstract value: text read off a template segment (an attribute of a
    node that its constructor derives from the segment, the `segment`
    parameter, or a projection of those).  `deps`: which of the two compared
    segments it is read from ({'self'}, {'other'} or both); `inj`: it is the
    whole raw segment (so two different segments give two different values);
    `nonnull`: True when it cannot be None."""

    def __init__(self, deps, inj=False, nonnull=None):
        self.deps = frozenset(deps)
        self.inj = inj
        self.nonnull = nonnull

    def __repr__(self):
        return '<text of %s segment%s>' % ('/'.join(sorted(self.deps)), ', whole' if self.inj else '')


class _VBool:
    """A truth value that depends on the TEXT of the compared segments, not
    only on their kinds; `exprs` are the tests that decide it."""

    def __init__(self, exprs):
        self.exprs = tuple(dict.fromkeys(exprs))

    def __repr__(self):
        return 'value-dependent(%s)' % '; '.join(self.exprs)


def _segment_text_attrs(p, init: Func) -> Tuple[Set[str], Set[str]]:
    """(attributes of a node whose value the constructor derives from the text
    of the segment, those that ARE the segment) -- a forward closure from the
    segment parameter over the constructor's assignments, loop targets and
    `self.<attr>.append(...)` calls."""
    params = init.params()
    if len(params) < 2:
        raise UnknownIdiom('%s: signature %s' % (init.qual, params))
    seg = params[1]
    tainted = {seg}

    def mentions_tainted(e) -> bool:
        return any(isinstance(n, ast.Name) and n.id in tainted for n in ast.walk(e))

    text: Set[str] = set()
    whole: Set[str] = set()
    other_store: Set[str] = set()
    changed = True
    while changed:
        changed = False
        for n in walk_self(init.node):
            pairs = []
            if isinstance(n, (ast.Assign, ast.AnnAssign, ast.AugAssign)) and getattr(n, 'value', None) is not None:
                pairs = [(t, n.value) for t in (n.targets if isinstance(n, ast.Assign) else [n.target])]
            elif isinstance(n, ast.For):
                pairs = [(n.target, n.iter)]
            elif isinstance(n, ast.Call) and isinstance(n.func, ast.Attribute) and n.func.attr in ('append', 'extend', 'add', 'insert') \
                    and _self_attr(n.func.value) is not None and any(mentions_tainted(a) for a in n.args):
                if _self_attr(n.func.value) not in text:
                    text.add(_self_attr(n.func.value))
                    changed = True
            for t, v in pairs:
                if not mentions_tainted(v):
                    if _self_attr(t) is not None:
                        other_store.add(_self_attr(t))
                    continue
                for sub in ast.walk(t):
                    if isinstance(sub, ast.Name) and isinstance(sub.ctx, ast.Store) and sub.id not in tainted:
                        tainted.add(sub.id)
                        changed = True
                a = _self_attr(t)
                if a is not None and a not in text:
                    text.add(a)
                    changed = True
                if a is not None and isinstance(v, ast.Name) and v.id == seg and isinstance(n, (ast.Assign, ast.AnnAssign)):
                    whole.add(a)
    whole -= other_store
    return text, whole


class _ValEval(H.Evaluator):
    """The R2/R7 mini-evaluator extended by two abstract values: `_Val` (text
    of a segment) and `_VBool` (a test on such text).  Kinds still evaluate to
    constants; anything it cannot read is still UNK."""

    TEXT_FUNCS = ('len', 'str', 'tuple', 'list', 'sorted', 'set', 'frozenset', 'repr')
    REGEX_METHODS = {'sub': True, 'subn': True, 'findall': True, 'split': True, 'match': None, 'search': None, 'fullmatch': None}

    def __init__(self, where, p, f: Func, text_attrs: Set[str], whole_attrs: Set[str], call_hook=None):
        super().__init__(where, call_hook=call_hook)
        self.p = p
        self.f = f
        self.text_attrs = text_attrs
        self.whole_attrs = whole_attrs

    @staticmethod
    def _concrete(v) -> bool:
        return v is None or isinstance(v, (str, int, bool, bytes)) or \
            (isinstance(v, (tuple, list)) and all(_ValEval._concrete(x) for x in v))

    def _textual(self, vs) -> bool:
        """all values are text / constants, at least one is text"""
        return all(isinstance(v, _Val) or self._concrete(v) for v in vs) and any(isinstance(v, _Val) for v in vs)

    @staticmethod
    def _deps(vs) -> frozenset:
        out = frozenset()
        for v in vs:
            if isinstance(v, _Val):
                out |= v.deps
        return out

    def _Attribute(self, e, env):
        v = self.ev(e.value, env)
        if isinstance(v, H.Rec) and '_side' in v.attrs and e.attr in self.text_attrs:
            known = v.attrs.get(e.attr, H.UNK)
            if known is None:
                return None
            is_whole = e.attr in self.whole_attrs
            return _Val({v.attrs['_side']}, inj=is_whole, nonnull=True if (known is H.NONNULL or is_whole) else None)
        if isinstance(v, _Val):
            return _Val(v.deps)
        return super()._Attribute(e, env)

    def _Subscript(self, e, env):
        v = self.ev(e.value, env)
        if not isinstance(v, _Val):
            return H.UNK
        parts = [e.slice.lower, e.slice.upper, e.slice.step] if isinstance(e.slice, ast.Slice) else [e.slice]
        idx = [self.ev(x, env) for x in parts if x is not None]
        if all(isinstance(i, _Val) or self._concrete(i) for i in idx):
            return _Val(v.deps | self._deps(idx))
        return H.UNK

    def _seq(self, e, env, make):
        vs = [self.ev(x, env) for x in e.elts]
        if any(v is H.UNK or isinstance(v, _VBool) for v in vs):
            return H.UNK
        if any(isinstance(v, _Val) for v in vs):
            deps = self._deps(vs)
            return _Val(deps, inj=len(deps) == 1 and any(isinstance(v, _Val) and v.inj for v in vs), nonnull=True)
        return make(vs)

    def _Tuple(self, e, env):
        return self._seq(e, env, tuple)

    def _List(self, e, env):
        return self._seq(e, env, list)

    def _comp(self, e, env, elt):
        if len(e.generators) == 1 and not e.generators[0].is_async and isinstance(e.generators[0].target, (ast.Name, ast.Tuple)):
            g = e.generators[0]
            it = self.ev(g.iter, env)
            if isinstance(it, _Val):
                env2 = dict(env)
                for nm in ast.walk(g.target):
                    if isinstance(nm, ast.Name):
                        env2[nm.id] = _Val(it.deps)
                conds = [self.ev(c, env2) for c in g.ifs]
                v = self.ev(elt, env2)
                if v is H.UNK or any(c is H.UNK for c in conds) or isinstance(v, _VBool):
                    return H.UNK
                return _Val(it.deps | self._deps([v]), nonnull=True)
        return super()._comp(e, env, elt)

    def _truthy(self, v, text):
        """concrete bool | _VBool | UNK for the truth of v"""
        if v is H.UNK:
            return H.UNK
        if isinstance(v, _VBool):
            return v
        if isinstance(v, _Val):
            return _VBool(['truth of ' + text])
        return H.truth(v)

    def _UnaryOp(self, e, env):
        if isinstance(e.op, ast.Not):
            t = self._truthy(self.ev(e.operand, env), short(e.operand, 80))
            if t is H.UNK or isinstance(t, _VBool):
                return t
            return not t
        return super()._UnaryOp(e, env)

    def _BoolOp(self, e, env):
        is_and = isinstance(e.op, ast.And)
        maybe: List[str] = []
        last = H.UNK
        for sub in e.values:
            v = self.ev(sub, env)
            t = self._truthy(v, short(sub, 80))
            if t is H.UNK:
                return H.UNK
            if isinstance(t, _VBool):
                maybe += list(t.exprs)
                continue
            last = v
            if is_and and not t:
                return False if maybe else v      # falsy whatever the text says
            if not is_and and t:
                return True if maybe else v       # truthy whatever the text says
        return _VBool(maybe) if maybe else last

    def _IfExp(self, e, env):
        t = self._truthy(self.ev(e.test, env), short(e.test, 80))
        if isinstance(t, _VBool):
            a = self._truthy(self.ev(e.body, env), short(e.body, 80))
            b = self._truthy(self.ev(e.orelse, env), short(e.orelse, 80))
            if a is H.UNK or b is H.UNK:
                return H.UNK
            if not isinstance(a, _VBool) and not isinstance(b, _VBool) and a == b:
                return a
            return _VBool(list(t.exprs) + [x for v in (a, b) if isinstance(v, _VBool) for x in v.exprs])
        if t is H.UNK:
            return H.UNK
        return self.ev(e.body if t else e.orelse, env)

    def _Compare(self, e, env):
        vs = [self.ev(x, env) for x in [e.left] + list(e.comparators)]
        if any(v is H.UNK for v in vs):
            return H.UNK
        if not any(isinstance(v, (_Val, _VBool)) for v in vs):
            return super()._Compare(e, env)
        if len(e.ops) != 1 or any(isinstance(v, _VBool) for v in vs):
            return H.UNK
        op, (l, r) = e.ops[0], vs
        if isinstance(op, (ast.Is, ast.IsNot)):
            val, oth = (l, r) if isinstance(l, _Val) else (r, l)
            if oth is None and val.nonnull is True:
                return isinstance(op, ast.IsNot)
            return H.UNK
        if not self._textual(vs):
            return H.UNK
        if isinstance(op, (ast.Eq, ast.NotEq)) and isinstance(l, _Val) and isinstance(r, _Val) and l.inj and r.inj \
                and len(l.deps) == 1 and len(r.deps) == 1 and l.deps != r.deps:
            # the whole raw segments of the two nodes: different by the caller's contract (conflicts_with is only asked about a
            # segment that does not match this node)
            return isinstance(op, ast.NotEq)
        return _VBool([short(e, 160)])

    def _regex_const(self, e) -> bool:
        if not isinstance(e, ast.Name):
            return False
        v = self.f.module.consts.get(e.id)
        return isinstance(v, ast.Call) and self.p.resolve_expr(self.f.module, v.func) == 're.compile'

    def _Call(self, e, env):
        if self.call_hook is not None:
            r = self.call_hook(e, env)
            if r is not NotImplemented:
                return r
        if e.keywords or any(isinstance(a, ast.Starred) for a in e.args):
            return super()._Call(e, env)
        if isinstance(e.func, ast.Attribute):
            if self._regex_const(e.func.value) and e.func.attr in self.REGEX_METHODS:
                args = [self.ev(a, env) for a in e.args]
                if self._textual(args):
                    return _Val(self._deps(args), nonnull=self.REGEX_METHODS[e.func.attr])
                return H.UNK
            recv = self.ev(e.func.value, env)
            if isinstance(recv, _Val):
                args = [self.ev(a, env) for a in e.args]
                if all(isinstance(a, _Val) or self._concrete(a) for a in args):
                    return _Val(recv.deps | self._deps(args))     # a str/list method on segment text
                return H.UNK
        if isinstance(e.func, ast.Name) and e.func.id not in env and len(e.args) == 1:
            a = self.ev(e.args[0], env)
            if isinstance(a, _Val):
                if e.func.id in self.TEXT_FUNCS and self.p.resolve_callable(self.f, e.func) == 'builtins.' + e.func.id:
                    return _Val(a.deps, nonnull=True)
                if e.func.id == 'bool':
                    return _VBool(['truth of ' + short(e.args[0], 80)])
                return H.UNK
            if isinstance(a, _VBool):
                return a if e.func.id == 'bool' else H.UNK
        return super()._Call(e, env)


def _cell_outcomes(E: '_ValEval', where: str, stmts, env, forks: List[str]) -> List[object]:
    """Every value the statements can return: statements are run by the
    straight-line interpreter; an `if` whose test depends on segment text
    forks (both arms are followed, the test is recorded)."""
    I = H.Interp(E, where)
    stmts = list(stmts)
    for i, s in enumerate(stmts):
        if isinstance(s, ast.If):
            t = E._truthy(E.ev(s.test, env), short(s.test, 80))
            if t is H.UNK:
                raise UnknownIdiom('%s: cannot evaluate the test `%s`' % (where, short(s.test, 80)))
            rest = stmts[i + 1:]
            if isinstance(t, _VBool):
                forks.extend(x for x in t.exprs if x not in forks)
                return _cell_outcomes(E, where, list(s.body) + rest, dict(env), forks) + \
                    _cell_outcomes(E, where, list(s.orelse) + rest, dict(env), forks)
            return _cell_outcomes(E, where, list(s.body if t else s.orelse) + rest, env, forks)
        kind, val = I.stmt(s, env)
        if kind == 'return':
            return [val]
        if kind == 'raise':
            return []
    return [None]


def r7_conflict_table(run):
    p = run.project
    f = p.func(NODE + '.conflicts_with')
    run.use(f)
    kinds = _node_kinds(run)
    params = f.params()
    if len(params) != 2:
        raise UnknownIdiom('%s: signature %s' % (f.qual, params))
    seg = params[1]

    def hook(e, env):
        t = p.callee(f, e)
        if _is_class(t, NODE):
            if len(e.args) >= 1 and isinstance(e.args[0], ast.Name) and e.args[0].id == seg:
                return env['$other']
            return H.UNK
        return NotImplemented

    E = H.Evaluator(f.qual, call_hook=hook)
    table = {}
    unread: Dict[Tuple[str, str], str] = {}
    for a, ra in kinds.items():
        for b, rb in kinds.items():
            env = {params[0]: ra, '$other': rb}
            try:
                kind, val = H.Interp(E, f.qual).block(f.node.body, env)
            except UnknownIdiom as e:
                # a branch this evaluator cannot decide: unknown for this cell (a judged cell then reads it further or fails closed)
                table[(a, b)] = H.UNK
                unread[(a, b)] = str(e)
                continue
            if kind != 'return':
                raise UnknownIdiom('%s: does not return on (%s, %s)' % (f.qual, a, b))
            table[(a, b)] = val
    run.extra['c01_conflict_table'] = {'%s x %s' % k: repr(v) for k, v in sorted(table.items())}

    def value_dependent(a, b, want, why, W) -> bool:
        """The cell is not a constant of the two kinds.  Read what it depends
        on: text of the segments (`_Val`), tests on such text (`_VBool`).  A
        cell that must be unconditional and is decided by the text is a
        violation; anything this reading does not understand stays an unknown
        idiom."""
        text_attrs, whole_attrs = _segment_text_attrs(p, p.func(NODE + '.__init__'))
        flags = ('is_var', 'is_complex', 'num_fields')
        text_attrs -= set(flags)
        VE = _ValEval(f.qual, p, f, text_attrs, whole_attrs, call_hook=hook)
        env = {params[0]: H.Rec(a, _side='self', **kinds[a].attrs), '$other': H.Rec(b, _side='other', **kinds[b].attrs),
               seg: _Val({'other'}, inj=True, nonnull=True)}
        forks: List[str] = []
        try:
            outs = _cell_outcomes(VE, f.qual, f.node.body, env, forks)
        except UnknownIdiom:
            return False
        if not outs or any(o is H.UNK or isinstance(o, _Val) for o in outs):
            return False
        decided_by = list(forks) + [x for o in outs if isinstance(o, _VBool) for x in o.exprs]
        const = [H.truth(o) for o in outs if not isinstance(o, _VBool)]
        unconditional = not decided_by and all(c == want for c in const)
        run.extra.setdefault('c01_conflict_value_dependent', {})['%s x %s' % (a, b)] = decided_by
        run.check(unconditional or (len(const) == len(outs) and all(c == want for c in const)),
                  'conflicts_with(%s node, %s segment) is %s for EVERY pair of different segments of these kinds (%s); it must not be '
                  'decided by the text of the segments' % (a, b, want, why), f,
                  'conflict-table[%s,%s] decided by: %s' % (a, b, '; '.join(decided_by) or 'the kinds'), where=f.loc(),
                  witness=['the answer depends on: %s' % x for x in decided_by] +
                          ['returned values: %s' % ', '.join(sorted({repr(o) for o in outs}))], runtime_witness=W)
        return True

    def cell(a, b, want, why, W):
        v = table[(a, b)]
        if v is H.UNK:
            if (a, b) == ('single', 'single') and value_dependent(a, b, want, why, W):
                return
            raise UnknownIdiom(unread.get((a, b)) or '%s: the (%s, %s) cell is value-dependent: %s' % (f.qual, a, b, 'not a constant'))
        run.check(H.truth(v) == want, 'conflicts_with(%s node, %s segment) is %s: %s' % (a, b, want, why), f,
                  'conflict-table[%s,%s] = %r' % (a, b, v), where=f.loc(), runtime_witness=W)

    cell('single', 'single', True,
         'the generator emits code for exactly one single-field node per level',
         'add_route("/a/{x}") then add_route("/a/{y}/b") -- or "/teams/{id:int(min=1)}" then "/teams/{id:int(min=10)}/audit" -- both '
         'accepted: insert() creates a second single-field sibling, the first lookup trips the generator\'s own assertion (internal '
         'error) or one route masks the other')
    for a in ('literal', 'affix', 'multi', 'single'):
        for b in ('literal', 'affix', 'multi', 'single'):
            if 'literal' in (a, b):
                cell(a, b, False, 'a literal segment never conflicts with a sibling',
                     'a valid route set such as /a/b + /a/{x} is refused')


# ---------------------------------------------------------------------------
# R8 pruning flag
# ---------------------------------------------------------------------------

FLAG = 'fast_return'  # declared anchor: parameter of _generate_ast


def _return_none_classes(p) -> Set[str]:
    import re
    out = set()
    for q, c in p.classes.items():
        if c.module.name != H.MODULE or 'src' not in c.methods:
            continue
        strs = [n.value for n in walk_self(c.methods['src'].node) if isinstance(n, ast.Constant) and isinstance(n.value, str)]
        body = [s for s in strs if re.sub(r'\{\d*\}', '', s).strip()]
        if body and all(re.sub(r'\{\d*\}', '', s).strip() == 'return None' for s in body):
            out.add(q)
    return out


def r8_pruning(run):
    p = run.project
    gen, cfg = _generator(p)
    run.use_cfg(cfg)
    kinds = _node_kinds(run)
    loop = _main_loop(p, gen)
    _param_index(gen, FLAG)
    body = gen.node.body
    if not any(s is loop for s in body):
        raise UnknownIdiom('%s: the sibling loop is not a top-level statement' % gen.qual)
    li = [i for i, s in enumerate(body) if s is loop][0]
    region, rest = body[:li], body[li:]
    for s in rest:
        for n in walk_self(s):
            if isinstance(n, ast.Name) and n.id == FLAG and isinstance(n.ctx, ast.Store):
                raise UnknownIdiom('%s: %s is reassigned inside/after the sibling loop' % (gen.qual, FLAG))
    nodes_param = None
    rec = _recursive_calls(p, gen, loop)
    if not rec:
        raise AnchorError('%s: recursive call not found' % gen.qual)
    # the parameter holding the siblings: receives `<loop var>.children` in the recursion
    for prm in gen.params():
        if prm == 'self':
            continue
        a = _call_arg(gen, rec[0], prm)
        if isinstance(a, ast.Attribute) and a.attr == 'children':
            nodes_param = prm
    if nodes_param is None:
        raise AnchorError('%s: no parameter receives <node>.children in the recursive call' % gen.qual)

    E = H.Evaluator(gen.qual, resolver=_resolver(p, gen))
    lits = [kinds['literal'], kinds['affix'], kinds['multi'], kinds['single']]
    import itertools
    cases = 0
    bad = None
    undetermined = None   # first sibling set on which the region's outcome cannot be evaluated
    for n in (1, 2, 3):
        for combo in itertools.product(lits, repeat=n):
            for incoming in (True, False):
                env = {nodes_param: list(combo), FLAG: incoming}
                try:
                    kind, _ = H.Interp(E, gen.qual, watch={FLAG}).block(region, env)
                except UnknownIdiom as e:
                    if undetermined is None:
                        undetermined = '%s (siblings %s)' % (e, list(combo))
                    continue
                if kind != 'fall':
                    continue  # nothing is generated for this level
                out = env.get(FLAG, H.UNK)
                if out is H.UNK:
                    if undetermined is None:
                        undetermined = '%s: value of %s after the pruning region is not determined for siblings %s' % (
                            gen.qual, FLAG, list(combo))
                    continue
                cases += 1
                allowed = incoming and (n == 1 or not any(r.attrs['is_var'] for r in combo))
                if H.truth(out) and not allowed and bad is None:
                    bad = (list(combo), incoming)
    # A sibling set on which the flag provably stays true although a field
    # sibling exists is a verdict by itself; sets the evaluator cannot decide
    # (an attribute whose value the constructor walk does not determine) only
    # matter when no such set was found.
    if bad is None and undetermined is not None:
        raise UnknownIdiom(undetermined)
    if cases == 0:
        raise UnknownIdiom('%s: the pruning region never falls through' % gen.qual)
    run.extra['c01_pruning_cases'] = cases
    assigns = [n for s in region for n in walk_self(s) if isinstance(n, (ast.Assign, ast.AugAssign, ast.AnnAssign))
               and any(isinstance(t, ast.Name) and t.id == FLAG for t in (n.targets if isinstance(n, ast.Assign) else [n.target]))]
    construct = assigns[-1] if assigns else '%s (never updated)' % FLAG
    if assigns and getattr(assigns[-1], 'value', None) is not None:
        # name the predicate: locals read by the assigned value, with their (last) definition in the region
        reads = [x.id for x in ast.walk(assigns[-1].value) if isinstance(x, ast.Name) and x.id not in (FLAG, nodes_param)]
        defs = []
        for nm in dict.fromkeys(reads):
            d = [a for s_ in region for a in walk_self(s_) if isinstance(a, ast.Assign) and len(a.targets) == 1
                 and isinstance(a.targets[0], ast.Name) and a.targets[0].id == nm]
            if d:
                defs.append(short(d[-1], 100))
        if defs:
            construct = '%s [%s]' % (short(assigns[-1], 80), '; '.join(defs))
    run.check(bad is None, 'the pruning flag stays true only if it was true on entry and the level has one node or only literal nodes '
              '(%d sibling sets x incoming values evaluated)' % cases, gen, construct,
              where=gen.loc(assigns[-1]) if assigns else gen.loc(),
              witness=['siblings %s, incoming %s=%s -> outgoing True' % (bad[0], FLAG, bad[1])] if bad else None,
              runtime_witness='routes /a/b and /a/{x}/c: GET /a/b/c returns None from inside the literal branch instead of '
                              'backtracking to /a/{x}/c')

    # the flag handed to the recursion is never stronger than the local one
    for c in rec:
        a = _call_arg(gen, c, FLAG)
        if a is None:
            run.fail('the recursion receives the level\'s pruning flag (it receives the default)', gen, c, where=gen.loc(c))
            continue
        v = E.ev(a, {FLAG: False})
        if v is H.UNK:
            raise UnknownIdiom('%s: pruning flag argument %s' % (gen.qual, short(a, 60)))
        run.check(not H.truth(v), 'the pruning flag passed to the children is false whenever the level\'s flag is false', gen, c,
                  where=gen.loc(c), runtime_witness='as above, one level further down')

    # every emitted `return None` is under a test of the flag
    rn_classes = _return_none_classes(p)
    if not rn_classes:
        raise AnchorError('no construct whose template is `return None` found')
    from .common import implied

    def is_flag(e):
        return isinstance(e, ast.Name) and e.id == FLAG

    router = p.cls(ROUTER)
    sites = 0
    for m in router.methods.values():
        for g in [m] + list(m.nested.values()):
            for c in walk_self(g.node):
                if isinstance(c, ast.Call) and _is_in(p.callee(g, c), rn_classes):
                    sites += 1
                    if g is not gen:
                        run.fail('`return None` constructs are emitted only by the generator, under its pruning flag', g, c, where=g.loc(c))
                        continue
                    nid = H.node_of_ast(cfg, c)
                    ok = False
                    for t in cfg.live_nodes():
                        if t.kind != 'test':
                            continue
                        for lab, truthv in (('T', True), ('F', False)):
                            if implied(t.ast, truthv, is_flag) is True:
                                for e in flow.edges_out(cfg, t.id, lab):
                                    if flow.dominated_by_edge(cfg, nid, e):
                                        ok = True
                    par = enclosing_map(gen.node)
                    ctx = []
                    child = cfg.node(nid).ast
                    for anc in ancestors(child, par):
                        if isinstance(anc, ast.If):
                            ctx.append(('' if any(child is s or any(child is d for d in ast.walk(s)) for s in anc.body) else 'not ')
                                       + '(' + short(anc.test, 60) + ')')
                    run.check(ok, 'an emitted `return None` is guarded by the pruning flag', gen,
                              '%s under %s' % (short(cfg.node(nid).ast, 80), ' and '.join(reversed(ctx)) or 'no test'), where=gen.loc(c),
                              runtime_witness='a lookup that must backtrack to a sibling field route returns None instead')
    if sites == 0:
        raise AnchorError('no emission of a `return None` construct found')


def _is_in(t, quals) -> bool:
    return isinstance(t, Class) and t.qual in quals


# ---------------------------------------------------------------------------
# R5 side tables
# ---------------------------------------------------------------------------

def _self_attr(e) -> Optional[str]:
    if isinstance(e, ast.Attribute) and isinstance(e.value, ast.Name) and e.value.id == 'self':
        return e.attr
    return None


def _generator_funcs(p, gen: Func) -> List[Func]:
    """The generator and the helpers of the same class it calls with constructs."""
    out = [gen]
    for c in walk_self(gen.node):
        if isinstance(c, ast.Call):
            t = p.callee(gen, c)
            if isinstance(t, Func) and t is not gen and t.cls is gen.cls and t not in out and \
                    any(isinstance(x, ast.Call) and isinstance(p.callee(t, x), Class) and p.callee(t, x).module.name == H.MODULE
                        for x in walk_self(t.node)):
                out.append(t)
    for g in out:
        if any(isinstance(n, (ast.Try, ast.With, ast.AsyncWith)) for n in walk_self(g.node)):
            raise UnknownIdiom('%s: try/with in the generator (the emission-order rules follow normal control flow only)' % g.qual)
    return out


FINDER_SLOT = '_find'   # declared anchor: the router attribute holding the compiled finder / the lazy stub


class _FinderSite:
    """One place where a router method runs the finder: `method` either
    contains the call `self._find(...)` itself (`via` is None) or calls the
    same-class helper `holder` that does (`via` = that helper call).  `args`
    are the finder's positional arguments as expressions of `method`: a
    `*name` / `name` bound once to a tuple display / a `self.<attr>` in the
    holder is replaced by what it is bound to, and (for a helper) the helper's
    parameters by the caller's arguments."""

    __slots__ = ('method', 'holder', 'call', 'args', 'via')

    def __init__(self, method, holder, call, args, via):
        self.method, self.holder, self.call, self.args, self.via = method, holder, call, args, via

    @property
    def anchor(self):
        return self.via if self.via is not None else self.call


def _single_local_def(f: Func, name: str):
    """The value of the only binding of local `name` in f (a plain assignment), else None."""
    if name in f.params():
        return None
    vals = []
    for n in walk_self(f.node):
        if isinstance(n, (ast.Assign, ast.AnnAssign)):
            for t in (n.targets if isinstance(n, ast.Assign) else [n.target]):
                if name in H._target_names(t):
                    vals.append(n.value if isinstance(t, ast.Name) else None)
        elif isinstance(n, (ast.AugAssign, ast.For, ast.AsyncFor, ast.NamedExpr, ast.With, ast.AsyncWith, ast.ExceptHandler)):
            tgt = getattr(n, 'target', None)
            if tgt is not None and name in H._target_names(tgt):
                vals.append(None)
    return vals[0] if len(vals) == 1 else None


def _finder_args(holder: Func, call: ast.Call) -> List[ast.AST]:
    if call.keywords:
        raise UnknownIdiom('%s: call %s' % (holder.qual, short(call, 80)))
    out: List[ast.AST] = []
    for a in call.args:
        if isinstance(a, ast.Starred):
            v = a.value
            if isinstance(v, ast.Name) and _single_local_def(holder, v.id) is not None:
                v = _single_local_def(holder, v.id)
            if isinstance(v, (ast.Tuple, ast.List)) and not any(isinstance(x, ast.Starred) for x in v.elts):
                out.extend(v.elts)
                continue
            raise UnknownIdiom('%s: *-argument of %s is not a tuple display bound once' % (holder.qual, short(call, 80)))
        out.append(a)
    res = []
    for a in out:
        if isinstance(a, ast.Name):
            v = _single_local_def(holder, a.id)
            if v is not None and _self_attr(v) is not None:
                a = v     # local alias of a router attribute
        res.append(a)
    return res


def _finder_sites(p, router: Class) -> List[_FinderSite]:
    direct: List[_FinderSite] = []
    for m in router.methods.values():
        aliases = set()    # locals bound (at least once) to the slot: `find = self._find`
        for n in walk_self(m.node):
            if isinstance(n, (ast.Assign, ast.AnnAssign)) and n.value is not None and _self_attr(n.value) == FINDER_SLOT:
                for t in (n.targets if isinstance(n, ast.Assign) else [n.target]):
                    if isinstance(t, ast.Name):
                        aliases.add(t.id)
        for c in walk_self(m.node):
            if isinstance(c, ast.Call) and (_self_attr(c.func) == FINDER_SLOT or (isinstance(c.func, ast.Name) and c.func.id in aliases)):
                direct.append(_FinderSite(m, m, c, _finder_args(m, c), None))
    sites = list(direct)
    # one level of same-class helper
    for m in router.methods.values():
        for c in walk_self(m.node):
            if not (isinstance(c, ast.Call) and _self_attr(c.func) is not None and _self_attr(c.func) != FINDER_SLOT):
                continue
            t = p.callee(m, c)
            if not isinstance(t, Func) or t is m:
                continue
            for d in direct:
                if d.holder is not t:
                    continue
                prms = [x for x in t.params() if x not in ('self', 'cls')]
                if any(isinstance(a, ast.Name) and a.id not in prms for a in d.args):
                    continue   # the helper computes an argument itself (find() splits the path): its own site is the one to check
                rebound = {n.id for n in walk_self(t.node) if isinstance(n, ast.Name) and isinstance(n.ctx, (ast.Store, ast.Del))}
                args = []
                for a in d.args:
                    if isinstance(a, ast.Name) and a.id in prms:
                        if a.id in rebound:
                            raise UnknownIdiom('%s: parameter %s is rebound before the finder call' % (t.qual, a.id))
                        b = _call_arg(t, c, a.id)
                        if b is None:
                            raise UnknownIdiom('%s: %s relies on a default of %s' % (m.qual, short(c, 60), t.name))
                        a = b
                    args.append(a)
                sites.append(_FinderSite(m, t, d.call, args, c))
    return sites


def _find_call_sites(p, router: Class) -> List[_FinderSite]:
    return _finder_sites(p, router)


def _local_table_alias(comp: Func, name: str, before: ast.AST) -> Optional[str]:
    """The router attribute a local of `_compile` is the same object as when it is handed to the generator at `before`:
    `name` is bound once, in the straight-line top level of the function, and either (i) to a value that is then
    stored as `self.A = name` - the only store to self.A in the function, also at the top level before the call - or
    (ii) to `self.A` itself after the only store to self.A.  (`return_values = []; self._return_values = return_values;
    self._generate_ast(.., return_values, ..)` hands the generator self._return_values.)"""
    v = _single_local_def(comp, name)
    if v is None:
        return None
    top = list(comp.node.body)

    def top_index(pred) -> List[int]:
        return [i for i, st in enumerate(top) if pred(st)]

    def binds(st) -> bool:
        return isinstance(st, (ast.Assign, ast.AnnAssign)) and any(isinstance(t, ast.Name) and t.id == name
                                                                    for t in (st.targets if isinstance(st, ast.Assign) else [st.target]))

    at = top_index(binds)
    call_at = top_index(lambda st: any(x is before for x in ast.walk(st)))
    if len(at) != 1 or len(call_at) != 1 or not at[0] < call_at[0]:
        return None
    stores: Dict[str, List[ast.AST]] = {}
    for n in walk_self(comp.node):
        if isinstance(n, (ast.Assign, ast.AnnAssign, ast.AugAssign)):
            for t in (n.targets if isinstance(n, ast.Assign) else [n.target]):
                for x in ast.walk(t):
                    if isinstance(x, ast.Attribute) and _self_attr(x) is not None and isinstance(x.ctx, (ast.Store, ast.Del)):
                        stores.setdefault(_self_attr(x), []).append(n)
    if _self_attr(v) is not None:
        ta = _self_attr(v)
        st_at = [i for i, st in enumerate(top) if any(st is s_ for s_ in stores.get(ta, []))]
        if len(stores.get(ta, [])) == len(st_at) <= 1 and all(i < at[0] for i in st_at):
            return ta
        return None
    for ta, sts in stores.items():
        if len(sts) == 1 and isinstance(sts[0], ast.Assign) and len(sts[0].targets) == 1 and isinstance(sts[0].value, ast.Name) and sts[0].value.id == name:
            i = [k for k, st in enumerate(top) if st is sts[0]]
            if i and at[0] < i[0] < call_at[0]:
                return ta
    return None


def r5_side_tables(run):
    p = run.project
    model = H.CxModel(p)
    gen, gcfg = _generator(p)
    router = p.cls(ROUTER)
    comp = model.compile_func
    ccfg = cfg_of(comp, p)
    run.use_cfg(gcfg)
    run.use_cfg(ccfg)

    # --- table parameters of the generator <- attributes passed by _compile
    gen_calls = [c for c in walk_self(comp.node) if isinstance(c, ast.Call) and p.callee(comp, c) is gen]
    gcall = single(gen_calls, 'call of _generate_ast', comp.qual)
    param_attr: Dict[str, str] = {}     # generator parameter -> router attribute
    for prm in gen.params()[1:]:
        a = _call_arg(gen, gcall, prm)
        if a is not None and _self_attr(a) is not None:
            param_attr[prm] = _self_attr(a)
        elif isinstance(a, ast.Name):
            ta = _local_table_alias(comp, a.id, gcall)
            if ta is not None:
                param_attr[prm] = ta

    _alias_cache: Dict[str, Dict[str, ast.AST]] = {}

    def table_attr(g: Func, e) -> Optional[str]:
        """Router attribute denoted by expression e inside generator function g."""
        if _self_attr(e) is not None:
            return _self_attr(e)
        if isinstance(e, ast.Name) and g is gen and e.id in param_attr:
            return param_attr[e.id]
        if isinstance(e, ast.Name):
            # a local that only names the attribute (`table = self._converters; idx = len(table); table.append(obj)`)
            al = _alias_cache.setdefault(g.qual, H._attr_aliases(g))
            if e.id in al and _self_attr(al[e.id]) is not None:
                return _self_attr(al[e.id])
        return None

    # --- generated table name -> position in the generated signature
    sites = _find_call_sites(p, router)
    if not {'find', '_compile_and_find'} <= {st.method.name for st in sites}:
        raise AnchorError('expected find() and _compile_and_find() to run self.%s (directly or through one same-class helper); '
                          'found it in %s' % (FINDER_SLOT, sorted({st.method.name for st in sites})))

    funcs = _generator_funcs(p, gen)
    W = 'a lookup that returns another route\'s node, or matches/convert a segment with another segment\'s pattern/converter'
    params_name = _params_gen_name(p, model)
    table_of_gen_name: Dict[str, str] = {}   # 'patterns' -> '_patterns' as established by the generator
    n_inst = 0
    for g in funcs:
        cfg = cfg_of(g, p)
        run.use_cfg(cfg)
        rd = H.ReachingDefs(cfg)
        for c in walk_self(g.node):
            if not isinstance(c, ast.Call):
                continue
            cx = model.of(p.callee(g, c))
            if cx is None:
                continue
            for (gname, attr, _slice) in cx.index_facts():
                if gname not in model.gen_params or gname == model.gen_params[0]:
                    continue  # path[...] is R4's business
                if gname == params_name:
                    continue  # the dict the finder fills (keyed by field name), not a side table
                pi = cx.param_of_attr(attr)
                if pi is None:
                    raise UnknownIdiom('%s: index attribute %s is not a constructor parameter' % (cx.qual, attr))
                if c.keywords or any(isinstance(a, ast.Starred) for a in c.args) or pi >= len(c.args):
                    raise UnknownIdiom('%s: construction %s' % (g.qual, short(c, 80)))
                arg = c.args[pi]
                n_inst += 1
                what = '%s(...) indexes `%s[...]` with an index taken as len() of the table handed to the finder as `%s`' % (cx.name, gname, gname)
                if not isinstance(arg, ast.Name):
                    run.fail(what + ' (index is not a recorded len())', g, c, where=g.loc(c), runtime_witness=W)
                    continue
                nid = H.node_of_ast(cfg, c)
                defs = [d for d in rd.at(nid, arg.id) if d != H.ENTRY_DEF]
                if not defs:
                    raise UnknownIdiom('%s: %s has no local definition at %s' % (g.qual, arg.id, short(c, 60)))
                attrs = set()
                for d in defs:
                    v = rd.def_value(d, arg.id)
                    ta = None
                    if isinstance(v, ast.Call) and p.resolve_callable(g, v.func) == 'builtins.len' and len(v.args) == 1:
                        ta = table_attr(g, v.args[0])
                    attrs.add(ta)
                if None in attrs:
                    run.fail(what + ' (some definition of %s is not len(<side table>))' % arg.id, g, c, where=g.loc(c), runtime_witness=W)
                    continue
                if len(attrs) != 1:
                    run.fail(what + ' (%s may hold lengths of different tables %s)' % (arg.id, sorted(attrs)), g, c, where=g.loc(c), runtime_witness=W)
                    continue
                ta = attrs.pop()
                prev = table_of_gen_name.setdefault(gname, ta)
                run.check(prev == ta, what + ' (self.%s)' % ta, g, c, where=g.loc(c),
                          witness=['`%s` was established as self.%s by another construction' % (gname, prev)], runtime_witness=W)
    if n_inst == 0:
        raise AnchorError('no construct indexing a side table is instantiated by the generator')

    # --- each recorded index is paired with the append it denotes
    n_idx = 0
    for g in funcs:
        cfg = cfg_of(g, p)
        for n in cfg.live_nodes():
            a = n.ast
            if not (n.kind == 'stmt' and isinstance(a, ast.Assign) and len(a.targets) == 1 and isinstance(a.targets[0], ast.Name)):
                continue
            v = a.value
            if not (isinstance(v, ast.Call) and p.resolve_callable(g, v.func) == 'builtins.len' and len(v.args) == 1):
                continue
            ta = table_attr(g, v.args[0])
            if ta is None or ta not in table_of_gen_name.values():
                continue
            n_idx += 1
            ttxt = dotted(v.args[0])
            # walk forward to the first use of the table
            seen = set()
            stack = [y for (y, l) in cfg.succ[n.id] if l != 'exc']
            bad = None
            while stack and bad is None:
                x = stack.pop()
                if x in seen:
                    continue
                seen.add(x)
                xn = cfg.node(x)
                if x == cfg.exit:
                    bad = (x, 'function exit reached with nothing appended')
                    break
                uses = [e for e in xn.walk() if isinstance(e, (ast.Name, ast.Attribute)) and dotted(e) == ttxt]
                if uses:
                    s = xn.ast
                    is_append = (xn.kind == 'stmt' and isinstance(s, ast.Expr) and isinstance(s.value, ast.Call)
                                 and isinstance(s.value.func, ast.Attribute) and s.value.func.attr == 'append'
                                 and dotted(s.value.func.value) == ttxt and len(s.value.args) == 1 and len(uses) == 1)
                    if not is_append:
                        bad = (x, 'next use of the table is %s' % xn.text())
                    continue
                if a.targets[0].id in H.node_defs(xn):
                    bad = (x, 'index rebound before the append')
                    continue
                stack.extend(y for (y, l) in cfg.succ[x] if l != 'exc')
            run.check(bad is None, '`%s` is the position of the element appended next to self.%s (no other use of the table in between)'
                      % (short(a, 60), ta), g, a, where=g.loc(a), witness=[bad[1]] if bad else None, runtime_witness=W)
        # no other mutation of a side table in the generator
        for c in walk_self(g.node):
            if isinstance(c, ast.Call) and isinstance(c.func, ast.Attribute) and c.func.attr in (LIST_MUTATORS - {'append'}):
                ta = table_attr(g, c.func.value)
                if ta is not None and ta in table_of_gen_name.values():
                    run.fail('side table self.%s only grows by append while code is generated (indices already emitted stay valid)' % ta,
                             g, c, where=g.loc(c), runtime_witness=W)
    if n_idx == 0:
        raise AnchorError('no `idx = len(<side table>)` found in the generator')

    # --- recursion hands the same tables down
    for prm, ta in sorted(param_attr.items()):
        if ta not in table_of_gen_name.values():
            continue
        for c in _recursive_calls(p, gen):
            a = _call_arg(gen, c, prm)
            run.check(isinstance(a, ast.Name) and a.id == prm, 'the recursion passes its own `%s` table down unchanged' % prm, gen,
                      '%s=%s in %s' % (prm, short(a, 40) if a is not None else '<default>', short(c.func, 40)), where=gen.loc(c), runtime_witness=W)

    # --- finder call sites: positions agree with the generated signature
    for st in sites:
        m, c, cargs = st.method, st.call, st.args
        thru = '' if st.via is None else ' (through %s)' % st.holder.name
        run.check(len(cargs) == len(model.gen_params), '%s calls the finder%s with %d positional arguments (generated signature: %s)' % (
            m.name, thru, len(model.gen_params), ', '.join(model.gen_params)), m,
            c if st.via is None else '%s -> %s' % (short(st.via, 60), short(c, 80)), where=m.loc(st.anchor))
        for gname, ta in sorted(table_of_gen_name.items()):
            k = model.gen_params.index(gname)
            if k >= len(cargs):
                continue
            run.check(_self_attr(cargs[k]) == ta, '%s passes self.%s%s in position %d (`%s` of the generated finder)' % (m.name, ta, thru, k, gname),
                      m, '%s: argument %d is %s' % (short(c.func, 30), k, short(cargs[k], 40)), where=m.loc(st.anchor), runtime_witness=W)
    # the lazy stand-in has the generated signature and forwards path/params
    lazy = p.func(ROUTER + '._compile_and_find')
    la = lazy.node.args
    lp = [x.arg for x in la.posonlyargs + la.args][1:]
    # (it is called exactly like the generated finder, with len(gen_params) positional arguments: a trailing parameter with a
    #  default that no call site fills is evaluated as omitted)
    n_required = len(lp) - len(la.defaults)
    kw_required = [a.arg for a, d in zip(la.kwonlyargs, la.kw_defaults) if d is None]
    run.check(n_required <= len(model.gen_params) <= len(lp) and not kw_required,
              '_compile_and_find takes the same number of positional parameters as the generated finder',
              lazy, 'def _compile_and_find(%s)' % ', '.join(lazy.params()), where=lazy.loc())
    lp = lp[:len(model.gen_params)]
    for st in sites:
        m, c, cargs = st.method, st.call, st.args
        if m is lazy:
            for k, gname in enumerate(model.gen_params):
                if gname in table_of_gen_name or k >= len(cargs) or k >= len(lp):
                    continue
                run.check(isinstance(cargs[k], ast.Name) and cargs[k].id == lp[k],
                          '_compile_and_find forwards its own `%s` argument' % gname, m,
                          '%s: argument %d is %s' % (short(c.func, 30), k, short(cargs[k], 40)), where=m.loc(st.anchor))

    # ownership: nobody else replaces a table behind the compiled finder's back.  A same-class helper that stores to a table is read
    # as part of _compile when _compile is its ONLY user (every mention of it is a call made from _compile): its stores then happen
    # where the call stands, and the call is judged like a direct store below
    table_helpers: Dict[str, Set[str]] = {}
    comp0 = getattr(comp, 'origin', comp)      # (the method as the class holds it; `comp` may be its alias-free view)
    for m in router.methods.values():
        if m is comp0 or m.name == '__init__':
            continue
        stored = {_self_attr(e) for e in walk_self(m.node) if isinstance(e, ast.Attribute) and _self_attr(e) in table_of_gen_name.values()
                  and isinstance(e.ctx, (ast.Store, ast.Del))}
        if not stored:
            continue
        mentions = [(g, e) for g in p.module(H.MODULE).all_funcs for e in walk_self(g.node)
                    if isinstance(e, ast.Attribute) and e.attr == m.name]
        calls = {id(c.func) for g in p.module(H.MODULE).all_funcs if g is comp0 for c in walk_self(g.node)
                 if isinstance(c, ast.Call) and p.callee(g, c) is m}
        if not mentions or any(id(e) not in calls for (_g, e) in mentions):
            raise UnknownIdiom('%s stores to side table self.%s outside _compile' % (m.qual, sorted(stored)[0]))
        table_helpers[m.qual] = stored

    # --- _compile: the objects filled by the generator are the ones the finder will get
    gnode = H.node_of_ast(ccfg, gcall)
    after = flow.reachable(ccfg, [y for (y, l) in ccfg.succ[gnode] if l != 'exc'], edge_filter=flow.no_exc)
    for gname, ta in sorted(table_of_gen_name.items()):
        prm = [k for k, v in param_attr.items() if v == ta]
        direct = any(_self_attr(e) == ta for g in funcs for e in walk_self(g.node))
        passed_ok = bool(prm) or direct   # handed over as the attribute itself, or used as self.<attr> by the generator
        culprit = None
        for nid in sorted(after):
            n = ccfg.node(nid)
            for e in n.walk():
                if _self_attr(e) == ta and isinstance(e.ctx, (ast.Store, ast.Del)):
                    culprit = n
                if isinstance(e, ast.Call) and isinstance(e.func, ast.Attribute) and e.func.attr in LIST_MUTATORS and _self_attr(e.func.value) == ta:
                    culprit = n
                if isinstance(e, ast.Call) and table_helpers:
                    t_ = p.callee(comp, e)
                    if isinstance(t_, Func) and ta in table_helpers.get(t_.qual, ()):
                        culprit = n      # the helper's store, standing where it is called
        run.check(passed_ok and culprit is None,
                  '_compile: self.%s as filled by the generator is what later lookups pass as `%s` (handed over as the attribute itself, '
                  'not replaced or emptied afterwards)' % (ta, gname), comp,
                  culprit.ast if culprit is not None else (gcall if passed_ok else 'self.%s is not what the generator fills' % ta),
                  where=comp.loc(culprit.ast) if culprit is not None else comp.loc(gcall), runtime_witness=W + ' / IndexError in the finder')

# ---------------------------------------------------------------------------
# R3 delayed parameter assignment
# ---------------------------------------------------------------------------

def _params_gen_name(p, model: H.CxModel) -> str:
    """Name, inside the generated finder, of the dict that find() returns as
    the route's field values: the position where find() passes a local bound
    to a dict display."""
    f = p.func(ROUTER + '.find')
    st = single([x for x in _finder_sites(p, p.cls(ROUTER)) if x.method is f],
                'call of self.%s (directly or through one same-class helper)' % FINDER_SLOT, f.qual)
    dict_locals = set()

    def fresh_dict(g, v, depth=0) -> bool:
        # {} / {..}, dict() without arguments, or a call of a function of the tree whose whole body is `return <such a value>`
        if isinstance(v, ast.Dict):
            return True
        if isinstance(v, ast.Call) and not v.args and not v.keywords:
            t = p.resolve_callable(g, v.func)
            if isinstance(v.func, ast.Name) and v.func.id == 'dict' and t in ('builtins.dict', None):
                return True
            if isinstance(t, Func) and depth < 2 and not t.is_async and not t.decorators:
                body = [x for x in t.node.body if not (isinstance(x, ast.Expr) and isinstance(x.value, ast.Constant))]
                return len(body) == 1 and isinstance(body[0], ast.Return) and body[0].value is not None and fresh_dict(t, body[0].value, depth + 1)
        return False

    for n in walk_self(f.node):
        if isinstance(n, (ast.Assign, ast.AnnAssign)) and n.value is not None and fresh_dict(f, n.value):
            for t in (n.targets if isinstance(n, ast.Assign) else [n.target]):
                if isinstance(t, ast.Name):
                    dict_locals.add(t.id)
    pos = [i for i, a in enumerate(st.args) if isinstance(a, ast.Name) and a.id in dict_locals]
    k = single(pos, 'dict-display argument of self._find', f.qual)
    if k >= len(model.gen_params):
        raise UnknownIdiom('%s: argument %d has no generated parameter' % (f.qual, k))
    return model.gen_params[k]


def _copy_source(e):
    """O if e is a fresh shallow copy of the list named O, else None."""
    if isinstance(e, ast.Call) and isinstance(e.func, ast.Attribute) and e.func.attr == 'copy' and not e.args and not e.keywords \
            and isinstance(e.func.value, ast.Name):
        return e.func.value.id
    if isinstance(e, ast.Call) and isinstance(e.func, ast.Name) and e.func.id == 'list' and len(e.args) == 1 and not e.keywords \
            and isinstance(e.args[0], ast.Name):
        return e.args[0].id
    if isinstance(e, ast.Subscript) and isinstance(e.value, ast.Name) and isinstance(e.slice, ast.Slice) \
            and e.slice.lower is None and e.slice.upper is None and e.slice.step is None:
        return e.value.id
    if isinstance(e, ast.List) and len(e.elts) == 1 and isinstance(e.elts[0], ast.Starred) and isinstance(e.elts[0].value, ast.Name):
        return e.elts[0].value.id
    return None


class _StackFlow:
    """Object-level view of the parameter-setter stacks of one function:
    an object is a creation site (CFG node of a non-alias binding) or
    ('entry', name)."""

    def __init__(self, p, f: Func, writers: Set[str], mutating_callees: Dict[str, Set[int]]):
        self.p, self.f = p, f
        self.cfg = cfg_of(f, p)
        self.rd = H.ReachingDefs(self.cfg)
        self.writers = writers
        self.mut_uses: List[Tuple[int, str, ast.AST]] = []   # (cfg node, stack name, call)
        for n in self.cfg.live_nodes():
            if n.copy:
                continue
            for c in n.calls():
                if isinstance(c.func, ast.Attribute) and isinstance(c.func.value, ast.Name) and c.func.attr in LIST_MUTATORS:
                    self.mut_uses.append((n.id, c.func.value.id, c))
                t = p.callee(f, c)
                if isinstance(t, Func) and t.qual in mutating_callees:
                    for prm_idx in mutating_callees[t.qual]:
                        prm = [x.arg for x in t.node.args.posonlyargs + t.node.args.args][prm_idx]
                        a = _call_arg(t, c, prm)
                        if isinstance(a, ast.Name):
                            self.mut_uses.append((n.id, a.id, c))

    def objects(self, nid: int, name: str, _depth=0) -> Set[object]:
        out: Set[object] = set()
        if _depth > 8:
            raise UnknownIdiom('%s: alias chain of %s too deep' % (self.f.qual, name))
        for d in self.rd.at(nid, name):
            if d == H.ENTRY_DEF:
                out.add(('entry', name))
                continue
            v = self.rd.def_value(d, name)
            if isinstance(v, ast.Name):
                out |= self.objects(d, v.id, _depth + 1)
            else:
                out.add(d)
        return out

    def mutated_objects(self, names: Set[str]) -> Dict[object, ast.AST]:
        out: Dict[object, ast.AST] = {}
        for (nid, nm, c) in self.mut_uses:
            for o in self.objects(nid, nm):
                out.setdefault(o, c)
        return out


def _stack_params(p, model, writers: Set[str], funcs: List[Func]) -> Dict[str, Set[str]]:
    """function qual -> names that receive `X.append(<param-writing construct>)`."""
    out: Dict[str, Set[str]] = {}
    for g in funcs:
        held = _writer_locals(p, g, writers)
        for c in walk_self(g.node):
            if isinstance(c, ast.Call) and isinstance(c.func, ast.Attribute) and c.func.attr == 'append' and len(c.args) == 1 \
                    and isinstance(c.func.value, ast.Name) \
                    and ((isinstance(c.args[0], ast.Call) and _is_in(p.callee(g, c.args[0]), writers))
                         or (isinstance(c.args[0], ast.Name) and c.args[0].id in held)):
                out.setdefault(g.qual, set()).add(c.func.value.id)
    return out


def _emission_helper(p, g: Func, call: ast.Call) -> Optional[Tuple[ast.AST, ast.AST]]:
    """(receiver argument, stack argument) of `call` when it runs a helper whose whole body is the emission loop
    `for e in <S>: <X>.append_child(e)` over two of its own parameters (`self._emit_params(parent, params_stack)`):
    the call is that loop on the receiver / stack it is handed."""
    h = p.callee(g, call)
    if not isinstance(h, Func) or h is g or h.is_async or h.decorators:
        return None
    body = [s_ for s_ in h.node.body if not (isinstance(s_, ast.Expr) and isinstance(s_.value, ast.Constant))]
    if len(body) != 1 or not isinstance(body[0], ast.For) or body[0].orelse:
        return None
    lp = body[0]
    if not (isinstance(lp.iter, ast.Name) and isinstance(lp.target, ast.Name) and len(lp.body) == 1 and isinstance(lp.body[0], ast.Expr)
            and isinstance(lp.body[0].value, ast.Call) and isinstance(lp.body[0].value.func, ast.Attribute)
            and lp.body[0].value.func.attr == 'append_child' and isinstance(lp.body[0].value.func.value, ast.Name)
            and len(lp.body[0].value.args) == 1 and not lp.body[0].value.keywords and isinstance(lp.body[0].value.args[0], ast.Name)
            and lp.body[0].value.args[0].id == lp.target.id):
        return None
    S, X = lp.iter.id, lp.body[0].value.func.value.id
    prm = [x for x in h.params() if x not in ('self', 'cls')]
    if S not in prm or X not in prm or S == X:
        return None
    try:
        xa, sa = _call_arg(h, call, X), _call_arg(h, call, S)
    except (AnchorError, UnknownIdiom):
        return None
    if xa is None or sa is None:
        return None
    return xa, sa


def _writer_locals(p, g: Func, writers: Set[str]) -> Set[str]:
    """Locals of g every binding of which is `x = <param-writing construct>(...)`."""
    binds: Dict[str, List[bool]] = {}
    for n in walk_self(g.node):
        if isinstance(n, (ast.Assign, ast.AnnAssign, ast.AugAssign)):
            targets = n.targets if isinstance(n, ast.Assign) else [n.target]
            for t in targets:
                for nm in H._target_names(t):
                    binds.setdefault(nm, []).append(isinstance(n, ast.Assign) and isinstance(t, ast.Name) and isinstance(n.value, ast.Call)
                                                    and _is_in(p.callee(g, n.value), writers))
        elif isinstance(n, (ast.For, ast.AsyncFor)):
            for nm in H._target_names(n.target):
                binds.setdefault(nm, []).append(False)
        elif isinstance(n, ast.NamedExpr) and isinstance(n.target, ast.Name):
            binds.setdefault(n.target.id, []).append(False)
    return {nm for nm, oks in binds.items() if all(oks) and nm not in g.params()}


def _only_pushed(g: Func, name: str, parent) -> bool:
    """Every read of local `name` in g is the sole argument of `<list name>.append(name)`."""
    n_use = 0
    for x in walk_self(g.node):
        if isinstance(x, ast.Name) and x.id == name and isinstance(x.ctx, ast.Load):
            up = parent.get(id(x))
            if not (isinstance(up, ast.Call) and isinstance(up.func, ast.Attribute) and up.func.attr == 'append'
                    and isinstance(up.func.value, ast.Name) and up.args == [x] and not up.keywords):
                return False
            n_use += 1
    return n_use > 0


# -- (d) what a delayed construct may read ---------------------------------

def _shared_generated_names(model: H.CxModel) -> Dict[str, List[str]]:
    """Generated variable whose name does not depend on the node it is emitted
    for -> the constructs that assign it (`match`, `groups`, `fragment` today).
    Decided from the construct classes: the assignment target is fixed template
    text, or an attribute that is not built from a constructor argument."""
    out: Dict[str, List[str]] = {}
    for q, c in sorted(model.classes.items()):
        _need, have = _class_names(model, c, set(), lines=c.resolved_code_lines())
        for nm in have:
            out.setdefault(nm, []).append(c.name)
    return out


def _expr_names(text: str) -> Optional[Set[str]]:
    """Names read by a piece of generated source used as an expression."""
    try:
        tree = ast.parse(text.strip(), mode='eval')
    except SyntaxError:
        return None
    return {n.id for n in ast.walk(tree) if isinstance(n, ast.Name)}


def _peel_const(e) -> Tuple[ast.AST, int]:
    """(base, k) with e == base + k for int literals added/subtracted on either side."""
    k = 0
    while isinstance(e, ast.BinOp) and isinstance(e.op, (ast.Add, ast.Sub)):
        if isinstance(e.right, ast.Constant) and type(e.right.value) is int:
            k += e.right.value if isinstance(e.op, ast.Add) else -e.right.value
            e = e.left
        elif isinstance(e.op, ast.Add) and isinstance(e.left, ast.Constant) and type(e.left.value) is int:
            k += e.left.value
            e = e.right
        else:
            break
    return e, k


def _index_origin(p, g: Func, rd: 'H.ReachingDefs', at: int, e, uq, depth=0, seen=None):
    """Where the index a generated variable name is built from comes from:
    ('stack', S, k, node)  = len(S) + k for a parameter stack S, evaluated at `node`: larger than every index handed out
                             for an ancestor, because each of those was followed by a push on S;
    ('restart', why)       = a value that starts again from a constant in every activation of the generator function
                             (a literal, `enumerate(.., start=<const>)`, `range(<const>..)`, a local counter initialised
                             with a literal): two nodes on one root-to-leaf path get the same name.
    `enumerate(seq, start=len(S) + k)` / `range(len(S) + k, ..)` count as 'stack' when the construct reading the name is
    pushed on S unconditionally in every iteration (the counter and the stack depth then advance in lock-step or the depth
    runs ahead).  Anything else is UnknownIdiom."""
    cfg = rd.cfg
    seen = set() if seen is None else seen
    if depth > 6:
        raise UnknownIdiom('%s: origin of the unique index %s: chain too deep' % (g.qual, short(e, 40)))
    base, k = _peel_const(e)
    if isinstance(base, ast.Constant) and type(base.value) is int:
        return ('restart', 'the index is the constant %d' % (base.value + k))
    if isinstance(base, ast.Call) and len(base.args) == 1 and not base.keywords and isinstance(base.args[0], ast.Name) \
            and p.resolve_callable(g, base.func) == 'builtins.len':
        S = base.args[0].id
        if S not in uq['snames']:
            raise UnknownIdiom('%s: unique index %s counts `%s`, which is not a parameter stack' % (g.qual, short(e, 40), S))
        return ('stack', S, k, at)
    if not isinstance(base, ast.Name):
        raise UnknownIdiom('%s: origin of the unique index %s is not understood' % (g.qual, short(e, 40)))
    outs = []
    for d in sorted(rd.at(at, base.id)):
        if d == H.ENTRY_DEF:
            raise UnknownIdiom('%s: unique index %s is handed in by the caller (a counter carried down by argument is not modelled)'
                               % (g.qual, base.id))
        if (d, base.id) in seen:
            continue     # loop-carried: the acyclic definitions decide
        seen.add((d, base.id))
        dn = cfg.node(d)
        v = rd.def_value(d, base.id)
        if v is not None:
            o = _index_origin(p, g, rd, d, v, uq, depth + 1, seen)
        elif dn.kind == 'stmt' and isinstance(dn.ast, ast.AugAssign) and isinstance(dn.ast.target, ast.Name) \
                and isinstance(dn.ast.op, (ast.Add, ast.Sub)) and isinstance(dn.ast.value, ast.Constant) and type(dn.ast.value.value) is int:
            o = _index_origin(p, g, rd, d, ast.Name(id=base.id, ctx=ast.Load()), uq, depth + 1, seen)
            if o is not None and o[0] == 'stack':
                raise UnknownIdiom('%s: counter %s starts from the stack depth and is stepped by hand' % (g.qual, base.id))
            if o is not None:
                o = ('restart', 'local counter `%s`: %s' % (base.id, o[1]))
        elif dn.kind == 'iter' and isinstance(dn.stmt, ast.For):
            o = _loop_index_origin(p, g, rd, d, dn.stmt, base.id, uq, depth, seen)
        else:
            raise UnknownIdiom('%s: unique index %s is bound by `%s`' % (g.qual, base.id, dn.text()))
        if o is not None:
            outs.append(o if o[0] == 'restart' else ('stack', o[1], o[2] + k, o[3]))
    if not outs:
        raise UnknownIdiom('%s: unique index %s has no acyclic definition' % (g.qual, base.id))
    if all(o[0] == 'restart' for o in outs):
        return outs[0]
    if all(o[0] == 'stack' for o in outs) and len({(o[1], o[2]) for o in outs}) == 1:
        return outs[0]
    raise UnknownIdiom('%s: unique index %s has definitions of different kinds' % (g.qual, base.id))


def _loop_index_origin(p, g: Func, rd, d: int, loop: ast.For, name: str, uq, depth, seen):
    it, tgt = loop.iter, loop.target
    q = p.resolve_callable(g, it.func) if isinstance(it, ast.Call) and isinstance(it.func, (ast.Name, ast.Attribute)) else None
    if any(isinstance(a, ast.Starred) for a in getattr(it, 'args', [])):
        q = None
    start = None
    if q == 'builtins.enumerate' and isinstance(tgt, (ast.Tuple, ast.List)) and len(tgt.elts) == 2 and isinstance(tgt.elts[0], ast.Name) \
            and tgt.elts[0].id == name and 1 <= len(it.args) <= 2 and all(k.arg == 'start' for k in it.keywords):
        start = it.args[1] if len(it.args) == 2 else (it.keywords[0].value if it.keywords else ast.Constant(value=0))
        how = 'enumerate(%s, start=%s)' % (short(it.args[0], 40), short(start, 30))
    elif q == 'builtins.range' and isinstance(tgt, ast.Name) and tgt.id == name and 1 <= len(it.args) <= 3 and not it.keywords:
        start = it.args[0] if len(it.args) >= 2 else ast.Constant(value=0)
        how = short(it, 60)
    if start is None:
        raise UnknownIdiom('%s: unique index %s is bound by `for %s in %s`' % (g.qual, name, short(tgt, 40), short(it, 60)))
    o = _index_origin(p, g, rd, d, start, uq, depth + 1, seen)
    if o[0] == 'restart':
        return ('restart', '%s restarts the numbering for every node: %s' % (how, o[1]))
    # counter started from the stack depth: the depth must advance at least as fast as the counter
    S = o[1]
    body_push = any(st is uq['push_stmt'] for st in loop.body)
    rebound = any(S in H.node_defs(n) for n in rd.cfg.live_nodes() if n.id != d and any(n.ast is x for st in loop.body for x in ast.walk(st)))
    if not body_push or rebound or S != uq['stack']:
        raise UnknownIdiom('%s: %s counts from the depth of `%s`, but the construct reading the name is not pushed on it unconditionally '
                           'in every iteration' % (g.qual, how, S))
    return o


def _generated_reads(p, model: H.CxModel, g: Func, rd: 'H.ReachingDefs', nid: int, e, depth=0, uq=None) -> Tuple[Set[str], List[str]]:
    """The generated-code names that the text of generator expression `e`
    (evaluated at CFG node nid) reads once it is rendered as an expression of
    the finder: (fixed names, per-instance names that are nevertheless the same
    for every node).  A name built from a per-node constructor argument of the
    construct that assigns it contributes nothing."""
    if depth > 6:
        raise UnknownIdiom('%s: alias chain of %s too deep' % (g.qual, short(e, 40)))
    if isinstance(e, ast.Constant):
        if not isinstance(e.value, str):
            return set(), []
        names = _expr_names(e.value)
        if names is None:
            raise UnknownIdiom('%s: %r is rendered as an expression of the finder but does not parse as one' % (g.qual, e.value))
        return names, []
    if isinstance(e, ast.Name):
        fixed: Set[str] = set()
        same: List[str] = []
        for d in sorted(rd.at(nid, e.id)):
            v = rd.def_value(d, e.id) if d != H.ENTRY_DEF else None
            if v is None:
                raise UnknownIdiom('%s: origin of %s, rendered as an expression of the finder, is not a plain local assignment' % (g.qual, e.id))
            f2, s2 = _generated_reads(p, model, g, rd, d, v, depth + 1, uq)
            fixed |= f2
            same += s2
        return fixed, same
    if isinstance(e, ast.Attribute) and isinstance(e.value, ast.Name):
        fixed = set()
        same = []
        for d in sorted(rd.at(nid, e.value.id)):
            v = rd.def_value(d, e.value.id) if d != H.ENTRY_DEF else None
            cx = model.of(p.callee(g, v)) if isinstance(v, ast.Call) else None
            if cx is None:
                raise UnknownIdiom('%s: %s is not bound to a construct created here' % (g.qual, e.value.id))
            txt = cx.fixed_text_of_attr(e.attr)
            if txt is not None:
                names = _expr_names(txt)
                if names is None:
                    raise UnknownIdiom('%s.%s = %r does not parse as an expression' % (cx.name, e.attr, txt))
                fixed |= names
                continue
            src = cx.attr_src.get(e.attr)
            if not src or src[0] != 'name':
                raise UnknownIdiom('%s: %s.%s is not a generated variable name' % (g.qual, cx.name, e.attr))
            if e.attr not in cx.assigned_attrs():
                raise UnknownIdiom('%s does not assign the generated variable it names in .%s' % (cx.name, e.attr))
            if v.keywords or any(isinstance(a, ast.Starred) for a in v.args) or any(i >= len(v.args) for i in src[2]):
                raise UnknownIdiom('%s: construction %s' % (g.qual, short(v, 80)))
            if all(isinstance(v.args[i], ast.Constant) for i in src[2]):
                same.append('%s of %s (built from constants only)' % (e.attr, short(v, 60)))
            elif uq is not None:
                # the name is built from per-instance arguments: unique along a root-to-leaf path only if one of them
                # counts the assignments already collected for the ancestors (the depth of the parameter stack)
                origins = [_index_origin(p, g, rd, d, v.args[i], uq) for i in src[2] if not isinstance(v.args[i], ast.Constant)]
                counted = [o for o in origins if o[0] == 'stack']
                for (_k, S, off, at2) in counted:
                    if S != uq['stack'] or rd.at(at2, S) != rd.at(uq['push'], S):
                        raise UnknownIdiom('%s: the index of %s counts `%s`, not (surely) the list the construct reading it is pushed on (`%s`)'
                                           % (g.qual, short(v, 60), S, uq['stack']))
                    uq['offsets'].setdefault(src[1], []).append((off, '%s in %s' % (short(v, 60), g.name)))
                if not counted:
                    same.append('%s of %s (%s)' % (e.attr, short(v, 60), '; '.join(o[1] for o in origins)))
        return fixed, same
    raise UnknownIdiom('%s: %s is rendered as an expression of the finder; its origin is not understood' % (g.qual, short(e, 60)))


def _delayed_reads(run, p, model: H.CxModel, funcs: List[Func], stacks: Dict[str, Set[str]], pname: str) -> int:
    """A construct pushed on the parameter stack is rendered only at the
    matched route's return, i.e. after every deeper level and (when the walk
    backtracked) abandoned sibling branches have run.  Whatever it reads must
    still hold this node's value then: the finder's own parameters, or a
    generated variable whose name is unique to the node."""
    shared = _shared_generated_names(model)
    ambient = _ambient_names(model)
    run.extra['c01_shared_generated_names'] = {k: v for k, v in sorted(shared.items())}
    n_d = 0
    offsets: Dict[str, List[Tuple[int, str]]] = {}    # name template -> (offset from the stack depth, creation site)
    for g in funcs:
        snames = set(stacks.get(g.qual, set()))
        for nm in g.params():
            if _receives_stack(p, funcs, stacks, g, nm):
                snames.add(nm)
        if not snames:
            continue
        cfg = cfg_of(g, p)
        rd = H.ReachingDefs(cfg)
        for n in cfg.live_nodes():
            if n.copy:
                continue
            for c in n.calls():
                if not (isinstance(c.func, ast.Attribute) and c.func.attr == 'append' and isinstance(c.func.value, ast.Name)
                        and c.func.value.id in snames):
                    continue
                if len(c.args) != 1 or c.keywords:
                    raise UnknownIdiom('%s: %s' % (g.qual, short(c, 80)))
                # the construct(s) pushed: a creation, or a local bound to creations
                a = c.args[0]
                creations: List[Tuple[int, ast.Call]] = []
                if isinstance(a, ast.Call):
                    creations.append((n.id, a))
                elif isinstance(a, ast.Name):
                    for d in sorted(rd.at(n.id, a.id)):
                        v = rd.def_value(d, a.id) if d != H.ENTRY_DEF else None
                        if not isinstance(v, ast.Call):
                            raise UnknownIdiom('%s: %s pushes %s, whose origin is not a construct creation' % (g.qual, short(c, 60), a.id))
                        creations.append((d, v))
                else:
                    raise UnknownIdiom('%s: %s' % (g.qual, short(c, 80)))
                fixed: Set[str] = set()
                same: List[str] = []
                for (at, v) in creations:
                    cx = model.of(p.callee(g, v))
                    if cx is None:
                        raise UnknownIdiom('%s: %s pushes something that is not a construct' % (g.qual, short(c, 80)))
                    need, _have = _class_names(model, cx, set(), lines=cx.resolved_code_lines())
                    fixed |= set(need)
                    for attr in sorted(cx.expression_attrs()):
                        if cx.fixed_text_of_attr(attr) is not None:
                            continue   # already part of the resolved lines
                        src = cx.attr_src.get(attr)
                        if src and src[0] == 'name':
                            continue   # the construct's own per-instance variable
                        pi = cx.param_of_attr(attr)
                        if pi is None:
                            raise UnknownIdiom('%s: attribute %s rendered as an expression is not a constructor parameter' % (cx.qual, attr))
                        if v.keywords or any(isinstance(x, ast.Starred) for x in v.args) or pi >= len(v.args):
                            raise UnknownIdiom('%s: construction %s' % (g.qual, short(v, 80)))
                        uq = {'snames': snames, 'stack': c.func.value.id, 'push': n.id, 'push_stmt': n.ast, 'offsets': offsets}
                        f2, s2 = _generated_reads(p, model, g, rd, at, v.args[pi], uq=uq)
                        fixed |= f2
                        same += s2
                bad = ['`%s` (assigned by %s for every node that emits it)' % (nm, '/'.join(shared[nm])) for nm in sorted(fixed) if nm in shared]
                bad += ['`%s`' % t for t in same]
                unknown = sorted(nm for nm in fixed if nm not in shared and nm not in ambient)
                if unknown and not bad:
                    raise UnknownIdiom('%s: %s reads %s, which neither the finder\'s prologue nor any construct assigns' % (
                        g.qual, short(c, 80), ', '.join(unknown)))
                n_d += 1
                run.check(not bad, 'a construct delayed until the matched route\'s return reads, besides the finder\'s own parameters, only '
                          'generated variables whose name is unique to its node (not one that deeper or abandoned sibling nodes rebind)',
                          g, c, where=g.loc(c),
                          witness=['rendered at return time it reads %s' % b for b in bad] if bad else None,
                          runtime_witness='routes /{a:int}-{b}/{c:int}-{d} and /{a:int}-{b}/{e}: GET /1-x/2-y loses b; GET /1-x/q-y '
                                          '(inner pattern matches, converter refuses, walk falls back to {e}) loses b and carries d '
                                          'from the abandoned branch')
    gen = funcs[0]
    for tmpl, sites in sorted(offsets.items()):
        ks = sorted({k for (k, _t) in sites})
        n_d += 1
        run.check(len(ks) == 1, 'every creation site of the generated variable %r numbers it <depth of the parameter stack> + the same '
                  'constant, so the index handed to a node is larger than every index handed to one of its ancestors (each of those was '
                  'followed by a push)' % tmpl, gen, '%s: index = len(<stack>) %s' % (tmpl, ' / '.join('%+d' % k for k in ks)),
                  where=gen.loc(), witness=['%+d: %s' % (k, t) for (k, t) in sorted(set(sites))] if len(ks) != 1 else None,
                  runtime_witness='/{a:int}/{b:int}-{c}: the numbering of one site runs one ahead of the other, so a descendant reuses '
                                  'the local that still holds an ancestor\'s converted value; the ancestor gets the descendant\'s value')
    return n_d


def r3_delayed_params(run):
    p = run.project
    model = H.CxModel(p)
    gen, gcfg = _generator(p)
    run.use_cfg(gcfg)
    pname = _params_gen_name(p, model)
    writers = {c.qual for c in model.writers_of(pname)}
    if not writers:
        raise AnchorError('no construct writes the generated `%s`' % pname)
    returners = {c.qual for c in model.classes.values()
                 if any(ln.startswith('return ') and ln != 'return None' for ln in c.code_lines())}
    if not returners:
        raise AnchorError('no construct returns a route from the generated finder')
    run.extra['c01_param_writers'] = sorted(q.rsplit('.', 1)[-1] for q in writers)
    funcs = _generator_funcs(p, gen)
    W = ('routes /a/{x} and /{y}/{z}/c: GET /a/1/c matches the second route but its params also carry x=1 from the abandoned '
         'first branch')

    # (a) a param-writing construct is only ever pushed on a stack
    mod = p.module(H.MODULE)
    stacks = _stack_params(p, model, writers, funcs)
    n_a = 0
    for g in mod.all_funcs:
        par = None
        for c in walk_self(g.node):
            if isinstance(c, ast.Call) and _is_in(p.callee(g, c), writers):
                if par is None:
                    par = enclosing_map(g.node)
                up = par.get(id(c))
                ok = (isinstance(up, ast.Call) and isinstance(up.func, ast.Attribute) and up.func.attr == 'append'
                      and isinstance(up.func.value, ast.Name) and up.args == [c] and not up.keywords)
                if not ok and isinstance(up, ast.Assign) and len(up.targets) == 1 and isinstance(up.targets[0], ast.Name) \
                        and up.targets[0].id in _writer_locals(p, g, writers) and _only_pushed(g, up.targets[0].id, par):
                    ok = True   # held in a local that is only ever pushed on a stack
                n_a += 1
                run.check(ok, 'a construct that writes `%s` is created only as the argument of <stack>.append(...) '
                          '(assignment is delayed until a route matched)' % pname, g, up if isinstance(up, ast.Call) else c,
                          where=g.loc(c), runtime_witness=W)
    if n_a == 0:
        raise AnchorError('no instantiation of a param-writing construct found')

    # (d) what the delayed constructs read at return time
    if _delayed_reads(run, p, model, funcs, stacks, pname) == 0:
        raise AnchorError('no construct is pushed on a parameter stack')

    # mutating callees (which positional parameter's incoming list they extend)
    mutating: Dict[str, Set[int]] = {}
    flows: Dict[str, _StackFlow] = {}
    for _round in range(3):
        for g in funcs:
            sf = _StackFlow(p, g, writers, mutating)
            flows[g.qual] = sf
            names = [x.arg for x in g.node.args.posonlyargs + g.node.args.args]
            mo = sf.mutated_objects(set())
            idxs = {i for i, nm in enumerate(names) if ('entry', nm) in mo and nm in stacks.get(g.qual, set()) | {nm}}
            # only list-typed stack parameters matter: those that are stacks in g or receive a stack at some call
            idxs = {i for i in idxs if names[i] in stacks.get(g.qual, set()) or _receives_stack(p, funcs, stacks, g, names[i])}
            if idxs:
                mutating[g.qual] = idxs
            else:
                mutating.pop(g.qual, None)

    # (b) emission loops and the returns they serve
    n_b = 0
    for g in funcs:
        cfg = cfg_of(g, p)
        run.use_cfg(cfg)
        snames = set(stacks.get(g.qual, set()))
        for nm in g.params():
            if _receives_stack(p, funcs, stacks, g, nm):
                snames.add(nm)
        emit_nodes: Dict[int, Tuple[str, ast.AST]] = {}   # body stmt node -> (receiver, loop / helper call)
        emissions: List[Tuple[str, List[int], object, ast.AST]] = []   # (receiver, nodes right after the emission, construct, where)
        for lp in [n for n in walk_self(g.node) if isinstance(n, ast.For)]:
            if not (isinstance(lp.iter, ast.Name) and lp.iter.id in snames):
                counted = {id(c.args[0]) for c in walk_self(lp.iter) if isinstance(c, ast.Call) and len(c.args) == 1 and not c.keywords
                           and p.resolve_callable(g, c.func) == 'builtins.len'}    # `len(S)` reads the depth, not the elements
                if any(isinstance(x, ast.Name) and x.id in snames and id(x) not in counted for x in walk_self(lp.iter)):
                    raise UnknownIdiom('%s: loop over %s' % (g.qual, short(lp.iter, 60)))
                continue
            ok_shape = (len(lp.body) == 1 and isinstance(lp.body[0], ast.Expr) and isinstance(lp.body[0].value, ast.Call)
                        and isinstance(lp.body[0].value.func, ast.Attribute) and lp.body[0].value.func.attr == 'append_child'
                        and isinstance(lp.body[0].value.func.value, ast.Name) and isinstance(lp.target, ast.Name)
                        and len(lp.body[0].value.args) == 1 and isinstance(lp.body[0].value.args[0], ast.Name)
                        and lp.body[0].value.args[0].id == lp.target.id and not lp.orelse)
            if not ok_shape:
                raise UnknownIdiom('%s: loop over the parameter stack is not `for p in S: X.append_child(p)`' % g.qual)
            X = lp.body[0].value.func.value.id
            iter_node = single([i for i in cfg.nodes_for(lp) if cfg.node(i).kind == 'iter' and not cfg.node(i).copy], 'loop header', g.qual)
            for bn in cfg.nodes_for(lp.body[0]):
                emit_nodes[bn] = (X, lp)
            emit_nodes[iter_node] = (X, lp)
            emissions.append((X, [y for (y, l) in cfg.succ[iter_node] if l == 'done'],
                              'for %s in %s: %s' % (short(lp.target), short(lp.iter), short(lp.body[0], 60)), lp))
        # the same loop run by a helper that is handed the receiver and the stack
        for n in cfg.live_nodes():
            if n.copy or n.kind != 'stmt' or not (isinstance(n.ast, ast.Expr) and isinstance(n.ast.value, ast.Call)):
                continue
            eh = _emission_helper(p, g, n.ast.value)
            if eh is None or not (isinstance(eh[1], ast.Name) and eh[1].id in snames):
                continue
            if not isinstance(eh[0], ast.Name):
                raise UnknownIdiom('%s: receiver of %s' % (g.qual, short(n.ast.value, 60)))
            emit_nodes[n.id] = (eh[0].id, n.ast.value)
            emissions.append((eh[0].id, [y for (y, l) in cfg.succ[n.id] if l != 'exc'], n.ast.value, n.ast))
        for (X, starts, construct, at) in emissions:
            # forward: the next thing done with X is appending the route return
            bad = None
            seen = set()
            stack = list(starts)
            while stack and bad is None:
                x = stack.pop()
                if x in seen:
                    continue
                seen.add(x)
                if x == cfg.exit:
                    bad = 'the function ends'
                    break
                xn = cfg.node(x)
                if any(isinstance(e, ast.Name) and e.id == X for e in xn.walk()) or X in H.node_defs(xn):
                    s = xn.ast
                    good = (xn.kind == 'stmt' and isinstance(s, ast.Expr) and isinstance(s.value, ast.Call)
                            and isinstance(s.value.func, ast.Attribute) and s.value.func.attr == 'append_child'
                            and isinstance(s.value.func.value, ast.Name) and s.value.func.value.id == X and len(s.value.args) == 1
                            and isinstance(s.value.args[0], ast.Call) and _is_in(p.callee(g, s.value.args[0]), returners))
                    if not good:
                        bad = 'next use of %s is `%s`' % (X, xn.text())
                    continue
                stack.extend(y for (y, l) in cfg.succ[x] if l != 'exc')
            n_b += 1
            run.check(bad is None, 'after the collected parameter assignments are emitted into %s, the next construct emitted into %s is the '
                      'route return (nothing can fail between assignment and return)' % (X, X), g,
                      construct, where=g.loc(at), witness=[bad] if bad else None, runtime_witness=W)
        # backward: every route return is directly preceded, in its receiver, by the emission loop
        for n in cfg.live_nodes():
            if n.copy or n.kind != 'stmt':
                continue
            for c in n.calls():
                if isinstance(c.func, ast.Attribute) and c.func.attr == 'append_child' and len(c.args) == 1 \
                        and isinstance(c.args[0], ast.Call) and _is_in(p.callee(g, c.args[0]), returners):
                    if not isinstance(c.func.value, ast.Name):
                        raise UnknownIdiom('%s: %s' % (g.qual, short(c, 60)))
                    X = c.func.value.id
                    seen = set()
                    stack = [a for (a, l) in cfg.pred[n.id] if l != 'exc']
                    bad = None
                    while stack and bad is None:
                        x = stack.pop()
                        if x in seen:
                            continue
                        seen.add(x)
                        xn = cfg.node(x)
                        if x == cfg.entry:
                            bad = 'function entry'
                            break
                        if x in emit_nodes and emit_nodes[x][0] == X:
                            continue
                        if any(isinstance(e, ast.Name) and e.id == X for e in xn.walk()) or X in H.node_defs(xn):
                            bad = 'previous use of %s is `%s`' % (X, xn.text())
                            continue
                        stack.extend(a for (a, l) in cfg.pred[x] if l != 'exc')
                    n_b += 1
                    run.check(bad is None, 'a route return emitted into %s is directly preceded by the emission of the collected parameter '
                              'assignments into %s (the matched route gets all of its field values)' % (X, X), g, c, where=g.loc(c),
                              witness=[bad] if bad else None,
                              runtime_witness='a matched route whose params dict lacks its field values')
    if n_b == 0:
        raise AnchorError('no emission loop over a parameter stack found')

    # (c) aliasing: one stack object per sibling iteration, never extended by deeper levels
    sf = flows[gen.qual]
    loop = _main_loop(p, gen)
    from .common import nodes_within
    in_loop = nodes_within(gcfg, loop.body)
    snames = stacks.get(gen.qual, set())
    if not snames:
        raise AnchorError('%s pushes no param-writing construct on a stack' % gen.qual)
    mutated = sf.mutated_objects(snames)
    stack_prm = [nm for nm in gen.params() if _receives_stack(p, funcs, stacks, gen, nm)]
    P = single(stack_prm, 'stack parameter of the generator', gen.qual)

    def carries_incoming(obj, depth=0) -> Optional[str]:
        """None if the object holds exactly the incoming stack and is never
        extended; else the reason."""
        if depth > 6:
            return 'copy chain too deep'
        if obj in mutated:
            return 'it is itself extended by `%s`' % short(mutated[obj], 60)
        if obj == ('entry', P):
            return None
        if isinstance(obj, tuple):
            return 'it is not derived from the incoming stack'
        v = sf.rd.def_value(obj, _def_name(gcfg, obj))
        src = _copy_source(v) if v is not None else None
        if src is None:
            return 'its creation `%s` is not a copy of the incoming stack' % gcfg.node(obj).text()
        for o in sf.objects(obj, src):
            r = carries_incoming(o, depth + 1)
            if r:
                return r
        return None

    n_c = 0
    for (nid, nm, c) in sf.mut_uses:
        if nid not in in_loop or nm not in snames and not any(o for o in sf.objects(nid, nm) if o in _creations(sf, snames)):
            continue
        objs = sf.objects(nid, nm)
        reason = None
        for o in sorted(objs, key=str):
            if isinstance(o, tuple) or o not in in_loop:
                reason = 'the extended list is created outside the sibling loop (%s), so siblings share it' % (
                    'incoming argument' if isinstance(o, tuple) else gcfg.node(o).text())
                break
            v = sf.rd.def_value(o, _def_name(gcfg, o))
            src = _copy_source(v) if v is not None else None
            if src is None:
                if isinstance(v, ast.List) and not v.elts:
                    reason = 'the sibling starts from an empty stack (incoming assignments dropped)'
                    break
                raise UnknownIdiom('%s: stack created by `%s`' % (gen.qual, gcfg.node(o).text()))
            for t in sorted(sf.objects(o, src), key=str):
                r = carries_incoming(t)
                if r:
                    reason = 'the per-sibling copy is taken from a list of which %s' % r
                    break
            if reason:
                break
        n_c += 1
        run.check(reason is None, 'each sibling iteration extends its own fresh copy of the incoming parameter stack', gen, c,
                  where=gen.loc(c), witness=[reason] if reason else None,
                  runtime_witness='siblings /a/{x}-{y} and /a/{z}: the route through {z} also executes the assignment collected for the '
                                  'multi-field sibling (NameError on dict_match_N, or a foreign field value)')
    if n_c == 0:
        raise AnchorError('%s: no extension of the parameter stack inside the sibling loop' % gen.qual)
    for c in _recursive_calls(p, gen, loop):
        a = _call_arg(gen, c, P)
        if a is None:
            run.fail('the recursion receives this level\'s parameter stack', gen, c, where=gen.loc(c))
            continue
        if _copy_source(a) is not None:
            ok, why = True, 'a copy is passed'
        elif isinstance(a, ast.Name):
            ok = gen.qual not in mutating
            why = 'the callee %s its incoming list' % ('never extends' if ok else 'extends')
        else:
            raise UnknownIdiom('%s: stack argument %s' % (gen.qual, short(a, 60)))
        n_c += 1
        run.check(ok, 'the recursion cannot extend the list this level emits after it returns (%s)' % why, gen,
                  '%s=%s in %s' % (P, short(a, 40), short(c.func, 40)), where=gen.loc(c),
                  runtime_witness='routes /a/{x} (with resource) and /a/{x}/{y}: GET /a/1 returns params containing y')


def _def_name(cfg, nid: int) -> str:
    names = H.node_defs(cfg.node(nid))
    if len(names) != 1:
        raise UnknownIdiom('%s: binding `%s`' % (cfg.func.qual, cfg.node(nid).text()))
    return names[0]


def _creations(sf: '_StackFlow', snames: Set[str]) -> Set[int]:
    out = set()
    for n in sf.cfg.live_nodes():
        if any(nm in snames for nm in H.node_defs(n)):
            out.add(n.id)
    return out


def _receives_stack(p, funcs: List[Func], stacks: Dict[str, Set[str]], g: Func, prm: str) -> bool:
    """Parameter `prm` of g is bound to a stack at some call from a generator function (or is one in g itself)."""
    if prm in stacks.get(g.qual, set()):
        return True
    for h in funcs:
        for c in walk_self(h.node):
            if isinstance(c, ast.Call) and p.callee(h, c) is g:
                try:
                    a = _call_arg(g, c, prm)
                except (AnchorError, UnknownIdiom):
                    continue
                base = a
                if a is not None and _copy_source(a) is not None:
                    base = ast.Name(id=_copy_source(a), ctx=ast.Load())
                if isinstance(base, ast.Name) and base.id in stacks.get(h.qual, set()):
                    return True
    return False


# ---------------------------------------------------------------------------
# R4 index guards
# ---------------------------------------------------------------------------

def _linear_in(e, name: str, f: Optional[Func] = None, _depth: int = 0) -> Optional[int]:
    """c if e == name + c (c an int constant), else None.  With `f` given a local of f that is bound exactly once by a
    plain assignment stands for its value (`next_level = level + 1`): `name` itself is never re-bound (checked by the
    caller), so such a local holds name + c wherever it can be read."""
    if isinstance(e, ast.Name):
        if e.id == name:
            return 0
        if f is not None and _depth < 4:
            v = _single_local_def(f, e.id)
            if v is not None:
                return _linear_in(v, name, f, _depth + 1)
        return None
    if isinstance(e, ast.BinOp) and isinstance(e.op, (ast.Add, ast.Sub)):
        l, r = e.left, e.right
        if isinstance(r, ast.Constant) and type(r.value) is int:
            c = _linear_in(l, name, f, _depth + 1)
            if c is not None:
                return c + (r.value if isinstance(e.op, ast.Add) else -r.value)
        if isinstance(e.op, ast.Add) and isinstance(l, ast.Constant) and type(l.value) is int:
            c = _linear_in(r, name, f, _depth + 1)
            if c is not None:
                return c + l.value
    return None


def _guard_classes(p, model: H.CxModel) -> Dict[str, Tuple[int, int]]:
    """Block constructs rendering `if <path_len> <cmp> <n>:` -> (ctor position of cmp, of n)."""
    import re
    comp = model.compile_func
    path = model.gen_params[0]
    len_names = set()
    for text in model.compile_strings():
        m = re.match(r'^\s*(\w+)\s*=\s*len\(\s*%s\s*\)\s*$' % re.escape(path), text)
        if m:
            len_names.add(m.group(1))
    if len(len_names) != 1:
        raise AnchorError('%s: expected one `<name> = len(%s)` prologue line, found %d' % (comp.qual, path, len(len_names)))
    ln_name = len_names.pop()
    out = {}
    for q, c in model.classes.items():
        if not c.is_block:
            continue
        code = c.code_lines()
        if len(code) != 1:
            continue
        m = re.match(r'^if %s %s(\w+)%s %s(\w+)%s:$' % (re.escape(ln_name), H.MARK_L, H.MARK_R, H.MARK_L, H.MARK_R), code[0])
        if m and c.lines and c.lines[-1] == H.CHILDREN:
            a, b = c.param_of_attr(m.group(1)), c.param_of_attr(m.group(2))
            if a is None or b is None:
                raise UnknownIdiom('%s: guard attributes are not constructor parameters' % q)
            out[q] = (a, b)
    if not out:
        raise AnchorError('no construct renders a test of %s' % ln_name)
    return out


def _guard_ok(call: ast.Call, pos: Tuple[int, int], level: str, f: Optional[Func] = None) -> bool:
    """`if path_len <cmp> <n>` implies path_len > level."""
    if call.keywords or max(pos) >= len(call.args):
        return False
    cmp_, n = call.args[pos[0]], call.args[pos[1]]
    if not (isinstance(cmp_, ast.Constant) and isinstance(cmp_.value, str)):
        return False
    c = _linear_in(n, level, f)
    if c is None:
        return False
    return {'>': c >= 0, '>=': c >= 1, '==': c >= 1}.get(cmp_.value.strip(), False)


def _guard_facts(p, g: Func, cfg, guards, level: Optional[str], init: Set[str], desc_summary: Dict[str, Set[int]]):
    """Must-facts: names of constructs whose children only execute when
    path_len > level."""
    def transfer(n, facts, label):
        if label == 'exc':
            return facts
        fs = set(facts)
        a = n.ast
        if n.kind == 'stmt' and isinstance(a, (ast.Assign, ast.AnnAssign)):
            targets = a.targets if isinstance(a, ast.Assign) else [a.target]
            v = a.value
            inside = False
            if isinstance(v, ast.Name):
                inside = v.id in fs
            elif isinstance(v, ast.Call):
                t = p.callee(g, v)
                if isinstance(t, Class) and t.qual in guards and level is not None and _guard_ok(v, guards[t.qual], level, g):
                    inside = True
                elif isinstance(t, Func) and t.qual in desc_summary:
                    names = [x.arg for x in t.node.args.posonlyargs + t.node.args.args]
                    for i in desc_summary[t.qual]:
                        try:
                            arg = _call_arg(t, v, names[i])
                        except (AnchorError, UnknownIdiom):
                            arg = None
                        if isinstance(arg, ast.Name) and arg.id in fs:
                            inside = True
            for t_ in targets:
                for nm in H._target_names(t_):
                    fs.discard(nm)
                    if inside and isinstance(t_, ast.Name):
                        fs.add(nm)
            return frozenset(fs)
        for nm in H.node_defs(n):
            fs.discard(nm)
        if n.kind == 'stmt' and isinstance(a, ast.Expr) and isinstance(a.value, ast.Call):
            c = a.value
            if isinstance(c.func, ast.Attribute) and c.func.attr == 'append_child' and isinstance(c.func.value, ast.Name) \
                    and c.func.value.id in fs and len(c.args) == 1 and isinstance(c.args[0], ast.Name):
                fs.add(c.args[0].id)
        return frozenset(fs)

    return flow.forward(cfg, transfer, init=frozenset(init), must=True)


def r4_index_guards(run):
    p = run.project
    model = H.CxModel(p)
    gen, gcfg = _generator(p)
    run.use_cfg(gcfg)
    path = model.gen_params[0]
    guards = _guard_classes(p, model)
    # constructs that index path[<attr>] (slices cannot fail)
    indexers: Dict[str, int] = {}
    for q, c in model.classes.items():
        pos = {c.param_of_attr(attr) for (t, attr, sl) in c.index_facts() if t == path and not sl}
        if None in pos:
            raise UnknownIdiom('%s: path index is not a constructor parameter' % q)
        if len(pos) > 1:
            raise UnknownIdiom('%s: indexes %s at several positions' % (q, path))
        if pos:
            indexers[q] = pos.pop()
    if not indexers:
        raise AnchorError('no construct indexes %s[...]' % path)
    funcs = _generator_funcs(p, gen)
    W = 'IndexError inside the generated finder for a request path shorter than a registered template'

    # the level variable: the parameter the recursion increases
    rec = _recursive_calls(p, gen)
    level = None
    for prm in gen.params()[1:]:
        cs = [_linear_in(_call_arg(gen, c, prm), prm, gen) if _call_arg(gen, c, prm) is not None else None for c in rec]
        if cs and all(c is not None and c >= 1 for c in cs):
            level = prm
    if level is None:
        raise AnchorError('%s: no parameter is passed as <itself> + k (k >= 1) by the recursion' % gen.qual)
    for n in walk_self(gen.node):
        if isinstance(n, ast.Name) and n.id == level and isinstance(n.ctx, (ast.Store, ast.Del)):
            raise UnknownIdiom('%s: %s is rebound' % (gen.qual, level))

    # (i) every creation of an indexing construct uses an index <= level
    n_i = 0
    for g in funcs:
        for c in walk_self(g.node):
            if isinstance(c, ast.Call) and _is_in(p.callee(g, c), set(indexers)):
                q = p.callee(g, c).qual
                pos = indexers[q]
                if c.keywords or pos >= len(c.args):
                    raise UnknownIdiom('%s: %s' % (g.qual, short(c, 60)))
                if g is not gen:
                    raise UnknownIdiom('%s creates a path-indexing construct outside the generator proper' % g.qual)
                k = _linear_in(c.args[pos], level, g)
                if k is None:
                    raise UnknownIdiom('%s: index %s of %s is not %s + constant' % (g.qual, short(c.args[pos], 40), short(c.func, 40), level))
                n_i += 1
                run.check(k <= 0, '%s indexes %s[%s]: not beyond the level whose length guard encloses it' % (
                    q.rsplit('.', 1)[-1], path, short(c.args[pos], 30)), g, c, where=g.loc(c), runtime_witness=W)
    if n_i == 0:
        raise AnchorError('generator creates no path-indexing construct')

    # (ii) emission sites are inside this level's guard
    # helpers returning a descendant of a construct they were given
    desc: Dict[str, Set[int]] = {}
    for g in funcs:
        if g is gen:
            continue
        cfg = cfg_of(g, p)
        names = [x.arg for x in g.node.args.posonlyargs + g.node.args.args]
        for i, nm in enumerate(names):
            if nm == 'self':
                continue
            facts = _guard_facts(p, g, cfg, guards, None, {nm}, {})
            rets = [n for n in cfg.live_nodes() if n.kind == 'stmt' and isinstance(n.ast, ast.Return)]
            if rets and all(isinstance(r.ast.value, ast.Name) and r.ast.value.id in facts[r.id] for r in rets):
                desc.setdefault(g.qual, set()).add(i)
    facts = _guard_facts(p, gen, gcfg, guards, level, set(), desc)
    rd = H.ReachingDefs(gcfg)
    stacks = set()
    pname = _params_gen_name(p, model)
    writers = {c.qual for c in model.writers_of(pname)}
    for s in _stack_params(p, model, writers, funcs).get(gen.qual, set()):
        stacks.add(s)
    n_ii = 0
    parmap = enclosing_map(gen.node)
    for n in gcfg.live_nodes():
        if n.copy or n.kind != 'stmt' or not isinstance(n.ast, ast.Expr) or not isinstance(n.ast.value, ast.Call):
            continue
        c = n.ast.value
        eh = _emission_helper(p, gen, c)
        if eh is not None and isinstance(eh[1], ast.Name) and eh[1].id in stacks:
            # the emission loop run by a helper: the elements of the parameter stack go into the receiver it is handed
            if not isinstance(eh[0], ast.Name):
                raise UnknownIdiom('%s: receiver of %s' % (gen.qual, short(c, 60)))
            n_ii += 1
            run.check(eh[0].id in facts[n.id],
                      'a construct reading %s[%s] is emitted into a block that only executes under this level\'s length guard' % (path, level),
                      gen, c, where=gen.loc(c), runtime_witness=W)
            continue
        if not (isinstance(c.func, ast.Attribute) and c.func.attr == 'append_child' and len(c.args) == 1):
            continue
        arg = c.args[0]
        relevant = False
        if isinstance(arg, ast.Call) and _is_in(p.callee(gen, arg), set(indexers)):
            relevant = True
        elif isinstance(arg, ast.Name):
            for d in rd.at(n.id, arg.id):
                if d == H.ENTRY_DEF:
                    continue
                dn = gcfg.node(d)
                v = rd.def_value(d, arg.id)
                if isinstance(v, ast.Call) and _is_in(p.callee(gen, v), set(indexers)):
                    relevant = True
                if dn.kind == 'iter' and isinstance(dn.stmt.iter, ast.Name) and dn.stmt.iter.id in stacks:
                    relevant = True   # an element of the parameter stack (may be a path-indexing assignment)
        if not relevant:
            continue
        if not isinstance(c.func.value, ast.Name):
            raise UnknownIdiom('%s: receiver of %s' % (gen.qual, short(c, 60)))
        n_ii += 1
        run.check(c.func.value.id in facts[n.id],
                  'a construct reading %s[%s] is emitted into a block that only executes under this level\'s length guard' % (path, level),
                  gen, c, where=gen.loc(c), runtime_witness=W)
    # helpers receive guarded parents
    for g in funcs:
        if g is gen:
            continue
        for c in walk_self(gen.node):
            if isinstance(c, ast.Call) and p.callee(gen, c) is g:
                names = [x.arg for x in g.node.args.posonlyargs + g.node.args.args]
                for i in desc.get(g.qual, set()):
                    a = _call_arg(g, c, names[i])
                    if isinstance(a, ast.Name):
                        nid = H.node_of_ast(gcfg, c)
                        n_ii += 1
                        run.check(a.id in facts[nid], '%s extends a block that is under this level\'s length guard' % g.name, gen,
                                  '%s=%s in %s' % (names[i], a.id, short(c.func, 40)), where=gen.loc(c), runtime_witness=W)
    if n_ii == 0:
        raise AnchorError('no emission of a path-indexing construct found')


# ---------------------------------------------------------------------------
# R6 generated-name def-use (fixed names + emission of name-defining constructs)
# ---------------------------------------------------------------------------

def _line_names(model: H.CxModel, ln: str, ambient: Set[str]) -> Tuple[Optional[str], Set[str]]:
    """(fixed name defined by the line | None, fixed names read by the line)."""
    import keyword
    import re
    txt = H._blank_strings(ln)
    txt = re.sub(H.MARK_L + r':?\w+' + H.MARK_R, ' ', txt)
    defined = None
    m = re.match(r'^([A-Za-z_]\w*)\s*=(?!=)\s*(.*)$', txt)
    rhs = txt
    if m:
        defined, rhs = m.group(1), m.group(2)
    reads = set()
    for t in re.finditer(r'(?<![\w.])([A-Za-z_]\w*)', rhs):
        w = t.group(1)
        if keyword.iskeyword(w) or w in ambient:
            continue
        reads.add(w)
    return defined, reads


def _class_names(model: H.CxModel, cx: H.CxClass, ambient: Set[str], lines: Optional[List[str]] = None) -> Tuple[List[str], List[str]]:
    """(fixed names read from the enclosing scope, fixed names defined)."""
    need: List[str] = []
    have: List[str] = []
    for ln in (cx.code_lines() if lines is None else lines):
        d, reads = _line_names(model, ln, ambient)
        for r in sorted(reads):
            if r not in have and r not in need:
                need.append(r)
        if d is not None and d not in have:
            have.append(d)
    return need, have


def _ambient_names(model: H.CxModel) -> Set[str]:
    """Names that exist in every generated finder before any construct runs:
    its parameters, the prologue's locals, builtins."""
    import builtins
    import re
    ambient = set(model.gen_params) | set(dir(builtins))
    for text in model.compile_strings():
        m = re.match(r'^\s*(\w+)\s*=\s*\S', text)
        if m and text != model.header:
            ambient.add(m.group(1))
    return ambient


def r6_generated_names(run):
    p = run.project
    model = H.CxModel(p)
    gen, gcfg = _generator(p)
    run.use_cfg(gcfg)
    funcs = _generator_funcs(p, gen)
    ambient = _ambient_names(model)
    names = {q: _class_names(model, c, ambient) for q, c in model.classes.items()}
    run.extra['c01_generated_names'] = {q.rsplit('.', 1)[-1]: {'reads': v[0], 'defines': v[1]} for q, v in names.items() if v[0] or v[1]}
    W = 'NameError (or a stale value) inside the generated finder when a route through this construct is looked up'

    def classes_of(g, cfg, rd, nid, e) -> Optional[Set[str]]:
        """Construct classes expression e may denote at node nid (None = not a known construct)."""
        if isinstance(e, ast.Call):
            cx = model.of(p.callee(g, e))
            return {cx.qual} if cx else None
        if isinstance(e, ast.Name):
            out = set()
            for d in rd.at(nid, e.id):
                if d == H.ENTRY_DEF:
                    return None
                v = rd.def_value(d, e.id)
                cx = model.of(p.callee(g, v)) if isinstance(v, ast.Call) else None
                if cx is None:
                    return None
                out.add(cx.qual)
            return out or None
        return None

    def analyse(g: Func, init: Set[Tuple[str, str]], desc: Dict[str, Set[int]]):
        cfg = cfg_of(g, p)
        run.use_cfg(cfg)
        rd = H.ReachingDefs(cfg)

        def transfer(n, facts, label):
            if label == 'exc':
                return facts
            fs = set(facts)
            a = n.ast
            if n.kind == 'stmt' and isinstance(a, (ast.Assign, ast.AnnAssign)):
                targets = a.targets if isinstance(a, ast.Assign) else [a.target]
                v = a.value
                inherit: Set[str] = set()
                if isinstance(v, ast.Name):
                    inherit = {gn for (x, gn) in fs if x == v.id}
                elif isinstance(v, ast.Call):
                    t = p.callee(g, v)
                    if isinstance(t, Func) and t.qual in desc:
                        pn = [x.arg for x in t.node.args.posonlyargs + t.node.args.args]
                        for i in desc[t.qual]:
                            arg = _call_arg(t, v, pn[i])
                            if isinstance(arg, ast.Name):
                                inherit |= {gn for (x, gn) in fs if x == arg.id}
                for t_ in targets:
                    for nm in H._target_names(t_):
                        fs = {(x, gn) for (x, gn) in fs if x != nm}
                        if isinstance(t_, ast.Name):
                            fs |= {(nm, gn) for gn in inherit}
                return frozenset(fs)
            for nm in H.node_defs(n):
                fs = {(x, gn) for (x, gn) in fs if x != nm}
            if n.kind == 'stmt' and isinstance(a, ast.Expr) and isinstance(a.value, ast.Call):
                c = a.value
                if isinstance(c.func, ast.Attribute) and c.func.attr == 'append_child' and isinstance(c.func.value, ast.Name) and len(c.args) == 1:
                    X = c.func.value.id
                    cl = classes_of(g, cfg, rd, n.id, c.args[0])
                    if cl:
                        defs = set.intersection(*[set(names[q][1]) for q in cl])
                        here = {gn for (x, gn) in fs if x == X} | defs
                        fs |= {(X, gn) for gn in defs}
                        if isinstance(c.args[0], ast.Name):
                            fs |= {(c.args[0].id, gn) for gn in here}
            return frozenset(fs)

        return cfg, rd, flow.forward(cfg, transfer, init=frozenset(init), must=True)

    # helpers that return a descendant of a construct they are given (same summary as R4)
    guards: Dict[str, Tuple[int, int]] = {}
    desc: Dict[str, Set[int]] = {}
    for g in funcs:
        if g is gen:
            continue
        cfg = cfg_of(g, p)
        pn = [x.arg for x in g.node.args.posonlyargs + g.node.args.args]
        for i, nm in enumerate(pn):
            if nm == 'self':
                continue
            facts = _guard_facts(p, g, cfg, guards, None, {nm}, {})
            rets = [n for n in cfg.live_nodes() if n.kind == 'stmt' and isinstance(n.ast, ast.Return)]
            if rets and all(isinstance(r.ast.value, ast.Name) and r.ast.value.id in facts[r.id] for r in rets):
                desc.setdefault(g.qual, set()).add(i)

    n_a = 0
    results = {}
    gcfg, grd, gfacts = analyse(gen, set(), desc)
    results[gen.qual] = (gcfg, grd, gfacts)
    for g in funcs:
        if g is gen:
            continue
        # precondition = what is in scope of the block handed over at the (single) call site
        calls = [c for c in walk_self(gen.node) if isinstance(c, ast.Call) and p.callee(gen, c) is g]
        c = single(calls, 'call of %s from the generator' % g.name, gen.qual)
        nid = H.node_of_ast(gcfg, c)
        pn = [x.arg for x in g.node.args.posonlyargs + g.node.args.args]
        init = set()
        for i in desc.get(g.qual, set()):
            arg = _call_arg(g, c, pn[i])
            if isinstance(arg, ast.Name):
                init |= {(pn[i], gn) for (x, gn) in gfacts[nid] if x == arg.id}
        results[g.qual] = analyse(g, init, desc)

    for g in funcs:
        cfg, rd, facts = results[g.qual]
        for n in cfg.live_nodes():
            if n.copy or n.kind != 'stmt' or not isinstance(n.ast, ast.Expr) or not isinstance(n.ast.value, ast.Call):
                continue
            c = n.ast.value
            if not (isinstance(c.func, ast.Attribute) and c.func.attr == 'append_child' and isinstance(c.func.value, ast.Name) and len(c.args) == 1):
                continue
            cl = classes_of(g, cfg, rd, n.id, c.args[0])
            if not cl:
                continue
            need = sorted({r for q in cl for r in names[q][0]})
            if not need:
                continue
            scope = {gn for (x, gn) in facts[n.id] if x == c.func.value.id}
            missing = [r for r in need if r not in scope]
            n_a += 1
            run.check(not missing, 'generated names read by %s (%s) are assigned by constructs emitted earlier into the same block or an '
                      'enclosing one' % ('/'.join(sorted(q.rsplit('.', 1)[-1] for q in cl)), ', '.join(need)), g, c, where=g.loc(c),
                      witness=['not surely assigned here: %s' % ', '.join(missing)] if missing else None, runtime_witness=W)
    if n_a < 3:
        raise AnchorError('only %d emitted construct(s) read a fixed generated name (match/groups/fragment def-use chain not found)' % n_a)

    # (b) a construct whose generated variable is referenced by a pushed/created construct is itself emitted
    n_b = 0
    for g in funcs:
        cfg, rd, facts = results[g.qual]
        for n in cfg.live_nodes():
            if n.copy:
                continue
            for e in n.walk():
                if not (isinstance(e, ast.Attribute) and isinstance(e.value, ast.Name) and isinstance(e.ctx, ast.Load)):
                    continue
                cl = classes_of(g, cfg, rd, n.id, e.value)
                if not cl or not all(model.classes[q].attr_src.get(e.attr, ('',))[0] == 'name' for q in cl):
                    continue
                V = e.value.id
                # no path  <creation of V> ... <this reference> ... <V rebound | function end>  avoids emitting V
                emit = {x.id for x in cfg.live_nodes()
                        if any(isinstance(cc.func, ast.Attribute) and cc.func.attr == 'append_child' and len(cc.args) == 1
                               and isinstance(cc.args[0], ast.Name) and cc.args[0].id == V for cc in x.calls())}
                defs = [d for d in rd.at(n.id, V) if d != H.ENTRY_DEF]
                before = None
                if n.id not in emit:
                    before = flow.find_path(cfg, [y for d in defs for (y, l) in cfg.succ[d] if l != 'exc'], [n.id],
                                            avoid_nodes=emit, edge_filter=flow.no_exc)
                after = None
                if before is not None:
                    ends = {cfg.exit} | {x.id for x in cfg.live_nodes() if V in H.node_defs(x)}
                    after = flow.find_path(cfg, [y for (y, l) in cfg.succ[n.id] if l != 'exc'], ends, avoid_nodes=emit,
                                           edge_filter=flow.no_exc)
                n_b += 1
                run.check(after is None, 'the construct that assigns the generated variable `%s` is emitted somewhere on every path that '
                          'hands a reference to that variable to another construct' % short(e, 50), g,
                          n.ast if n.ast is not None else n.text(), where='%s:%s' % (g.file, n.lineno),
                          witness=flow.describe_path(cfg, (before or []) + (after or [])) if after else None, runtime_witness=W)
    if n_b < 2:
        raise AnchorError('only %d reference(s) to a generated variable name found' % n_b)


# ---------------------------------------------------------------------------

# ---------------------------------------------------------------------------
# R9 template-derived text rendered into the generated source
# ---------------------------------------------------------------------------

def _src_format_calls(p, cx: H.CxClass) -> List[Tuple[ast.Call, str]]:
    """(format call, folded template) of every str.format in the construct's own src(); an f-string is read as the
    equivalent .format call (same literal text, same fields in the same order, same conversions), and an argument that
    is a local of src() bound once is replaced by the expression it is bound to."""
    src = cx.src_func
    out = []
    once: Dict[str, ast.AST] = {}
    for a in ast.walk(src.node):
        if isinstance(a, ast.Assign) and len(a.targets) == 1 and isinstance(a.targets[0], ast.Name):
            once[a.targets[0].id] = a.value if a.targets[0].id not in once else None
        elif isinstance(a, ast.Name) and isinstance(a.ctx, ast.Store) and a.id in once and not any(
                isinstance(b, ast.Assign) and len(b.targets) == 1 and b.targets[0] is a for b in ast.walk(src.node)):
            once[a.id] = None
    nested = {id(v) for n in ast.walk(src.node) if isinstance(n, ast.FormattedValue) and n.format_spec is not None
              for v in ast.walk(n.format_spec)}

    def through_local(x, depth=0):
        while isinstance(x, ast.Name) and once.get(x.id) is not None and depth < 4:
            x, depth = once[x.id], depth + 1
        return x

    for n in ast.walk(src.node):
        if isinstance(n, ast.BinOp) and isinstance(n.op, ast.Mod) and isinstance(n.left, ast.Constant) and isinstance(n.left.value, str):
            n = H.percent_as_format(n, src.qual)      # '..%s..' % (x,) read like '..{0}..'.format(x); unreadable conversions are UnknownIdiom
        if isinstance(n, ast.JoinedStr):
            if id(n) in nested:
                continue   # the format-spec part of a field: fstring_as_format refuses the field itself
            n = H.fstring_as_format(n, src.qual)
        if isinstance(n, ast.Call) and isinstance(n.func, ast.Attribute) and n.func.attr == 'format':
            tv = through_local(n.func.value)
            tmpl = p.fold(src.module, tv, cx.cls, src)
            if not isinstance(tmpl, str):
                raise UnknownIdiom('%s: template of %s is not a constant' % (src.qual, short(n, 60)))
            if n.keywords or any(isinstance(x, ast.Starred) for x in n.args):
                raise UnknownIdiom('%s: %s' % (src.qual, short(n, 60)))
            if any(isinstance(x, ast.Name) and once.get(x.id) is not None for x in n.args):
                m = ast.Call(func=n.func, args=[through_local(x) for x in n.args], keywords=[])
                n = ast.copy_location(m, n)
            out.append((n, tmpl))
    return out


def _converter_keys_proof(p, T: H.TemplateText, attr: str):
    """Why every key of the router table `self.<attr>` is an identifier:
    (regex constant, pattern, method, validating function) or UnknownIdiom."""
    init = p.func(ROUTER + '.__init__')
    vals = [n.value for n in walk_self(init.node) if isinstance(n, (ast.Assign, ast.AnnAssign)) and n.value is not None
            and any(_self_attr(t) == attr for t in (n.targets if isinstance(n, ast.Assign) else [n.target]))]
    if len(vals) != 1 or not (dotted(vals[0]) or '').startswith('self.'):
        raise UnknownIdiom('%s: self.%s is not bound once to an attribute chain of the router' % (init.qual, attr))
    mod = p.module(H.MODULE)
    for c in mod.classes.values():
        if not p.is_subclass(c.qual, 'collections.UserDict'):
            continue
        setitem = c.methods.get('__setitem__')
        if setitem is None or len(setitem.params()) < 2:
            continue
        key = setitem.params()[1]
        for call in [x for x in walk_self(setitem.node) if isinstance(x, ast.Call) and _self_attr(x.func) is not None]:
            t = p.callee(setitem, call)
            if not (isinstance(t, Func) and len(call.args) == 1 and isinstance(call.args[0], ast.Name) and call.args[0].id == key):
                continue
            prm = t.params()[1] if len(t.params()) > 1 else None
            for m in walk_self(t.node):
                if isinstance(m, ast.Call) and isinstance(m.func, ast.Attribute) and m.func.attr in ('match', 'fullmatch') \
                        and isinstance(m.func.value, ast.Name) and T.regex_const(m.func.value.id) is not None \
                        and len(m.args) == 1 and isinstance(m.args[0], ast.Name) and m.args[0].id == prm \
                        and T._raising_guard(t, {id(m)}, set()) is not None:
                    # the class is the one the router's options hold
                    if any(isinstance(x, ast.Call) and _is_class(p.callee(g, x), c.qual) for g in mod.all_funcs for x in walk_self(g.node)):
                        return (m.func.value.id, T.regex_const(m.func.value.id), m.func.attr, t)
    raise UnknownIdiom('%s: keys of self.%s: no UserDict subclass whose __setitem__ validates the key against a compiled pattern '
                       'was found' % (init.qual, attr))


def r9_rendered_text(run):
    """Every value that a construct's src() renders into a line of the
    generated finder -- between quotes, in a trailing comment, or in code
    position -- is (c) an int / a generated name / a developer-written
    constant, (a) text of the URI template that a validator restricts so that
    it cannot contain what the position cannot take (a line break anywhere; a
    quote or backslash between quotes; anything but identifier characters in
    code position), or (b) rendered through !r.  The origin of each value is
    read from the construct's constructor, every creation site, and
    CompiledRouterNode.__init__; each validator relied on is its own
    obligation.  W: add_route("/it's") or add_route("/r/{y:int(\n min=1)}")
    is accepted, then every find() raises SyntaxError ("lookups never fail
    with an internal error")."""
    p = run.project
    model = H.CxModel(p)
    T = H.TemplateText(p, model, cfg_of)
    mod = p.module(H.MODULE)
    run.extra['c01_node_text_attrs'] = {k: (v[0] if v[0] != 'groups' else 'groups' + repr(v[1])) for k, v in sorted(T.node_attrs.items())}
    run.extra['c01_validated_groups'] = {g: v[0] + ':' + str(v[1]) for g, v in sorted(T.validators.items())}
    gens = [f for f in mod.all_funcs if not (f.cls is not None and f.cls.qual in model.classes) and
            not (f.cls is not None and f.cls.qual in (model.base_parent, model.base_child))]
    W = {'quoted': 'add_route("/it\'s") accepted, then every find() raises SyntaxError; "/a\\x41" matches "/aA"',
         'comment': 'add_route("/r/{year:int(\\n    num_digits=4)}") is accepted (whitespace is legal inside a field expression); the rest of the '
                    'comment lands on a new line of the generated source and the first find() -- for any path -- raises SyntaxError',
         'bare': 'template text in code position of the generated finder: SyntaxError / NameError at the first find()'}
    deps: Set[str] = set()
    n_templates = 0
    n_ph = 0
    for cq, cx in sorted(model.classes.items()):
        if cx.src_func.cls is None or cx.src_func.cls.qual != cq:
            continue   # inherits src()
        src = cx.src_func
        sites = None
        for (call, tmpl) in _src_format_calls(p, cx):
            n_templates += 1
            for (idx, conv, pos, line, quote) in H.placeholder_positions(tmpl, src.qual, with_quote=True):
                if idx >= len(call.args):
                    raise UnknownIdiom('%s: placeholder {%d} without argument' % (src.qual, idx))
                a = call.args[idx]
                # -- what the placeholder is fed with, in terms of the construct
                if isinstance(a, ast.Call) and isinstance(p.callee(src, a), Func) and p.callee(src, a).qual == model.base_parent + '._children_src':
                    continue   # the children's own rendered lines
                if isinstance(a, ast.BinOp) and isinstance(a.op, ast.Mult):
                    ws = [v for v in (p.fold(src.module, side, cx.cls, src) for side in (a.left, a.right)) if isinstance(v, str)]
                    if len(ws) == 1 and ws[0].strip(' \t') == '' and pos == 'bare':
                        continue   # indentation
                    raise UnknownIdiom('%s: %s' % (src.qual, short(a, 60)))
                if conv is None and isinstance(a, ast.Call) and isinstance(a.func, ast.Name) and a.func.id in ('repr', 'ascii') \
                        and len(a.args) == 1 and not a.keywords and p.resolve_callable(src, a.func) == 'builtins.' + a.func.id:
                    conv, a = a.func.id[0], a.args[0]     # repr(x) fed to a plain placeholder: the same as {..!r}
                if conv in ('r', 'a'):
                    if pos == 'quoted':
                        raise UnknownIdiom('%s: {%d!%s} between quotes in %r' % (src.qual, idx, conv, line))
                    n_ph += 1
                    run.ok('%s renders {%d!%s} through repr(): whatever the text, it is one well-formed literal' % (cx.name, idx, conv),
                           src.loc(call), '%s :: {%d!%s} <- %s' % (line, idx, conv, short(a, 40)))
                    continue
                if isinstance(a, ast.Constant) and isinstance(a.value, (str, int)):
                    t = H.const_txt(str(a.value))
                    n_ph += 1
                    run.check(not (t.haz & H.FORBIDDEN[pos]), '%s renders a constant into %s position' % (cx.name, pos), src,
                              '%s :: {%d} <- %s' % (line, idx, short(a, 40)), where=src.loc(call))
                    continue
                fed_by = a
                a, chain = H.peel_escape(a)
                if _self_attr(a) is None:
                    raise UnknownIdiom('%s: placeholder {%d} of %r is fed by %s' % (src.qual, idx, line, short(fed_by, 60)))
                # a hand-written escape (<attr>.replace(c, c')...): which hazards it provably neutralises at this position
                neutral, altered, failing = H.escape_effect(chain, pos, quote, src.qual)
                if chain:
                    run.check(not altered, '%s renders self.%s between %s quotes through a hand-written escape: the escape leaves every ordinary '
                              'character denoting itself' % (cx.name, a.attr, quote), src,
                              '%s :: {%d} <- %s [ordinary characters]' % (line, idx, short(fed_by, 80)), where=src.loc(call),
                              witness=['%r is rendered as %r' % (c, H.apply_chain(chain, c)) for c in altered[:6]] if altered else None,
                              runtime_witness='the literal compared with the path segment is not the text of the template segment')
                attr = a.attr
                if attr not in cx.attr_src:
                    raise UnknownIdiom('%s: self.%s is not set by the constructor' % (src.qual, attr))
                if sites is None:
                    sites = [(f, c) for f in gens for c in walk_self(f.node) if isinstance(c, ast.Call) and _is_class(p.callee(f, c), cq)]
                if not sites:
                    raise AnchorError('no instantiation of %s found' % cx.name)
                for (f, c) in sites:
                    txt = T.cx_attr_txt(cx, attr, f, c)
                    fed = cx.attr_src[attr]
                    arg_txt = ', '.join(short(T.ctor_arg(cx, c, i)[0], 50) for i in ([fed[1]] if fed[0] == 'param' else fed[2] if fed[0] == 'name' else []))
                    if txt is None:
                        raise UnknownIdiom('%s: origin of %s (rendered as self.%s of %s into %s position: %r) is not understood' % (
                            f.qual, arg_txt or attr, attr, cx.name, pos, line))
                    bad = sorted((txt.haz & H.FORBIDDEN[pos]) - neutral)
                    deps |= txt.deps
                    n_ph += 1
                    esc = []
                    if chain:
                        esc = ['hand-written escape %s: on the alphabet {backslash, \', ", CR, LF} it %s' % (
                            short(fed_by, 80), ('handles ' + ' and '.join(sorted(neutral))) if neutral else 'handles neither class completely')]
                        esc += ['the character %r is rendered as the source text %r' % (ch, (quote or '') + H.apply_chain(chain, ch) + (quote or ''))
                                for hz in bad for ch in failing.get(hz, [])]
                        if bad and H.QUOTE not in bad:
                            # the escape is complete for quotes and backslashes; the bound on the text (`may contain a line break`) is
                            # an over-approximation for some creation sites (a literal segment has no field expression)
                            raise UnknownIdiom('%s: %s escapes quotes and backslashes but not line breaks; whether the text created at %s '
                                               'can contain a line break is not decided' % (src.qual, short(fed_by, 80), f.loc(c)))
                    run.check(not bad, '%s renders self.%s %s (%s): the text reaching it from this creation site is an int, a generated name, a '
                              'constant, or template text validated so that it cannot contain %s -- otherwise it needs a conversion (!r) or an '
                              'escape that provably escapes the backslash, the quote and the line break' % (
                                  cx.name, attr, {'quoted': 'between quotes', 'comment': 'in a trailing comment', 'bare': 'in code position'}[pos],
                                  line, ' / '.join(sorted(H.FORBIDDEN[pos]))),
                              src, '%s :: {%d} <- %s <- %s' % (line, idx, ('self.' + attr) if not chain else short(fed_by, 80),
                                                               arg_txt or '<constant>'), where=f.loc(c),
                              witness=['created in %s: %s' % (f.qual, short(c, 100))] + ['may contain %s' % ', '.join(bad)] + list(txt.notes) + esc
                              if bad else None,
                              runtime_witness=W[pos])
    if n_templates < 8:
        raise AnchorError('only %d _Cx* source templates found' % n_templates)
    if n_ph < 12:
        raise AnchorError('only %d rendered placeholders found' % n_ph)

    # ---- the validators relied upon
    def probe(what, func, const, pattern, method, where):
        try:
            sane, accepted = H.probe_regex(pattern, method)
        except Exception as e:   # re.error
            raise UnknownIdiom('%s = %r does not compile: %s' % (const, pattern, e))
        if not sane:
            raise UnknownIdiom('%s = %r does not accept a plain identifier through .%s()' % (const, pattern, method))
        only_trailing_nl = bool(accepted) and all(s.endswith('\n') and s.count('\n') == 1 and '\r' not in s and not s.startswith('\n')
                                                   for ss in accepted.values() for s in ss) and set(accepted) == {H.NL}
        tag = ''
        if only_trailing_nl:
            tag = ' [end anchor admits a trailing newline]'
        elif accepted:
            tag = ' [admits %s]' % ', '.join(sorted(accepted))
        run.check(not accepted, what + ': used through .%s() the pattern rejects every probe string containing a line break, quote, '
                  'backslash, whitespace or punctuation (`$` also matches before a trailing newline; `\\Z` or .fullmatch() do not)' % method,
                  func, '%s = %r%s' % (const, pattern, tag), where=where,
                  witness=['accepted: %r' % sorted({s for ss in accepted.values() for s in ss})[:6]] if accepted else None,
                  runtime_witness='add_route("/a/{x\\n}") is accepted (the field name "x\\n" passes), then every find() raises '
                                  'SyntaxError: unterminated string literal')

    for d in sorted(deps):
        kind, _, g = d.partition(':')
        if kind == 'regex':
            v = T.validators[g]
            probe('field-expression group %r is validated against an identifier pattern before a template is accepted' % g,
                  T.validator, v[1], v[2], v[3], T.validator.loc(v[4]))
        elif kind == 'member':
            v = T.validators[g]
            const, pattern, method, fn = _converter_keys_proof(p, T, v[1])
            probe('field-expression group %r must be a key of self.%s, whose keys are validated by %s' % (g, v[1], fn.qual),
                  fn, const, pattern, method, fn.loc())
        elif kind == 'ws':
            st, fn, node, note = T.ws_check()
            tag = {'proved': '', 'spans': " [a field expression may span '/': whitespace inside it becomes literal text of a segment]",
                   'absent': ''}[st]
            run.check(st == 'proved', 'a template is rejected when a segment has whitespace outside its own field expressions (segment text '
                      'outside the fields is rendered into a comment of the generated source and must not break the line): %s' % note, fn,
                      (short(node.test, 120) + tag) if node is not None else note,
                      where=fn.loc(node) if node is not None else fn.loc(),
                      runtime_witness='add_route("/{a:int(1/\\n2)}-{y}") is accepted (the whole-template check sees one field); after the split '
                                      'the second segment is "\\n2)}-{y}", its pattern source "^\\n2\\)}-(?P<y>.+)$" breaks the `# <pattern>` comment '
                                      'over two lines and every find() raises SyntaxError')
    # the validator runs on every segment before anything is inserted (order: R1 b)
    add = T.add_route
    # (by add_route itself, or by the method of the same class it hands the split template to)
    run.check(any(isinstance(c, ast.Call) and p.callee(g, c) is T.validator for (g, _sv) in T._segment_loops() for c in walk_self(g.node)),
              'add_route validates every template segment (%s)' % T.validator.name, add, 'call of %s' % T.validator.name, where=add.loc())


# ---------------------------------------------------------------------------
# R10 every accepted add_route invalidates (or rebuilds) the compiled finder
# ---------------------------------------------------------------------------

def r10_finder_invalidated(run):
    """The compiled finder is a snapshot of the tree.  add_route changes what
    lookups must return even when no node is created (a template ending on an
    existing intermediate node gives that node a resource), so every normal
    return of add_route must have re-assigned the finder slot -- to a fresh
    compile or to the lazy stub.  W: add('/a/{x}/e'); find(...) (compiles);
    add('/a/{x}') without compile=True; find('/a/a') -> None."""
    p = run.project
    f = p.func('falcon.routing.compiled.CompiledRouter.add_route')
    cfg = cfg_of(f, p)
    run.use_cfg(cfg)
    init = p.func('falcon.routing.compiled.CompiledRouter.__init__')
    find = p.func('falcon.routing.compiled.CompiledRouter.find')
    # the finder slot = the non-method self attribute that find() calls
    def called_slots(g):
        return {c.func.attr for c in walk_self(g.node) if isinstance(c, ast.Call) and isinstance(c.func, ast.Attribute)
                and isinstance(c.func.value, ast.Name) and c.func.value.id == 'self' and p.lookup_method(f.cls.qual, c.func.attr) is None}

    slots = called_slots(find)
    if not slots:
        # one level of same-class helper (`find` -> `self._lookup(...)` -> `self._find(...)`)
        for c in walk_self(find.node):
            if isinstance(c, ast.Call) and _self_attr(c.func) is not None:
                t = p.callee(find, c)
                if isinstance(t, Func) and t.cls is find.cls and t is not find:
                    slots |= called_slots(t)
    if not slots and any(st.method is find for st in _finder_sites(p, find.cls)):
        slots = {FINDER_SLOT}   # called through a local alias (`f = self._find; f(...)`)
    if len(slots) != 1:
        raise AnchorError('finder slot of CompiledRouter.find not identified: %s' % sorted(slots))
    slot = slots.pop()
    stores = [n.id for n in cfg.live_nodes() if n.kind == 'stmt' and isinstance(n.ast, ast.Assign)
              and any(isinstance(t, ast.Attribute) and t.attr == slot and isinstance(t.value, ast.Name) and t.value.id == 'self' for t in n.ast.targets)]
    if not stores:
        raise AnchorError('add_route never assigns self.%s' % slot)
    path = flow.find_path(cfg, [cfg.entry], [cfg.exit], avoid_nodes=stores, edge_filter=flow.no_exc)
    run.check(path is None, 'every normal return of add_route re-assigns the finder slot self.%s (fresh compile or lazy stub)' % slot,
              f, 'self.%s not reassigned on a normal path' % slot, where=f.loc(),
              witness=flow.describe_path(cfg, path) if path else None,
              runtime_witness="add('/a/{x}/e'); a lookup; add('/a/{x}') -> find('/a/a') still answers from the stale finder")
    # each store is either a compile result or the lazy stub (a method of the router)
    def fresh_or_stub(v) -> bool:
        if isinstance(v, ast.Call) and isinstance(v.func, ast.Attribute) and isinstance(v.func.value, ast.Name) and v.func.value.id == 'self':
            return p.lookup_method(f.cls.qual, v.func.attr) is not None
        if isinstance(v, ast.Attribute) and isinstance(v.value, ast.Name) and v.value.id == 'self':
            return p.lookup_method(f.cls.qual, v.attr) is not None
        return False

    for nid in stores:
        v = cfg.node(nid).ast.value
        # `self._find = self._compile() if <flag> else self._compile_and_find`: each arm is a store of its own (one obligation per arm,
        # like the two statements of the if/else spelling)
        arms = [v.body, v.orelse] if isinstance(v, ast.IfExp) else [v]
        for arm in arms:
            run.check(fresh_or_stub(arm), 'the finder slot is set to a fresh compile or to the lazy-compile stub', f,
                      cfg.node(nid).ast if len(arms) == 1 else '%s [arm %s]' % (short(cfg.node(nid).ast, 100), short(arm, 40)),
                      where=f.loc(cfg.node(nid).ast))


# ---------------------------------------------------------------------------
# R11 converter bounds: "no bound" is None, never a falsy number
# ---------------------------------------------------------------------------

def r11_converter_bounds(run):
    """A numeric converter option (min, max, num_digits) whose constructor
    parameter is Optional[<number>] uses None for "not given"; 0 and 0.0 are
    real bounds.  Every test of such an option must therefore be an identity
    test against None -- a truthiness test (`if x`, `not x`, `x or y`,
    `x and y`) treats the bound 0 as absent and the converter stops vetoing.
    W: /items/{idx:int(min=0)} accepts idx=-1 instead of backtracking."""
    p = run.project
    mod = p.module('falcon.routing.converters')
    numeric_attrs = {}   # attr name -> (class qual, stmt)
    for cq, c in sorted(p.classes.items()):
        if c.module is not mod:
            continue
        init = c.methods.get('__init__')
        if init is None:
            continue
        ann = {}
        for a in init.node.args.args + init.node.args.kwonlyargs:
            if a.annotation is not None:
                t = ast.unparse(a.annotation)
                if ('Optional' in t or 'None' in t) and ('int' in t or 'float' in t) and 'bool' not in t:
                    ann[a.arg] = t
        # an option whose constructor rejects 0 (`x < 1` / `x <= 0` -> raise) has no
        # falsy legal value: truthiness and `is not None` agree for it
        for st in walk_no_nested(init.node):
            if isinstance(st, ast.If) and any(isinstance(b, ast.Raise) for b in st.body):
                for cmp_ in ast.walk(st.test):
                    if isinstance(cmp_, ast.Compare) and len(cmp_.ops) == 1 and isinstance(cmp_.left, ast.Name) and cmp_.left.id in ann \
                            and isinstance(cmp_.comparators[0], ast.Constant):
                        cv = cmp_.comparators[0].value
                        if (isinstance(cmp_.ops[0], ast.Lt) and cv == 1) or (isinstance(cmp_.ops[0], ast.LtE) and cv == 0):
                            ann.pop(cmp_.left.id, None)
        for st in walk_no_nested(init.node):
            if isinstance(st, ast.Assign) and isinstance(st.value, ast.Name) and st.value.id in ann:
                for t in st.targets:
                    if isinstance(t, ast.Attribute) and isinstance(t.value, ast.Name) and t.value.id == 'self':
                        numeric_attrs[t.attr] = (cq, st)
    if len(numeric_attrs) < 2:
        raise AnchorError('numeric Optional options of the converters not found: %s' % sorted(numeric_attrs))

    def truthiness_uses(fn):
        """attribute reads `X.<attr>` used for their truth value"""
        out = []

        def visit(e, boolctx):
            if isinstance(e, ast.Attribute) and e.attr in numeric_attrs and boolctx:
                out.append(e)
                return
            if isinstance(e, ast.BoolOp):
                for v in e.values:
                    visit(v, True)
                return
            if isinstance(e, ast.UnaryOp) and isinstance(e.op, ast.Not):
                visit(e.operand, True)
                return
            if isinstance(e, ast.IfExp):
                visit(e.test, True)
                visit(e.body, False)
                visit(e.orelse, False)
                return
            for ch in ast.iter_child_nodes(e):
                if isinstance(ch, ast.expr):
                    visit(ch, False)

        for n in walk_no_nested(fn.node):
            if isinstance(n, (ast.If, ast.While)):
                visit(n.test, True)
            elif isinstance(n, ast.Assert):
                visit(n.test, True)
            elif isinstance(n, ast.stmt):
                for ch in ast.iter_child_nodes(n):
                    if isinstance(ch, ast.expr):
                        visit(ch, False)
        return out

    n_fn = 0
    for fn in p.all_functions('falcon.routing.converters.'):
        reads = [x for x in ast.walk(fn.node) if isinstance(x, ast.Attribute) and x.attr in numeric_attrs and isinstance(x.ctx, ast.Load)]
        if not reads:
            continue
        n_fn += 1
        bad = truthiness_uses(fn)
        run.check(not bad, '%s tests numeric converter options by identity with None, never by truthiness' % fn.qual, fn,
                  bad[0] if bad else 'reads of %s' % ', '.join(sorted({x.attr for x in reads})), where=fn.loc(bad[0] if bad else None),
                  runtime_witness='int(min=0) / float(max=0): a value on the wrong side of zero is accepted, the lookup does not backtrack')
    if n_fn < 1:
        raise AnchorError('converter functions reading numeric options not found (%d)' % n_fn)


# ---------------------------------------------------------------------------
# R13 built-in converters veto exactly what they are documented to veto
# ---------------------------------------------------------------------------

CONVERTERS = 'falcon.routing.converters'


def _builtin_converters(p) -> Dict[str, Class]:
    """identifier -> class, read from the BUILTIN table (the identifiers are
    what URI templates name: public contract)."""
    mod = p.module(CONVERTERS)
    tab = mod.consts.get('BUILTIN')
    if not isinstance(tab, (ast.Tuple, ast.List)) or not tab.elts:
        raise AnchorError('%s.BUILTIN is not a tuple display of (identifier, class) pairs' % CONVERTERS)
    out: Dict[str, Class] = {}
    for el in tab.elts:
        if not (isinstance(el, (ast.Tuple, ast.List)) and len(el.elts) == 2 and isinstance(el.elts[0], ast.Constant)
                and isinstance(el.elts[0].value, str)):
            raise UnknownIdiom('%s.BUILTIN: entry %s' % (CONVERTERS, short(el, 60)))
        q = p.resolve_expr(mod, el.elts[1])
        if q not in p.classes:
            raise UnknownIdiom('%s.BUILTIN: %s is not a class of the analysed tree' % (CONVERTERS, short(el.elts[1], 40)))
        out[el.elts[0].value] = p.classes[q]
    return out


def _return_site(conv: Func, I: 'H.Concrete') -> Tuple[Func, str]:
    """Where the None came from: the `return` that produced it, described by the test / handler it sits under."""
    if not I.returns or I.returns[-1][0] is not conv:
        return conv, 'falls off the end of convert() (returns None)'
    f, stmt = H.originating_return(I.returns)
    par = enclosing_map(f.node)
    child = stmt
    for anc in ancestors(stmt, par):
        if isinstance(anc, ast.If):
            neg = not any(child is s for s in anc.body)
            return f, '%s under `%s%s`' % (short(stmt, 60), 'not: ' if neg else '', short(anc.test, 110))
        if isinstance(anc, ast.ExceptHandler):
            return f, '%s in `except %s`' % (short(stmt, 60), short(anc.type, 60) if anc.type is not None else '')
        if isinstance(anc, (ast.FunctionDef, ast.AsyncFunctionDef)):
            break
        child = anc
    return f, short(stmt, 100)


def r13_builtin_converters(run):
    """"Converters may veto a match": a field with a built-in converter matches
    exactly the values the converter is documented to accept -- the conversion
    primitive (int / float / datetime.strptime / uuid.UUID / '/'.join) decides,
    narrowed only by the documented options (num_digits, min, max, finite,
    format_string) and the tabled whitespace screening of int/float.  convert()
    (with __init__ and same-tree helpers) is interpreted on a probe set per
    converter and option set and compared with that table: an ADDITIONAL veto
    in front of the primitive (layout regex, length / character-class test)
    that rejects a probe the primitive accepts is a violation; one that is
    implied by the primitive's own rejection (`if not value: return None`) is
    silent.  W: a uuid pre-check written with [0-9a-f]: /widgets/{wid:uuid}
    no longer matches /widgets/6F9619FF-8B86-D011-B42D-00C04FC964FF, the walk
    falls into another branch (or 404)."""
    p = run.project
    table = _builtin_converters(p)
    missing = sorted(set(H.CONVERTER_ORACLES) - set(table))
    if missing:
        raise AnchorError('%s.BUILTIN no longer lists the converter(s) %s' % (CONVERTERS, ', '.join(missing)))
    extra = sorted(set(table) - set(H.CONVERTER_ORACLES))
    if extra:
        raise UnknownIdiom('%s.BUILTIN lists converter(s) %s whose documented behaviour is not tabled' % (CONVERTERS, ', '.join(extra)))
    import copy
    for ident, cls in sorted(table.items()):
        spec = H.CONVERTER_ORACLES[ident]
        conv = p.lookup_method(cls.qual, 'convert')
        if conv is None:
            raise AnchorError('%s has no convert()' % cls.qual)
        run.use(conv)
        probes = list(spec['probes'])
        if spec['numeric']:
            # lengths the code itself mentions (a length cut-off shows at its boundary)
            seen_fn = [conv] + [t for c in walk_self(conv.node) if isinstance(c, ast.Call) for t in [p.callee(conv, c)] if isinstance(t, Func)]
            for fn in seen_fn:
                for n in ast.walk(fn.node):
                    if isinstance(n, ast.Constant) and type(n.value) is int and 2 <= n.value <= 200:
                        probes += ['1' * (n.value - 1), '1' * n.value, '1' * (n.value + 1)]
        findings: Dict[Tuple[str, str, str], List[str]] = {}
        funcs_of: Dict[Tuple[str, str, str], Func] = {}
        for opts in spec['configs']:
            I = H.Concrete(p, conv.qual)
            label = '%s(%s)' % (ident, ', '.join('%s=%r' % kv for kv in sorted(opts.items())))
            try:
                obj = I.call(H.ClassVal(cls), [], dict(opts))
            except H.CRaise as e:
                raise UnknownIdiom('%s: the constructor refuses the documented option set %s (%s)' % (cls.qual, label, e.qual))
            n_bad = 0
            for probe in probes:
                I.returns = []
                I.steps = 0
                why, want = spec['oracle'](opts, probe)
                raised = None
                got = None
                try:
                    got = I.call_func(conv, [obj, copy.copy(probe)], {})
                except H.CRaise as e:
                    raised = e.qual
                shown = '%s on %r' % (label, probe)
                if raised is not None:
                    key = ('raise', conv.qual, 'convert() raises %s' % raised.rsplit('.', 1)[-1])
                    f = conv
                elif why is None and got is None:
                    f, site = _return_site(conv, I)
                    key = ('veto', f.qual, site)
                    shown += ' (documented result: %r)' % (want,)
                elif why is not None and got is not None:
                    f = conv
                    key = ('accept', conv.qual, 'a value is accepted that is to be rejected: %s' % why)
                    shown += ' -> %r' % (got,)
                elif why is None and not H.same_value(got, want):
                    f = conv
                    key = ('value', conv.qual, 'convert() returns a different value than the conversion primitive')
                    shown += ' -> %r, documented %r' % (got, want)
                else:
                    continue
                n_bad += 1
                findings.setdefault(key, []).append(shown)
                funcs_of[key] = f
            if n_bad == 0:
                run.ok('%s: convert() vetoes / converts the %d probe values exactly as documented (primitive, documented options, '
                       'tabled whitespace screening)' % (label, len(probes)), conv.loc(), '%s.convert [%s]' % (cls.name, label))
        WHAT = {'veto': 'rejects a field value only where the documented converter does: the conversion primitive fails, a documented option '
                        'excludes it, or (int/float) it is padded with whitespace -- no additional veto in front of the primitive',
                'accept': 'rejects every field value the documented converter rejects',
                'value': 'returns the value the conversion primitive yields',
                'raise': 'never raises: a field value that cannot be converted is vetoed with None'}
        RW = {'veto': 'a route with a {field:%s} segment no longer matches such a path: the walk backtracks into another branch or ends in 404' % ident,
              'accept': 'a path whose field value the converter must veto is routed to the {field:%s} route instead of backtracking' % ident,
              'value': 'the matched route gets a different field value',
              'raise': 'find() fails with an internal error instead of backtracking'}
        for key in sorted(findings):
            kind, _fq, construct = key
            run.fail('%s converter (%s): convert() %s' % (ident, cls.name, WHAT[kind]), funcs_of[key], construct,
                     where=funcs_of[key].loc(), witness=findings[key][:8] + (['... %d more' % (len(findings[key]) - 8)] if len(findings[key]) > 8 else []),
                     runtime_witness=RW[kind])


# ---------------------------------------------------------------------------
# R14 the finder walks the segments of the request path as given
# ---------------------------------------------------------------------------

def r14_find_segments(run):
    """The segment list find() hands to the compiled finder is exactly
    `uri.lstrip('/').split('/')` of its argument: an empty segment is a segment
    (matched by a single-field node, literal in '/c/', part of what a trailing
    path converter swallows).  find() -- through one same-class helper if need
    be -- is interpreted up to the finder call on a probe set of paths; any
    further transformation that changes the list for some probe (collapsing
    '//' , dropping empty segments, strip, case folding, unquoting) is a
    violation; a rewrite that yields the same list for every probe is silent.
    W: routes /a/b and /a/{x}/b: find('/a//b') returns /a/b instead of
    /a/{x}/b with x=''."""
    p = run.project
    find = p.func(ROUTER + '.find')
    router = p.cls(ROUTER)
    run.use(find)
    prms = [x for x in find.params() if x not in ('self', 'cls')]
    if not prms:
        raise AnchorError('%s takes no path argument' % find.qual)
    site = single([st for st in _finder_sites(p, router) if st.method is find],
                  'call of self.%s (directly or through one same-class helper)' % FINDER_SLOT, find.qual)
    FINDER = object()

    class _Stop(Exception):
        pass

    got_args: List[list] = []

    def attr_hook(obj, name):
        return FINDER if name == FINDER_SLOT else NotImplemented

    def call_hook(fn, args, kwargs, node):
        if fn is FINDER:
            got_args.append(list(args))
            raise _Stop()
        return NotImplemented

    bad: List[str] = []
    n = 0
    for probe in H.FIND_PROBES:
        I = H.Concrete(p, find.qual, attr_hook=attr_hook, call_hook=call_hook)
        del got_args[:]
        want = probe.lstrip('/').split('/')
        try:
            res = I.call_func(find, [H.CObj(router), probe], {})
            bad.append('find(%r) answers %r without running the finder (segments to walk: %r)' % (probe, res, want))
        except _Stop:
            if not got_args[0]:
                raise UnknownIdiom('%s: the finder is called without positional arguments' % find.qual)
            got = got_args[0][0]
            if not (isinstance(got, (list, tuple)) and list(got) == want):
                bad.append('find(%r): the finder walks %r, the path has the segments %r' % (probe, got, want))
        except H.CRaise as e:
            bad.append('find(%r) raises %s before the finder runs' % (probe, e.qual.rsplit('.', 1)[-1]))
        n += 1
    # what the extra step is (for the key and the witness): provenance of the path argument
    construct = 'path argument %s of self.%s' % (short(site.args[0], 60) if site.args else '<none>', FINDER_SLOT)
    steps: List[str] = []
    if bad and site.args:
        try:
            prov = H.path_provenance(p, find, prms[0])
            o = prov.classify(site.args[0], H.node_of_ast(prov.cfg, site.anchor))

            def normal(node):
                return (isinstance(node, ast.Call) and isinstance(node.func, ast.Attribute) and node.func.attr in ('split', 'lstrip')
                        and len(node.args) == 1 and not node.keywords and isinstance(node.args[0], ast.Constant) and node.args[0].value == '/')
            extras = [x for x in o.xforms if not normal(x[1])]
            if extras:
                construct = ' ; '.join(short(x[1], 90) for x in extras)
            steps = o.describe()
        except (UnknownIdiom, AnchorError):
            pass
    run.check(not bad, 'the segment list handed to the compiled finder is uri.lstrip(\'/\').split(\'/\') of find()\'s argument for each of %d '
              'probe paths (empty segments kept, nothing collapsed, stripped, filtered or re-cased)' % n, find, construct,
              where=find.loc(site.anchor), witness=(bad[:8] + ['on the way from the parameter: %s' % s_ for s_ in steps]) if bad else None,
              runtime_witness="routes /a/b and /a/{x}/b: find('/a//b') must walk ['a', '', 'b'] and return /a/{x}/b with x=''; "
                              "'/files//a' under /files/{p:path} must give p='/a'")


# ---------------------------------------------------------------------------
# R15 the multi-segment decision reads the converter's flag, not its type
# ---------------------------------------------------------------------------

FLAG_ATTR = 'CONSUME_MULTIPLE_SEGMENTS'   # documented class attribute of converters: public contract
PREDICATE_ANCHOR = 'falcon.routing.converters._consumes_multiple_segments'


def _flag_readers(p) -> Tuple[List[Func], List[Tuple[Func, ast.AST]]]:
    """(predicates, inline reads): functions of falcon.routing.* whose code
    reads the flag -- `<x>.CONSUME_MULTIPLE_SEGMENTS` or the attribute name as
    a string constant (getattr) -- split into one-argument functions (the
    decision as a predicate of the converter) and anything else."""
    preds: List[Func] = []
    inline: List[Tuple[Func, ast.AST]] = []
    for mname, mod in sorted(p.modules.items()):
        if not (mname == 'falcon.routing' or mname.startswith('falcon.routing.')):
            continue
        for f in mod.all_funcs:
            reads = [n for n in walk_self(f.node)
                     if (isinstance(n, ast.Attribute) and n.attr == FLAG_ATTR and isinstance(n.ctx, ast.Load))
                     or (isinstance(n, ast.Constant) and n.value == FLAG_ATTR)]
            if not reads:
                continue
            prms = [x for x in f.params() if x not in ('self', 'cls')]
            a = f.node.args
            if len(prms) == 1 and not (a.vararg or a.kwarg or a.kwonlyargs) and isinstance(f.node, ast.FunctionDef):
                preds.append(f)
            else:
                inline.append((f, reads[0]))
    return preds, inline


def r15_multi_segment_flag(run):
    """"A trailing path-converter swallows the rest": whether a field consumes
    the remaining segments is decided by the CONSUME_MULTIPLE_SEGMENTS
    attribute of whatever was registered in the converter map -- any class with
    a convert() method may be registered, it need not derive from
    BaseConverter.  The predicate the router consults is interpreted on model
    converters (a plain class and a BaseConverter subclass, each with the flag
    set / unset / absent, as class and as instance) and on the built-in ones:
    its truth value must be the flag's (absent = False) and it must not raise.
    A gate on the converter's type (isinstance / issubclass / type() is) that
    changes the answer for one of them is a violation; class-vs-instance
    plumbing that does not is silent.  W: options.converters['rest'] = a plain
    class with CONSUME_MULTIPLE_SEGMENTS = True: '/static/{tail:rest}' no
    longer matches '/static/a/b', and '/static/css' yields tail='c/s/s'."""
    p = run.project
    preds, inline = _flag_readers(p)
    named = p.funcs.get(PREDICATE_ANCHOR)     # declared anchor: today's name of the predicate, should it stop reading the flag
    if named is not None and named not in preds:
        if len([x for x in named.params() if x not in ('self', 'cls')]) != 1:
            raise UnknownIdiom('%s no longer takes exactly the converter' % named.qual)
        preds.append(named)
    if inline:
        f, n = inline[0]
        raise UnknownIdiom('%s reads %s outside a one-argument predicate of the converter (%s): not modelled' % (f.qual, FLAG_ATTR, short(n, 60)))
    if not preds:
        raise AnchorError('no function of falcon.routing reads %s' % FLAG_ATTR)
    gen = p.func(ROUTER + '._generate_ast')
    router = p.cls(ROUTER)
    users: Dict[str, List[str]] = {}
    for m in router.methods.values():
        for g in [m] + list(m.nested.values()):
            for c in walk_self(g.node):
                if isinstance(c, ast.Call):
                    t = p.callee(g, c)
                    if isinstance(t, Func) and t in preds:
                        users.setdefault(t.qual, []).append(g.qual)
    if not any(gen.qual in v for v in users.values()):
        raise AnchorError('%s does not consult a predicate reading %s' % (gen.qual, FLAG_ATTR))
    run.extra['c01_multi_segment_predicates'] = {k: sorted(set(v)) for k, v in sorted(users.items())}
    base = p.cls(CONVERTERS + '.BaseConverter')
    table = _builtin_converters(p)
    W = ("router.options.converters['rest'] = a class with CONSUME_MULTIPLE_SEGMENTS = True that does not derive from BaseConverter: "
         "'/static/{tail:rest}' stops matching '/static/a/b' and find('/static/css') yields tail='c/s/s'")
    for pred in preds:
        if pred.qual not in users:
            continue   # not consulted by the router
        run.use(pred)
        I = H.Concrete(p, pred.qual)
        MC, MO = H.ModelClass, H.ModelObj
        models = [
            ('a plain class (not a BaseConverter) with %s = True' % FLAG_ATTR, MC('DuckMulti', (), {FLAG_ATTR: True})),
            ('a BaseConverter subclass with %s = True' % FLAG_ATTR, MC('DerivedMulti', (base.qual,), {FLAG_ATTR: True})),
            ('a plain class with %s = False' % FLAG_ATTR, MC('DuckSingle', (), {FLAG_ATTR: False})),
            ('a plain class without %s' % FLAG_ATTR, MC('DuckPlain', (), {})),
            ('a BaseConverter subclass that does not override %s' % FLAG_ATTR, MC('DerivedPlain', (base.qual,), {})),
        ]
        groups = {'user': [], 'builtin': []}
        for text, mc in models:
            groups['user'].append((text, mc, mc))
            groups['user'].append(('an instance of ' + text, MO(mc), mc))
        for ident, cls in sorted(table.items()):
            groups['builtin'].append(('the class %s' % cls.name, H.ClassVal(cls), H.ClassVal(cls)))
            groups['builtin'].append(('an instance of %s' % cls.name, H.CObj(cls), H.ClassVal(cls)))
        gates = [c for c in walk_self(pred.node) if isinstance(c, ast.Call) and isinstance(c.func, ast.Name)
                 and c.func.id in ('isinstance', 'issubclass', 'type')]
        gates += [c for c in walk_self(pred.node) if isinstance(c, ast.Attribute) and c.attr in ('__class__', '__mro__', '__bases__')]
        rets = [r for r in walk_self(pred.node) if isinstance(r, ast.Return)]
        for gname, cases in sorted(groups.items()):
            bad: List[str] = []
            for text, value, klass in cases:
                found, flag = I.lookup_attr(klass, FLAG_ATTR)
                want = I.truth(flag) if found else False
                I.steps = 0
                try:
                    got = I.call_func(pred, [value], {})
                except H.CRaise as e:
                    bad.append('%s: raises %s (the flag is %s)' % (text, e.qual.rsplit('.', 1)[-1], flag if found else 'absent'))
                    continue
                if I.truth(got) != want:
                    bad.append('%s: treated as %s, its flag says %s' % (text, 'multi-segment' if I.truth(got) else 'single-segment',
                                                                      'multi-segment' if want else 'single-segment'))
            construct = ' ; '.join(dict.fromkeys(short(g, 70) for g in gates)) if (bad and gates) else \
                ' ; '.join(dict.fromkeys(short(r, 90) for r in rets)) or pred.name
            run.check(not bad, '%s answers with the %s attribute of the registered converter (absent = False) for %s -- %d cases; the '
                      "converter's type plays no part" % (pred.name, FLAG_ATTR,
                                                          'user-defined converters, derived from BaseConverter or not' if gname == 'user'
                                                          else 'every built-in converter', len(cases)),
                      pred, '%s [%s]' % (construct, gname), where=pred.loc(gates[0] if (bad and gates) else None),
                      witness=bad[:10] if bad else None, runtime_witness=W)


# ---------------------------------------------------------------------------
# R16 the text the validator accepted is the text the node stores
# ---------------------------------------------------------------------------

class _GroupText:
    """One way a value is computed from a group of the field-expression match:
    `group`, `text` (the expression with the group read shown as <group>),
    `apply` (str -> value, Python's own str operations on constant arguments),
    `ops` (names of the str methods applied)."""

    def __init__(self, group: str, text: str, apply, ops: Tuple[str, ...] = ()):
        self.group, self.text, self.apply, self.ops = group, text, apply, ops

    def wrap(self, text: str, fn, op: Optional[str] = None) -> '_GroupText':
        inner = self.apply
        return _GroupText(self.group, text, lambda v: fn(inner(v)), self.ops + ((op,) if op else ()))


class _GroupFlow:
    """Backward reading of `<m>.group('<g>')` values inside one function:
    origin(expr) = the ways expr is the text of ONE group, possibly passed
    through str methods with constant arguments, `or/and <constant>`, a
    constant subscript, str(), `+ <constant>`, or a local bound to such a
    value.  None = expr is not group text; an expression that contains a group
    read in any other shape is an unknown idiom."""

    def __init__(self, p, f: Func, groups: Set[str]):
        self.p, self.f, self.groups = p, f, groups
        self.cfg = cfg_of(f, p)
        self.rd = H.ReachingDefs(self.cfg)

    def group_of(self, e) -> Optional[str]:
        g = H.TemplateText._group_of(e)
        return g if g in self.groups else None

    def _const(self, e):
        v = self.p.fold(self.f.module, e, None, self.f)
        return v

    def mentions(self, e) -> bool:
        return any(self.group_of(x) is not None for x in ast.walk(e))

    def origin(self, e, nid: int, depth: int = 0) -> Optional[List[_GroupText]]:
        if depth > 8:
            raise UnknownIdiom('%s: chain of locals too long at %s' % (self.f.qual, short(e, 60)))
        g = self.group_of(e)
        if g is not None:
            return [_GroupText(g, '<%s>' % g, lambda v: v)]
        out = self._origin(e, nid, depth)
        if out is None and self.mentions(e):
            raise UnknownIdiom('%s: the group text in `%s` is used in a shape this rule does not read' % (self.f.qual, short(e, 80)))
        return out

    def _origin(self, e, nid, depth):
        if isinstance(e, ast.Name):
            defs = self.rd.at(nid, e.id)
            outs: List[_GroupText] = []
            plain = 0
            for d in defs:
                val = self.rd.def_value(d, e.id) if d != H.ENTRY_DEF else None
                o = self.origin(val, d, depth + 1) if val is not None else None
                if o is None:
                    plain += 1
                else:
                    outs.extend(o)
            if outs and plain:
                raise UnknownIdiom('%s: %s is group text on some paths only' % (self.f.qual, e.id))
            return outs or None
        if isinstance(e, ast.Call) and isinstance(e.func, ast.Attribute) and not e.keywords:
            inner = self.origin(e.func.value, nid, depth + 1) if not isinstance(e.func.value, ast.Constant) else None
            if inner is None:
                return None
            m = e.func.attr
            args = [self._const(a) for a in e.args]
            if m.startswith('_') or not hasattr(str, m) or any(not isinstance(a, (str, int, type(None))) for a in args):
                raise UnknownIdiom('%s: `%s` applied to the text of a field-expression group' % (self.f.qual, short(e, 80)))

            def call(v, m=m, args=tuple(args)):
                r = getattr(v, m)(*args)     # v is a str: a pure str method on constant arguments
                if not isinstance(r, str):
                    raise UnknownIdiom('%s: .%s() of group text is not a str' % (self.f.qual, m))
                return r
            tail = '.%s(%s)' % (m, ', '.join(repr(a) for a in args))
            return [o.wrap(o.text + tail if o.text.startswith('<') or o.text.endswith(')') else '(%s)%s' % (o.text, tail), call, m) for o in inner]
        if isinstance(e, ast.BoolOp):
            idx = [i for i, x in enumerate(e.values) if not isinstance(x, ast.Constant)]
            if len(idx) != 1:
                return None
            inner = self.origin(e.values[idx[0]], nid, depth + 1)
            if inner is None:
                return None
            is_or = isinstance(e.op, ast.Or)
            before = [x.value for x in e.values[:idx[0]]]
            after = [x.value for x in e.values[idx[0] + 1:]]

            def boolop(v, is_or=is_or, before=tuple(before), after=tuple(after)):
                r = None
                for x in before + (v,) + after:
                    r = x
                    if bool(x) == is_or:
                        break
                return r
            word = ' or ' if is_or else ' and '
            return [o.wrap('(%s)' % word.join([repr(x) for x in before] + [o.text] + [repr(x) for x in after]), boolop) for o in inner]
        if isinstance(e, ast.Subscript):
            inner = self.origin(e.value, nid, depth + 1)
            if inner is None:
                return None
            if isinstance(e.slice, ast.Slice):
                parts = [None if x is None else self._const(x) for x in (e.slice.lower, e.slice.upper, e.slice.step)]
                if any(x is not None and not isinstance(x, int) for x in parts):
                    raise UnknownIdiom('%s: `%s`' % (self.f.qual, short(e, 80)))
                key = slice(*parts)
            else:
                key = self._const(e.slice)
                if not isinstance(key, int):
                    raise UnknownIdiom('%s: `%s`' % (self.f.qual, short(e, 80)))
            return [o.wrap('%s[%s]' % (o.text, short(e.slice, 30)), lambda v, key=key: v[key], 'subscript') for o in inner]
        if isinstance(e, ast.Call) and isinstance(e.func, ast.Name) and e.func.id == 'str' and len(e.args) == 1 and not e.keywords \
                and self.p.resolve_expr(self.f.module, e.func, self.f) == 'builtins.str':
            inner = self.origin(e.args[0], nid, depth + 1)
            return None if inner is None else [o.wrap('str(%s)' % o.text, str) for o in inner]
        if isinstance(e, ast.BinOp) and isinstance(e.op, ast.Add):
            for side, other, left in ((e.left, e.right, True), (e.right, e.left, False)):
                if isinstance(other, ast.Constant) and isinstance(other.value, str):
                    inner = self.origin(side, nid, depth + 1)
                    if inner is not None:
                        c = other.value
                        return [o.wrap(('%s + %r' % (o.text, c)) if left else ('%r + %s' % (c, o.text)),
                                       (lambda v, c=c: v + c) if left else (lambda v, c=c: c + v), 'concat') for o in inner]
            return None
        return None


def _group_probes(field_src: str) -> Dict[str, List[str]]:
    """Texts each group of the field pattern can take, from matching the
    (constant) pattern against sample field expressions: identifiers, case
    variants and padded forms.  Only the stdlib `re` engine runs."""
    import re
    rx = re.compile(field_src)
    words = ['int', 'x', 'field_1', 'Int', 'UUID', 'a b', '']
    pads = ['', ' ', '\t', '  ']
    cands = sorted({l + w + r for w in words for l in pads for r in pads})
    out: Dict[str, List[str]] = {}
    for c in cands:
        for tmpl in ('{%s}', '{x:%s}', '{%s:int}', '{x:%s(1)}', '{x:int(%s)}', '{%s:int(2)}'):
            m = rx.fullmatch(tmpl % c)
            if m is None:
                continue
            for g, v in m.groupdict().items():
                if v is not None and v not in out.setdefault(g, []):
                    out[g].append(v)
    return out


def r16_validated_text_is_stored_text(run):
    """Two consumers read the groups of the field-expression pattern: the
    validator (which decides whether add_route accepts the template) and
    CompiledRouterNode.__init__ (which stores what the generator later uses:
    the field name, the converter name it looks up in the converter map, the
    argument string).  For every group both read: whatever text the validator
    ACCEPTS -- matched against the identifier pattern, found in the converter
    map -- is the text the node stores.  Both derivations are read backward to
    the `<match>.group(<name>)` call (through str methods on constants,
    `or ''`, locals) and evaluated on the texts the pattern can produce; a
    transformation on one side only (strip / lower / slicing) that lets the
    validator accept a text the node does not store is a violation; the same
    transformation on both sides, or one that never changes an accepted text,
    is silent.  W: validator strips the converter name, the node does not:
    add_route('/orders/{oid: int}') is accepted, the next compilation raises
    KeyError(' int') and EVERY lookup on the router fails; with more segments
    the KeyError escapes insert() after the node was appended (no rollback)."""
    import re
    p = run.project
    # the anchors of the template-text model (field pattern constant, validator, node constructor) without its R9 reading of
    # the validator, which refuses shapes this rule decides
    T = H.TemplateText.__new__(H.TemplateText)
    T.p, T.mod, T.cfg_of = p, p.module(H.MODULE), cfg_of
    T.node_init = p.func(NODE + '.__init__')
    T.validator = p.func(ROUTER + '._validate_template_segment')
    T.add_route = p.func(ROUTER + '.add_route')
    T.field_const, T.field_src = T._field_pattern()
    try:
        T.groupindex = dict(re.compile(T.field_src).groupindex)
    except re.error as e:
        raise UnknownIdiom('%s does not compile: %s' % (T.field_const, e))
    groups = set(T.groupindex)
    V = _GroupFlow(p, T.validator, groups)
    N = _GroupFlow(p, T.node_init, groups)
    run.use_cfg(V.cfg)
    run.use_cfg(N.cfg)
    probes = _group_probes(T.field_src)

    # ---- validator: accepting uses
    vsinks: List[Tuple[str, ast.AST, ast.AST, tuple]] = []   # (kind, sink node, value expr, accept spec)
    for n in V.cfg.live_nodes():
        if n.copy:
            continue
        for x in n.walk():
            if isinstance(x, ast.Call) and isinstance(x.func, ast.Attribute) and x.func.attr in ('match', 'fullmatch', 'search') \
                    and isinstance(x.func.value, ast.Name) and T.regex_const(x.func.value.id) is not None and len(x.args) == 1 and not x.keywords:
                vsinks.append(('matched against %s' % x.func.value.id, x, x.args[0], ('regex', T.regex_const(x.func.value.id), x.func.attr)))
            elif isinstance(x, ast.Compare) and len(x.ops) == 1 and isinstance(x.ops[0], (ast.In, ast.NotIn)) \
                    and _self_attr(x.comparators[0]) is not None:
                vsinks.append(('looked up in self.%s' % _self_attr(x.comparators[0]), x, x.left, ('member', _self_attr(x.comparators[0]))))
            elif isinstance(x, ast.Subscript) and _self_attr(x.value) is not None and not isinstance(x.slice, ast.Slice):
                vsinks.append(('looked up in self.%s' % _self_attr(x.value), x, x.slice, ('member', _self_attr(x.value))))
            elif isinstance(x, ast.Call) and isinstance(p.callee(T.validator, x), Func) and p.callee(T.validator, x).cls is T.validator.cls \
                    and isinstance(x.func, ast.Attribute):
                for a in x.args:
                    vsinks.append(('passed to %s' % x.func.attr, x, a, ('opaque', x.func.attr)))
    accepted: Dict[str, List[Tuple[str, ast.AST, _GroupText, tuple]]] = {}
    for kind, node, val, spec in vsinks:
        o = V.origin(val, H.node_of_ast(V.cfg, node))
        for gt in (o or []):
            accepted.setdefault(gt.group, []).append((kind, node, gt, spec))

    # ---- node constructor: stores
    stores: Dict[str, List[Tuple[str, ast.AST, _GroupText]]] = {}
    for n in N.cfg.live_nodes():
        if n.copy or n.kind != 'stmt':
            continue
        a = n.ast
        items: List[Tuple[str, ast.AST]] = []
        if isinstance(a, (ast.Assign, ast.AnnAssign)) and a.value is not None:
            for t in (a.targets if isinstance(a, ast.Assign) else [a.target]):
                if _self_attr(t) is not None:
                    items.append(('self.%s' % _self_attr(t), a.value))
        elif isinstance(a, ast.Expr) and isinstance(a.value, ast.Call) and isinstance(a.value.func, ast.Attribute) \
                and a.value.func.attr in ('append', 'add', 'insert', 'extend') and _self_attr(a.value.func.value) is not None:
            for arg in a.value.args:
                for i, el in enumerate(arg.elts if isinstance(arg, (ast.Tuple, ast.List)) else [arg]):
                    items.append(('self.%s[..][%d]' % (_self_attr(a.value.func.value), i), el))
        for where, val in items:
            o = N.origin(val, n.id)
            for gt in (o or []):
                stores.setdefault(gt.group, []).append((where, a, gt))
    if not stores:
        raise AnchorError('%s stores no field-expression group' % T.node_init.qual)

    _keys_cache: Dict[str, tuple] = {}

    def accepts(spec, text) -> Optional[bool]:
        if spec[0] == 'regex':
            return bool(getattr(re.compile(spec[1]), spec[2])(text))
        if spec[0] == 'member':
            if spec[1] not in _keys_cache:
                _keys_cache[spec[1]] = _converter_keys_proof(p, T, spec[1])
            _c, pattern, method, _fn = _keys_cache[spec[1]]
            return bool(getattr(re.compile(pattern), method)(text))
        return None

    def downstream_ops(attr: str) -> Set[str]:
        """str-method names called in the functions that read <node>.<attr> (a transformation may be repeated there)."""
        out: Set[str] = set()
        for f in p.module(H.MODULE).all_funcs:
            if f is T.validator or f is T.node_init:
                continue
            if any(isinstance(x, ast.Attribute) and x.attr == attr and isinstance(x.ctx, ast.Load) for x in walk_self(f.node)):
                out |= {x.func.attr for x in walk_self(f.node) if isinstance(x, ast.Call) and isinstance(x.func, ast.Attribute)}
        return out

    n_ob = 0
    done: Set[tuple] = set()
    for g in sorted(stores):
        for (where, stmt, st) in stores[g]:
            for (kind, node, acc, spec) in accepted.get(g, []):
                ident = (g, where, kind, acc.text, st.text)
                if ident in done:
                    continue     # the same derivation consumed twice (`x not in self.T` and `self.T[x]`)
                done.add(ident)
                n_ob += 1
                differ = []
                for v in probes.get(g, []):
                    try:
                        a_txt, s_txt = acc.apply(v), st.apply(v)
                    except UnknownIdiom:
                        raise
                    except Exception as e:     # the derivation itself fails on a text the pattern can produce
                        raise UnknownIdiom('%s: evaluating the derivation of group %r on %r: %s' % (T.validator.qual, g, v, e))
                    if a_txt != s_txt:
                        differ.append((v, a_txt, s_txt))
                bad = []
                for (v, a_txt, s_txt) in differ:
                    ok = accepts(spec, a_txt) if isinstance(a_txt, str) else False
                    if ok is None:
                        raise UnknownIdiom('%s: group %r is %s as %s but stored as %s in %s; whether a text on which they differ '
                                           'is accepted is not decided by this rule' % (T.validator.qual, g, kind, acc.text, st.text, where))
                    if ok:
                        bad.append('field-expression text %r: the validator accepts %r (%s), the node stores %r' % (v, a_txt, kind, s_txt))
                if bad:
                    attr = where.split('.', 1)[1].split('[', 1)[0]
                    comp = (set(acc.ops) ^ set(st.ops)) & downstream_ops(attr)
                    if comp:
                        raise UnknownIdiom('%s: group %r is %s as %s but stored as %s; a reader of <node>.%s also applies %s -- '
                                           'compensation downstream is not modelled' % (T.validator.qual, g, kind, acc.text, st.text, attr,
                                                                                        ', '.join(sorted(comp))))
                side = T.validator if acc.ops or acc.text != '<%s>' % g else T.node_init
                run.check(not bad, 'group %r of a field expression: the text the validator accepts (%s) is the text CompiledRouterNode stores '
                          'in %s (%d texts the pattern can produce evaluated)' % (g, kind, where, len(probes.get(g, []))),
                          side, 'group %s: %s as %s / stored in %s as %s' % (g, kind, acc.text, where, st.text),
                          where=(T.validator.loc(node) if side is T.validator else T.node_init.loc(stmt)),
                          witness=bad[:6] if bad else None,
                          runtime_witness="add_route('/orders/{oid: int}') is accepted; the generator looks up the stored text: KeyError(' int') at "
                                          'the next compilation, every lookup on the router fails (and a longer template leaves half a branch behind)')
    if n_ob == 0:
        raise AnchorError('%s and %s share no field-expression group that is both checked and stored' % (T.validator.qual, T.node_init.qual))

# ---------------------------------------------------------------------------
# R17 the route payload of a node is (re)assigned as a group
# ---------------------------------------------------------------------------

def _payload_fields(p) -> Tuple[Func, List[str]]:
    """The node attributes a lookup result is made of: instance attributes of
    CompiledRouterNode (bound as `self.X` by its constructor) that find() reads
    in a return value."""
    find = p.func(ROUTER + '.find')
    init = p.constructor(p.cls(NODE))
    if init is None:
        raise AnchorError('%s has no constructor' % NODE)
    own = set()
    for n in walk_self(init.node):
        if isinstance(n, ast.Attribute) and isinstance(n.ctx, ast.Store) and isinstance(n.value, ast.Name) and n.value.id == 'self':
            own.add(n.attr)
    fields: List[str] = []
    for n in walk_self(find.node):
        if isinstance(n, ast.Return) and n.value is not None:
            # (a local bound once stands for its value: `method_map = node.method_map or {}; return node.resource, method_map, ..`)
            exprs = []
            for e in (n.value.elts if isinstance(n.value, ast.Tuple) else [n.value]):
                v = _single_local_def(find, e.id) if isinstance(e, ast.Name) else None
                exprs.append(v if v is not None else e)
            for x in ast.walk(ast.Tuple(elts=exprs, ctx=ast.Load())):
                if isinstance(x, ast.Attribute) and isinstance(x.ctx, ast.Load) and isinstance(x.value, ast.Name) \
                        and x.attr in own and x.attr not in fields:
                    fields.append(x.attr)
    if len(fields) < 2:
        raise AnchorError('%s returns fewer than two attributes of the matched %s' % (find.qual, NODE.rsplit('.', 1)[-1]))
    return find, fields


_PURE_TEST = (ast.Name, ast.Attribute, ast.Constant, ast.Compare, ast.BoolOp, ast.UnaryOp, ast.BinOp, ast.expr_context, ast.cmpop,
              ast.boolop, ast.unaryop, ast.operator)


def _test_fact(n) -> Optional[Tuple[str, frozenset]]:
    """(text, names) of a branch test made of names, attribute reads, constants, comparisons and `len(..)` only --
    two tests with the same text have the same outcome while none of their names is rebound or written through."""
    if n.kind != 'test' or n.ast is None:
        return None
    names = set()
    for x in ast.walk(n.ast):
        if isinstance(x, ast.Call):
            if not (isinstance(x.func, ast.Name) and x.func.id == 'len' and len(x.args) == 1 and not x.keywords):
                return None
            continue
        if not isinstance(x, _PURE_TEST):
            return None
        if isinstance(x, ast.Name):
            names.add(x.id)
    names.discard('len')
    return (' '.join(ast.unparse(n.ast).split()), frozenset(names))


def _touched_names(n) -> Set[str]:
    """Names a CFG node may change the meaning of: rebound, stored through, or handed to a call."""
    out = set(H.node_defs(n))
    if n.kind in ('stmt', 'test', 'iter', 'with'):
        for x in n.walk():
            if isinstance(x, (ast.Attribute, ast.Subscript)) and isinstance(x.ctx, (ast.Store, ast.Del)):
                b = x
                while isinstance(b, (ast.Attribute, ast.Subscript)):
                    b = b.value
                if isinstance(b, ast.Name):
                    out.add(b.id)
            elif isinstance(x, ast.Call) and not (isinstance(x.func, ast.Name) and x.func.id == 'len'):
                for y in ast.walk(x):
                    if isinstance(y, ast.Name):
                        out.add(y.id)
    return out


def _group_path(cfg, starts, through: int, goals: Set[int], avoid: Set[int], avoid_edges: Set[tuple]) -> Optional[List[int]]:
    """A normal path start -> `through` -> goal that avoids `avoid` / `avoid_edges` and never takes two different
    outcomes of the same side-effect-free test (correlated `if leaf: ... if leaf: ...` are one decision)."""
    from collections import deque
    facts_of = {n.id: _test_fact(n) for n in cfg.live_nodes()}
    touched = {n.id: _touched_names(n) for n in cfg.live_nodes()}
    prev: Dict[tuple, Optional[tuple]] = {}
    dq = deque()
    for s_ in starts:
        if s_ in avoid:
            continue
        st = (s_, s_ == through, frozenset())
        if st not in prev:
            prev[st] = None
            dq.append(st)
    while dq:
        st = dq.popleft()
        x, passed, facts = st
        if passed and x in goals and prev[st] is not None:
            out = []
            while st is not None:
                out.append(st[0])
                st = prev[st]
            return list(reversed(out))
        t = touched.get(x, set())
        if t:
            facts = frozenset(f_ for f_ in facts if not (f_[1] & t))
        for (y, l) in cfg.succ[x]:
            if not flow.no_exc(x, y, l) or y in avoid or (x, y, l) in avoid_edges:
                continue
            nf = facts
            fx = facts_of.get(x)
            if fx is not None and l in ('T', 'F'):
                if (fx[0], fx[1], 'F' if l == 'T' else 'T') in facts:
                    continue  # the same test was decided the other way earlier on this path
                nf = facts | {(fx[0], fx[1], l)}
            ns = (y, passed or y == through, nf)
            if ns not in prev:
                prev[ns] = st
                dq.append(ns)
    return None


def _already_equal_edges(cfg, recv: str, fld: str, store_nodes: Set[int]) -> Set[tuple]:
    """Edges on which `recv.fld` is known to hold already what the guarded store would write: the equal outcome of
    `V is recv.fld` / `V == recv.fld` / `is not` / `!=` where every store of the field writes V ("store only when it changes")."""
    vals = set()
    for s_ in store_nodes:
        a = cfg.node(s_).ast
        if isinstance(a, ast.Assign) and len(a.targets) == 1 and isinstance(a.targets[0], ast.Attribute):
            vals.add(ast.unparse(a.value))
        else:
            return set()
    if len(vals) != 1:
        return set()
    v = next(iter(vals))
    fieldtxt = '%s.%s' % (recv, fld)
    out = set()
    for n in cfg.live_nodes():
        if n.kind == 'test' and isinstance(n.ast, ast.Compare) and len(n.ast.ops) == 1:
            sides = {ast.unparse(n.ast.left), ast.unparse(n.ast.comparators[0])}
            if sides == {v, fieldtxt} and v != fieldtxt:
                eq = 'T' if isinstance(n.ast.ops[0], (ast.Is, ast.Eq)) else 'F' if isinstance(n.ast.ops[0], (ast.IsNot, ast.NotEq)) else None
                if eq:
                    out.update((n.id, y, l) for (y, l) in cfg.succ[n.id] if l == eq)
    return out


def r17_payload_group(run):
    """find() answers with several attributes of the matched node (the fields
    are read off find()'s return value, not assumed).  They describe ONE route,
    so wherever add_route's helpers store one of them on a node they store all
    of them on that node: on every normal path through a store `n.F = ...`
    (from the function entry or the last rebinding of `n` to the next rebinding
    of `n` or the function exit) there is a store `n.G = ...` for every other
    payload field G.  Only the presence of the sibling stores is decided, not
    the stored values.  Two tests with the same side-effect-free text are one
    decision (`if leaf: .. if leaf: ..`); "store only when it differs"
    (`if resource is not n.resource: n.resource = resource`) counts as stored.
    W: add_route('/a/b', R1); add_route('/a', R2): find('/a') returns R2's
    resource and responders with uri_template None (req.uri_template is None)."""
    p = run.project
    add = p.func(ROUTER + '.add_route')
    find, fields = _payload_fields(p)
    run.use(find)
    run.sample({'payload fields read by find()': fields})
    n_ob = 0
    group_funcs = [add] + [add.nested[k] for k in sorted(add.nested)]
    param_verdicts: Dict[Tuple[str, str], List[bool]] = {}     # (helper, its parameter the fields are stored on) -> verdicts of its stores
    for g in group_funcs:
        cfg = cfg_of(g, p)
        stores: Dict[Tuple[str, str], List[int]] = {}
        for n in cfg.live_nodes():
            if n.kind != 'stmt' or not isinstance(n.ast, (ast.Assign, ast.AnnAssign, ast.AugAssign)):
                continue
            a = n.ast
            if isinstance(a, ast.AnnAssign) and a.value is None:
                continue
            targets = a.targets if isinstance(a, ast.Assign) else [a.target]
            flat: List[ast.AST] = []
            for t in targets:
                flat.extend(t.elts if isinstance(t, (ast.Tuple, ast.List)) else [t])
            for t in flat:
                if isinstance(t, ast.Attribute) and t.attr in fields:
                    if not isinstance(t.value, ast.Name):
                        raise UnknownIdiom('%s: payload field stored on a receiver that is not a plain local: %s' % (g.qual, short(t, 80)))
                    if t.value.id in ('self', 'cls'):
                        continue
                    stores.setdefault((t.value.id, t.attr), []).append(n.id)
        if not stores:
            continue
        run.use_cfg(cfg)
        exits = {cfg.exit}
        for (recv, fld), sites in sorted(stores.items()):
            rebinds = {n.id for n in cfg.live_nodes() if recv in H.node_defs(n)}
            for s_ in sites:
                sn = cfg.node(s_)
                missing: List[str] = []
                wit = None
                for other in fields:
                    if other == fld:
                        continue
                    avoid = set(stores.get((recv, other), []))
                    if s_ in avoid:
                        continue  # one statement stores both
                    path = _group_path(cfg, [cfg.entry] + sorted(rebinds), s_, exits | rebinds, avoid,
                                       _already_equal_edges(cfg, recv, other, avoid))
                    if path is None:
                        continue
                    missing.append(other)
                    if wit is None:
                        wit = flow.describe_path(cfg, path)
                n_ob += 1
                if g is not add and recv in g.params():
                    param_verdicts.setdefault((g.qual, recv), []).append((fld, not missing))
                run.check(not missing, '%s: a path that stores the payload field %s of node `%s` stores every other field find() answers with '
                          '(%s) on the same node' % (g.name, fld, recv, ', '.join(f_ for f_ in fields if f_ != fld)), g,
                          '%s ; never on this path: %s' % (short(sn.ast, 100), ', '.join('%s.%s' % (recv, m) for m in missing)) if missing
                          else sn.ast, where='%s:%s' % (g.file, sn.lineno), witness=wit,
                          runtime_witness="add_route('/a/b', R1); add_route('/a', R2): find('/a') answers R2's resource with the "
                                          'uri_template / responders the node had before (None for an interior node)')
    # a nested helper that stores the group on a node it is handed (`def bind(node): node.method_map = ..; node.resource = ..;
    # node.uri_template = ..`): every call of it from add_route / a sibling is one more place where a node receives its payload,
    # and it receives the whole group exactly when the helper's own stores do (judged above)
    for (hq, prm), fv in sorted(param_verdicts.items()):
        h = p.func(hq)
        flds, verdicts = [x[0] for x in fv], [x[1] for x in fv]
        for g in group_funcs:
            if g is h:
                continue
            for c in walk_self(g.node):
                if isinstance(c, ast.Call) and p.callee(g, c) is h:
                    try:
                        a = _call_arg(h, c, prm)
                    except (AnchorError, UnknownIdiom):
                        a = None
                    if a is None:
                        raise UnknownIdiom('%s: the node handed to %s in %s is not read' % (g.qual, h.name, short(c, 60)))
                    for fld, ok in zip(flds, verdicts):
                        n_ob += 1
                        run.check(ok, '%s: the node handed to %s receives the payload field %s together with every other field find() answers '
                                  'with (%s)' % (g.name, h.name, fld, ', '.join(f_ for f_ in fields if f_ != fld)), g,
                                  '%s [%s]' % (short(c, 80), fld), where=g.loc(c))
    if n_ob == 0:
        raise AnchorError('no helper of add_route stores a payload field (%s) on a node' % ', '.join(fields))


# ---------------------------------------------------------------------------
# R18 the field-expression pattern: what each group's character class excludes
# ---------------------------------------------------------------------------

# group of the field-expression pattern -> (characters its class must exclude -- exactly these, reason).  DESIGN 1.3 item 5.
# The pattern is the ONE classifier of template text: the validator, CompiledRouterNode.__init__ and conflicts_with all call
# it, and nothing rejects `{...}` text it does not match -- such text is silently a literal segment.  So a class that
# excludes more than the delimiter that ends the group turns valid field expressions into literals; one that excludes less
# lets the group run over its delimiter.
FIELD_GROUP_EXCLUDES = {
    'fname': ('}:', 'a field name ends at the converter separator `:` or at the closing brace'),
    'cname': ('}(', 'a converter name ends at the argument list `(` or at the closing brace'),
    'argstr': ('}', 'anything up to the closing brace belongs to the argument string: `)` is legal inside it (a strptime format, a nested '
                    'call or tuple); the LAST `)` before the brace ends it, found by backtracking'),
}
_CLASS_ALPHABET = ''.join(chr(i) for i in range(32, 127)) + '\n\té'


def _class_excluded(sre_c, item, where: str) -> Set[str]:
    """Characters of _CLASS_ALPHABET that a one-character regex item (as parsed by the stdlib) does not accept."""
    op, av = item
    if op is sre_c.NOT_LITERAL:
        return {c for c in _CLASS_ALPHABET if ord(c) == av}
    if op is sre_c.LITERAL:
        return {c for c in _CLASS_ALPHABET if ord(c) != av}
    if op is sre_c.ANY:
        return {'\n'}
    if op is sre_c.IN:
        negate = False
        accepted: Set[str] = set()
        for (o, a) in av:
            if o is sre_c.NEGATE:
                negate = True
            elif o is sre_c.LITERAL:
                accepted |= {c for c in _CLASS_ALPHABET if ord(c) == a}
            elif o is sre_c.RANGE:
                accepted |= {c for c in _CLASS_ALPHABET if a[0] <= ord(c) <= a[1]}
            else:
                raise UnknownIdiom('%s: character class item %s is not read' % (where, o))
        return accepted if negate else set(_CLASS_ALPHABET) - accepted
    raise UnknownIdiom('%s: %s is not a one-character item' % (where, op))


def r18_field_pattern_classes(run):
    """The field-expression pattern classifies template text for the validator
    AND for CompiledRouterNode (field vs literal); no other check rejects
    `{...}` text that the pattern does not match.  So the character class of
    each of its groups must exclude exactly the delimiters that end the group
    (FIELD_GROUP_EXCLUDES): read from the stdlib parse of the constant.
    W: argstr class `[^})]*`: add_route('/archive/{when:dt("%Y(%m)")}') is
    accepted as a LITERAL segment; find('/archive/2020(05)') -> None."""
    import re
    try:
        from re import _parser as sre_parse, _constants as sre_c   # Python >= 3.11
    except ImportError:   # pragma: no cover
        import sre_parse
        import sre_constants as sre_c
    p = run.project
    T = H.TemplateText.__new__(H.TemplateText)
    T.p, T.mod, T.cfg_of = p, p.module(H.MODULE), cfg_of
    T.node_init = p.func(NODE + '.__init__')
    const, src = T._field_pattern()
    validator = p.func(ROUTER + '._validate_template_segment')
    where = '%s.%s' % (H.MODULE, const)
    # premise of the clause: the validator finds its fields with the same constant (so unmatched text is not seen by it either)
    if not any(isinstance(n, ast.Call) and isinstance(n.func, ast.Attribute) and n.func.attr in ('finditer', 'findall')
               and isinstance(n.func.value, ast.Name) and n.func.value.id == const for n in walk_self(validator.node)):
        raise UnknownIdiom('%s does not enumerate its fields with %s.finditer: the agreement between validator and classifier is not the '
                           'character-class table' % (validator.qual, const))
    try:
        tree = sre_parse.parse(src)
        by_num = {v: k for k, v in re.compile(src).groupindex.items()}
    except Exception as e:
        raise UnknownIdiom('%s does not compile: %s' % (where, e))
    bodies: Dict[str, list] = {}

    def walk(seq):
        for op, av in seq:
            if op is sre_c.SUBPATTERN:
                if av[0] in by_num:
                    bodies[by_num[av[0]]] = list(av[3])
                walk(av[3])
            elif op in (sre_c.MAX_REPEAT, sre_c.MIN_REPEAT):
                walk(av[2])
            elif op is sre_c.BRANCH:
                for alt in av[1]:
                    walk(alt)
    walk(tree)
    decl = T.mod.consts.get(const)
    for g, (must, why) in sorted(FIELD_GROUP_EXCLUDES.items()):
        if g not in bodies:
            raise AnchorError('%s has no group %r' % (where, g))
        body = bodies[g]
        # the group is `<class>*`, possibly after a fixed literal prefix (`:` of the separator group is outside `cname`)
        reps = [it for it in body if it[0] in (sre_c.MAX_REPEAT, sre_c.MIN_REPEAT)]
        if len(reps) != 1 or len(body) != 1 or len(reps[0][1][2]) != 1:
            raise UnknownIdiom('%s: group %r is not a repeat of one character class' % (where, g))
        lo, hi, sub = reps[0][1]
        if hi is not sre_c.MAXREPEAT:
            raise UnknownIdiom('%s: group %r has a bounded repeat' % (where, g))
        excluded = _class_excluded(sre_c, sub[0], where)
        extra = sorted(excluded - set(must))
        missing = sorted(set(must) - excluded)
        run.check(not extra and not missing, 'group %r of the field-expression pattern accepts every character except %s (%s); template text '
                  'the pattern does not match is not rejected, it silently becomes a literal segment' % (g, ' '.join(repr(c) for c in must), why),
                  validator, '%s group %s excludes %s' % (const, g, ' '.join(repr(c) for c in sorted(excluded))),
                  where=validator.loc(decl) if decl is not None else validator.loc(),
                  witness=(['also excludes %s: a field expression with that character in its %s is not recognised' % (
                      ' '.join(repr(c) for c in extra), g)] if extra else []) +
                          (['does not exclude %s: the group runs over its delimiter' % ' '.join(repr(c) for c in missing)] if missing else []),
                  runtime_witness='add_route(\'/archive/{when:dt("%Y(%m)")}\') is accepted as a literal segment: find("/archive/2020(05)") '
                                  'is None and find(\'/archive/{when:dt("%Y(%m)")}\') answers the route with empty params')


# ---------------------------------------------------------------------------
# R19 the converter instance is built from the class handed to THIS call
# ---------------------------------------------------------------------------

INSTANTIATE = ROUTER + '._instantiate_converter'
MEMO_DECORATORS = {'functools.lru_cache', 'functools.cache'}        # keyed by every argument, the class object included
LOSSY_CLASS_ATTRS = {'__name__', '__qualname__', '__module__', '__doc__'}   # text about a class: two classes may share it
LOSSY_CALLS = {'builtins.str', 'builtins.repr', 'builtins.hash', 'builtins.format', 'builtins.ascii'}
STORE_READERS = {'get', 'setdefault', 'pop'}
K_ID, K_TEXT, A_ID, UNREAD = 'klass', 'klass~', 'argstr', '?'


class _ConvFlow:
    """Provenance inside one function that is handed the converter class.
    `roles` maps a parameter to what it stands for: {K_ID} the class object,
    {A_ID} the argument text, {K_TEXT, ...} something merely computed from the
    class (its name...).  `deps(e)` says what an expression determines: K_ID
    only for the class object itself (through locals, tuples, conditional
    expressions, id()), K_TEXT for text/hash renderings of it."""

    def __init__(self, p, f: Func, roles: Dict[str, frozenset]):
        self.p, self.f, self.roles = p, f, roles
        self.cfg = cfg_of(f, p)
        self.rd = H.ReachingDefs(self.cfg)

    def nid(self, e) -> int:
        return H.node_of_ast(self.cfg, e)

    def def_values(self, d: int, name: str) -> Optional[List[ast.AST]]:
        v = self.rd.def_value(d, name)
        if v is not None:
            return [v]
        n = self.cfg.node(d)
        if n.kind == 'stmt' and isinstance(n.ast, ast.Assign) and any(isinstance(t, ast.Name) and t.id == name for t in n.ast.targets):
            return [n.ast.value]      # chained `name = store[key] = value`
        out = [e.value for e in n.walk() if isinstance(e, ast.NamedExpr) and isinstance(e.target, ast.Name) and e.target.id == name]
        return out or None

    def name_defs(self, e: ast.Name, nid: int):
        """[(def id, value expr | None)]; def id ENTRY for a parameter / free name."""
        out = []
        for d in sorted(self.rd.at(nid, e.id)):
            if d == H.ENTRY_DEF:
                out.append((d, None))
                continue
            vs = self.def_values(d, e.id)
            if vs is None:
                out.append((d, None))
            else:
                out.extend((d, v) for v in vs)
        return out

    @staticmethod
    def _lossy(s: frozenset) -> frozenset:
        return frozenset(K_TEXT if x == K_ID else x for x in s)

    def deps(self, e, nid: int, seen=frozenset()) -> frozenset:
        if e is None or isinstance(e, ast.Constant):
            return frozenset()
        if isinstance(e, ast.Name):
            out: Set[str] = set()
            for d, v in self.name_defs(e, nid):
                if d == H.ENTRY_DEF:
                    out |= self.roles.get(e.id, frozenset())
                elif v is None:
                    out.add(UNREAD)
                elif (d, e.id) not in seen:
                    out |= self.deps(v, d, seen | {(d, e.id)})
            return frozenset(out)
        if isinstance(e, ast.NamedExpr):
            return self.deps(e.value, nid, seen)
        if isinstance(e, (ast.Tuple, ast.BoolOp, ast.IfExp, ast.Starred)):
            kids = e.elts if isinstance(e, ast.Tuple) else e.values if isinstance(e, ast.BoolOp) else \
                [e.body, e.orelse, e.test] if isinstance(e, ast.IfExp) else [e.value]
            out = set()
            for k in kids:
                out |= self.deps(k, nid, seen)
            return frozenset(out)
        if isinstance(e, ast.Dict):
            out = set()
            for k in e.keys:
                out |= self._lossy(self.deps(k, nid, seen))
            for v in e.values:
                out |= self.deps(v, nid, seen)
            return frozenset(out)
        if isinstance(e, ast.Attribute):
            s = self.deps(e.value, nid, seen)
            if K_ID in s and e.attr not in LOSSY_CLASS_ATTRS:
                return self._lossy(s) | {UNREAD}
            return self._lossy(s)
        if isinstance(e, ast.Call):
            inner: Set[str] = set()
            for a in list(e.args) + [k.value for k in e.keywords]:
                inner |= self.deps(a, nid, seen)
            q = self.p.resolve_expr(self.f.module, e.func, self.f)
            if q == 'builtins.id' and len(e.args) == 1:
                return frozenset(inner)        # the instance kept in the store keeps its class alive: id() stays unique
            recv = self.deps(e.func.value, nid, seen) if isinstance(e.func, ast.Attribute) else frozenset()
            text_method = isinstance(e.func, ast.Attribute) and e.func.attr in ('format', 'join', 'format_map') and K_ID not in recv
            if K_ID in inner and not (q in LOSSY_CALLS or text_method):
                return self._lossy(frozenset(inner) | recv) | {UNREAD}
            return self._lossy(frozenset(inner) | recv)
        if isinstance(e, (ast.JoinedStr, ast.FormattedValue, ast.BinOp)):
            out = set()
            for k in ast.iter_child_nodes(e):
                if isinstance(k, ast.expr):
                    out |= self.deps(k, nid, seen)
            return self._lossy(frozenset(out))
        out = set()
        for k in ast.walk(e):
            if isinstance(k, ast.Name):
                out |= self.deps(k, nid, seen)
        if K_ID in out:
            out.add(UNREAD)
        return self._lossy(frozenset(out))

    # -- stores -----------------------------------------------------------------

    def container(self, e, nid: int, depth=0) -> Tuple[Optional[str], List[Tuple[ast.AST, int]]]:
        """(dotted text of the store an expression denotes, keys applied on the
        way): self._cache -> ('self._cache', []); self._cache[klass] /
        self._cache.setdefault(klass, {}) / a local bound once to one of them ->
        ('self._cache', [klass]).  None: not a store outside this call."""
        if depth > 6:
            raise UnknownIdiom('%s: store expression %s nests too deep' % (self.f.qual, short(e, 60)))
        if isinstance(e, ast.Name):
            defs = self.name_defs(e, nid)
            if all(d == H.ENTRY_DEF for d, _ in defs):
                if e.id in self.roles or e.id in self.f.params():
                    return None, []
                return e.id, []                      # module-level / free name
            if len(defs) != 1 or defs[0][1] is None:
                raise UnknownIdiom('%s: local %s used as a store is bound more than once' % (self.f.qual, e.id))
            d, v = defs[0]
            if isinstance(v, (ast.Dict, ast.List, ast.Set)) or (isinstance(v, ast.Call) and isinstance(v.func, ast.Name)
                                                               and v.func.id in ('dict', 'list', 'set') and not v.args):
                return None, []                      # a display local to this call
            return self.container(v, d, depth + 1)
        if isinstance(e, ast.Attribute):
            return dotted(e) or short(e, 60), []
        if isinstance(e, ast.Subscript):
            c, keys = self.container(e.value, nid, depth + 1)
            return c, keys + [(e.slice, nid)]
        if isinstance(e, ast.Call) and isinstance(e.func, ast.Attribute) and e.func.attr in STORE_READERS and e.args:
            c, keys = self.container(e.func.value, nid, depth + 1)
            return c, keys + [(e.args[0], nid)]
        raise UnknownIdiom('%s: cannot read which store %s denotes' % (self.f.qual, short(e, 60)))

    def key_deps(self, keys) -> frozenset:
        out: Set[str] = set()
        for k, nid in keys:
            out |= self.deps(k, nid)
        return frozenset(out)

    # -- where a returned value comes from ----------------------------------------

    def origins(self, e, nid: int, seen=frozenset(), depth=0) -> List[tuple]:
        """[('fresh', node) | ('read', node, container, keys) | ('helper', node, Func, roles) | ('none', node)]"""
        if isinstance(e, ast.Constant) and e.value is None:
            return [('none', e)]
        if isinstance(e, ast.NamedExpr):
            return self.origins(e.value, nid, seen, depth)
        if isinstance(e, ast.IfExp):
            return self.origins(e.body, nid, seen, depth) + self.origins(e.orelse, nid, seen, depth)
        if isinstance(e, ast.BoolOp):
            return [o for v in e.values for o in self.origins(v, nid, seen, depth)]
        if isinstance(e, ast.Name):
            out = []
            for d, v in self.name_defs(e, nid):
                if d == H.ENTRY_DEF or v is None:
                    raise UnknownIdiom('%s: cannot read what %s holds when it is returned as the converter' % (self.f.qual, e.id))
                if (d, e.id) in seen:
                    continue
                out.extend(self.origins(v, d, seen | {(d, e.id)}, depth))
            return out
        if isinstance(e, ast.Subscript) and isinstance(e.ctx, ast.Load):
            c, keys = self.container(e, nid)
            if c is not None:
                return [('read', e, c, keys)]
            raise UnknownIdiom('%s: %s reads a container local to the call' % (self.f.qual, short(e, 60)))
        if isinstance(e, ast.Attribute):
            return [('read', e, dotted(e) or short(e, 60), [])]
        if isinstance(e, ast.Call):
            fd = self.deps(e.func, nid) if isinstance(e.func, ast.Name) else frozenset()
            if fd == frozenset([K_ID]):
                return [('fresh', e)]
            q = self.p.resolve_expr(self.f.module, e.func, self.f)
            if q == 'builtins.eval':
                ns: Set[str] = set()
                for a in e.args[1:] + [k.value for k in e.keywords]:
                    ns |= self.deps(a, nid)
                if K_ID in ns:
                    return [('fresh', e)]
                raise UnknownIdiom('%s: %s evaluates the constructor text in a namespace that is not read as holding the class of this call'
                                   % (self.f.qual, short(e, 70)))
            if isinstance(e.func, ast.Attribute) and e.func.attr in STORE_READERS and e.args:
                c, keys = self.container(e, nid)
                if c is not None:
                    out = [('read', e, c, keys)]
                    for extra in e.args[1:]:
                        out.extend(self.origins(extra, nid, seen, depth))
                    return out
            t = self.p.callee(self.f, e)
            if isinstance(t, Func) and depth < 2:
                prm = [x for x in t.params()]
                if prm and prm[0] in ('self', 'cls') and isinstance(e.func, ast.Attribute):
                    prm = prm[1:]
                roles: Dict[str, frozenset] = {}
                if any(isinstance(a, ast.Starred) for a in e.args) or any(k.arg is None for k in e.keywords):
                    raise UnknownIdiom('%s: %s passes the class through */** arguments' % (self.f.qual, short(e, 70)))
                for i, a in enumerate(e.args):
                    if i < len(prm):
                        roles[prm[i]] = self.deps(a, nid)
                for k in e.keywords:
                    roles[k.arg] = self.deps(k.value, nid)
                if any(roles.values()):
                    return [('helper', e, t, roles)]
            raise UnknownIdiom('%s: cannot read how %s builds the converter it returns' % (self.f.qual, short(e, 70)))
        raise UnknownIdiom('%s: cannot read where the returned converter %s comes from' % (self.f.qual, short(e, 70)))

    def returns(self):
        seen: Set[int] = set()
        for n in self.cfg.live_nodes():
            if n.kind == 'stmt' and isinstance(n.ast, ast.Return) and id(n.ast) not in seen:
                seen.add(id(n.ast))
                yield n
        for g in self.f.nested.values():
            raise UnknownIdiom('%s: nested function %s not modelled' % (self.f.qual, g.name))

    def writes(self):
        """[(node, container, keys, value expr, nid)] for `C[k] = v` and C.setdefault(k, v) in this function."""
        out = []
        seen: Set[int] = set()
        for n in self.cfg.live_nodes():
            if n.copy or n.kind != 'stmt':
                continue
            a = n.ast
            if isinstance(a, ast.Assign):
                for t in a.targets:
                    if isinstance(t, ast.Subscript):
                        c, keys = self.container(t, n.id)
                        if c is not None:
                            out.append((a, c, keys, a.value, n.id))
            for e in n.walk():
                if isinstance(e, ast.Call) and isinstance(e.func, ast.Attribute) and e.func.attr == 'setdefault' and len(e.args) == 2 \
                        and id(e) not in seen:
                    seen.add(id(e))
                    c, keys = self.container(e, n.id)
                    if c is not None:
                        out.append((e, c, keys, e.args[1], n.id))
        return out


def _outside_writes(p, router: Class, inside: Set[str], attr: str) -> Optional[str]:
    """A write to self.<attr> in a method outside `inside` that is not a reset to an empty container."""
    for m in router.methods.values():
        for g in [m] + list(m.nested.values()):
            if g.qual in inside:
                continue
            for n in walk_self(g.node):
                tgt = None
                if isinstance(n, (ast.Assign, ast.AnnAssign, ast.AugAssign)):
                    for t in (n.targets if isinstance(n, ast.Assign) else [n.target]):
                        base = t.value if isinstance(t, ast.Subscript) else t
                        if _self_attr(base) == attr:
                            v = n.value
                            empty = isinstance(t, ast.Attribute) and not isinstance(n, ast.AugAssign) and (
                                v is None or (isinstance(v, (ast.Dict, ast.List)) and not (getattr(v, 'keys', None) or getattr(v, 'elts', None)))
                                or (isinstance(v, ast.Call) and not v.args and not v.keywords))
                            if not empty:
                                tgt = n
                elif isinstance(n, ast.Call) and isinstance(n.func, ast.Attribute) and n.func.attr in LIST_MUTATORS \
                        and n.func.attr != 'clear' and _self_attr(n.func.value) == attr:
                    tgt = n
                if tgt is not None:
                    return '%s: %s' % (g.qual, short(tgt, 70))
    return None


def r19_converter_provenance(run):
    """"Converters may veto a match" / "exactly the matched route's field
    values": the converter a field is checked with is an instance of the class
    registered under the name the TEMPLATE gives.  _instantiate_converter is
    handed that class; every object it returns must, on every path, be built
    from the `klass` of this very call -- `klass(...)`, or eval() of the
    constructor text in a namespace holding `klass` -- through same-class
    helpers if need be.  An object read back from a store that outlives the call
    (memo dict, attribute) qualifies only when the key it is read (and was
    written) under determines both the class OBJECT and the argument text:
    `klass` itself as the key / a tuple element / an outer key / id(klass).  Its
    __name__, __qualname__, repr(), or the constructor text rendered from them
    do not determine it (any class with a convert() method may be registered,
    under any name; two plug-ins may both call theirs `Converter`).  A memo on
    (klass, argstr), or functools.lru_cache on the method, is silent.
    W: converters hex -> hexfields.Converter, slug -> slugs.Converter; routes
    /tags/{tag:slug} then /colors/{rgb:hex}: find('/colors/zz') matches (the
    slug instance answers) instead of None and find('/colors/ff') yields 'ff'
    instead of 255."""
    p = run.project
    f = p.func(INSTANTIATE)
    router = p.cls(ROUTER)
    run.use(f)
    prms = [x for x in f.params() if x not in ('self', 'cls')]
    a = f.node.args
    if len(prms) != 2 or a.vararg or a.kwarg or a.kwonlyargs:
        raise UnknownIdiom('%s no longer takes exactly (class, argument text)' % f.qual)
    W = ("options.converters['hex'] = hexfields.Converter, ['slug'] = slugs.Converter (same __name__); routes /tags/{tag:slug} then "
         "/colors/{rgb:hex}: find('/colors/zz') matches instead of None, find('/colors/ff') yields rgb='ff' instead of 255")
    for d in f.node.decorator_list:
        q = p.resolve_expr(f.module, d.func if isinstance(d, ast.Call) else d, None)
        if q in MEMO_DECORATORS:
            run.ok('%s memoises on every argument of the call, the class object included' % q.rsplit('.', 1)[-1], f.loc(d), d)
        else:
            raise UnknownIdiom('%s: decorator %s not modelled' % (f.qual, short(d, 60)))
    inside: Set[str] = set()
    stores: Dict[str, ast.AST] = {}

    def need(F: '_ConvFlow', keys) -> Tuple[Optional[bool], str]:
        s = F.key_deps(keys)
        has_args = any(A_ID in r for r in F.roles.values())
        if K_ID in s and (A_ID in s or not has_args):
            return True, ''
        if UNREAD in s:
            return None, 'key %s not readable' % ', '.join(short(k, 40) for k, _ in keys)
        if K_ID not in s:
            how = ('only text computed from the class (%s)' % 'its name / repr') if K_TEXT in s else 'nothing of the class'
            return False, 'the key holds %s: classes registered under different converter names that agree in it share one instance' % how
        return False, 'the key does not hold the argument text: {a:int(2)} and {b:int(3)} share one instance'

    def judge(F: '_ConvFlow', depth: int):
        inside.add(F.f.qual)
        run.use_cfg(F.cfg)
        if not any(K_ID in r for r in F.roles.values()):
            raise UnknownIdiom('%s is not handed the converter class itself' % F.f.qual)
        n_ret = 0
        for rn in F.returns():
            if rn.ast.value is None:
                continue
            for o in F.origins(rn.ast.value, rn.id, depth=depth):
                n_ret += 1
                kind, node = o[0], o[1]
                if kind == 'none':
                    n_ret -= 1
                    continue
                if kind == 'fresh':
                    run.ok('the returned converter is constructed from the class handed to this call', F.f.loc(node), node)
                elif kind == 'helper':
                    judge(_ConvFlow(p, o[2], o[3]), depth + 1)
                else:
                    _, _, c, keys = o
                    stores.setdefault(c, node)
                    ok, why = need(F, keys)
                    if ok is None:
                        raise UnknownIdiom('%s: %s: %s' % (F.f.qual, short(node, 60), why))
                    run.check(ok, 'a converter read back from %s is the one built for this call\'s class and argument text: the key '
                              'determines the class object and the arguments' % c, F.f,
                              '%s [key %s]' % (short(node, 70), ' , '.join(short(_key_def(F, k, n_), 60) for k, n_ in keys) or '<none>'),
                              where=F.f.loc(node), witness=[why] if why else None, runtime_witness=W)
        if not n_ret:
            raise UnknownIdiom('%s returns no converter' % F.f.qual)
        for node, c, keys, val, nid in F.writes():
            if c not in stores:
                continue
            if (isinstance(val, ast.Dict) and not val.keys) or (isinstance(val, ast.Call) and isinstance(val.func, ast.Name)
                                                                and val.func.id == 'dict' and not val.args and not val.keywords):
                continue     # an empty inner level of a nested store; the full key is judged where the converter is filed / read
            ok, why = need(F, keys)
            if ok is None:
                raise UnknownIdiom('%s: %s: %s' % (F.f.qual, short(node, 60), why))
            for x in (F.origins(val, nid, depth=depth) if ok else ()):
                if x[0] == 'helper':
                    judge(_ConvFlow(p, x[2], x[3]), depth + 1)
                elif x[0] != 'fresh' and not (x[0] == 'read' and x[2] == c):
                    raise UnknownIdiom('%s: value stored by %s is not read as built from the class' % (F.f.qual, short(node, 60)))
            run.check(ok, 'a converter is filed in %s under a key that determines the class object and the argument text it was built from' % c,
                      F.f, '%s [key %s]' % (short(node, 70), ' , '.join(short(_key_def(F, k, n_), 60) for k, n_ in keys)),
                      where=F.f.loc(node), witness=[why] if why else None, runtime_witness=W)

    judge(_ConvFlow(p, f, {prms[0]: frozenset([K_ID]), prms[1]: frozenset([A_ID])}), 0)
    for c in sorted(stores):
        if c.startswith('self.') and c.count('.') == 1:
            w = _outside_writes(p, router, inside, c.split('.', 1)[1])
            if w:
                raise UnknownIdiom('%s is also written outside the instantiation (%s): not modelled' % (c, w))
        else:
            raise UnknownIdiom('%s: converter store %s is not an attribute of the router: its other writers are not read' % (f.qual, c))
    run.extra['c01_converter_stores'] = sorted(stores)


def _key_def(F: '_ConvFlow', k, nid: int):
    """The key expression, a local bound once replaced by its definition (for the violation key / witness)."""
    if isinstance(k, ast.Name):
        defs = F.name_defs(k, nid)
        if len(defs) == 1 and defs[0][1] is not None:
            return defs[0][1]
    return k


def check(run):
    run.assume('a rejection is an exception in the E5 summary of add_route (explicit raises, closed over resolved callees); '
               'other exceptions (IndexError, MemoryError, ...) are internal errors, not rejections')
    run.assume('list.append / list.remove of a freshly constructed node do not fail')
    run.assume('the generator functions contain no try/with; emission-order rules follow normal control flow only')
    run.assume('R5/R6 reaching definitions are path-insensitive: an index or construct bound in an earlier sibling iteration under '
               'the same condition as its use is not distinguished from the current one')
    run.assume('R9: str.format templates only; escaping that neither matches nor inserts `{ } :` keeps every field expression of a segment a '
               'field expression (the field pattern\'s character classes are negated classes); keys of the converter map are written only '
               'through ConverterDict.__setitem__; validator regexes are judged on a fixed probe set (single hazard characters at the '
               'start, middle and end of an identifier)')
    run.assume('R2/R7/R8 node kinds: segments with 0, 1, 2 and 3 field expressions stand for all segments (3 = "three or more")')
    run.assume('R1-R11 are about sequential histories; a lookup IN PROGRESS while add_route recompiles keeps its answer because the recompile '
               'publishes fresh side tables instead of resetting them in place: R12, shared with C19 R6')
    run.rule('R1', r1_atomic_rejection, 'a rejected template leaves the route tree unchanged (mutate -> undo -> reject typestate)', floor=12)
    run.rule('R2', r2_sort_key, 'sibling sort key orders literal < every complex kind ({x}.json, {x}-{y}, 3+ fields) < plain single field', floor=7)
    run.rule('R3', r3_delayed_params, 'parameter assignment is delayed to the matched route and never leaks between branches', floor=14)
    run.rule('R4', r4_index_guards, 'every path[i] in the generated finder is under a length guard that covers i', floor=10)
    run.rule('R5', r5_side_tables, 'side tables: index/append pairing and position agreement with the generated finder', floor=25)
    run.rule('R6', r6_generated_names, 'generated names are assigned before the constructs that read them', floor=6)
    # R6 floor: 6 reads + 4 references today; the parts have their own minima (3 / 2) so that dropping one construct class
    # (with everything still referenced being emitted) is not by itself an analysis error
    run.rule('R7', r7_conflict_table, 'conflicts_with on the 3x3 node kinds', floor=6)
    # floor: the two evaluations + at least one guarded `return None` emission (today three; textually identical emission bodies
    # may be merged -- k2-c01-1 -- and r8 itself fails closed when it finds no emission at all)
    run.rule('R8', r8_pruning, 'fast_return pruning is only ever conservative', floor=3)
    from . import c19 as _c19

    run.rule('R12', _c19.r6_tables_rebound, 'a recompile publishes fresh side tables; lookups in flight keep a consistent finder/table pair (shared with C19 R6)', floor=3)
    run.rule('R11', r11_converter_bounds, 'converter bounds are tested against None, not by truthiness', floor=1)
    run.rule('R10', r10_finder_invalidated, 'every accepted add_route invalidates or rebuilds the compiled finder', floor=3)
    run.rule('R13', r13_builtin_converters, 'built-in converters veto exactly what their conversion primitive, documented options and tabled screening veto', floor=10)
    run.rule('R14', r14_find_segments, "find() hands the finder uri.lstrip('/').split('/') unchanged", floor=1)
    run.rule('R16', r16_validated_text_is_stored_text, 'the text of a field-expression group that the validator accepts is the text CompiledRouterNode stores', floor=3)
    run.rule('R15', r15_multi_segment_flag, 'the multi-segment decision is the CONSUME_MULTIPLE_SEGMENTS attribute of the registered converter, whatever its type', floor=2)
    run.rule('R9', r9_rendered_text, 'template-derived text reaches a line of the generated source only validated, converted (!r), or as int / generated name', floor=28)
    run.rule('R17', r17_payload_group, 'the attributes of a node that find() answers with are stored together on every path of add_route that stores one of them', floor=6)
    run.rule('R18', r18_field_pattern_classes, 'each group of the field-expression pattern excludes exactly the delimiters that end it (text the pattern does not match silently becomes a literal segment)', floor=3)
    run.rule('R19', r19_converter_provenance, 'the converter instance a field is checked with is built from the class handed to that very _instantiate_converter call; a memo qualifies only under a key that determines the class object and the argument text', floor=2)
